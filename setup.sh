#!/bin/bash
# Builds the framework from files on disk only (offline). Run once after a fresh restore.
set -e
cd "$(dirname "$0")"
export GOFLAGS=-mod=mod GOPROXY=off GOSUMDB=off GOTOOLCHAIN=local
mkdir -p .build evidence replay/found
cat /repo/go.sum harness/go.sum.extra | sort -u > harness/go.sum
cd harness
go1.26.8 build -tags verif ./...
go1.26.8 vet -tags verif ./... >/dev/null 2>&1 || true
for d in c[0-9][0-9]; do
  id=$(echo $d | tr c C)
  go1.26.8 test -c -tags verif -o ../.build/$id.test ./$d
done
echo "setup ok"
