#!/bin/bash
# usage: tools/seedsweep.sh <tier> <seed>... ; runs every check at every seed, prints only failures
tier=$1; shift
cd /verif
for seed in "$@"; do
  for id in C01 C02 C03 C04 C05 C06 C07 C08 C09 C10 C11 C12 C13 C14 C15 C16 C17 C18 C19 C20; do
    out=$(mktemp)
    VERIF_SEED=$seed ./check $id --tier $tier > $out 2>&1; rc=$?
    if [ $rc != 0 ]; then
      echo "seed=$seed $id rc=$rc"
      grep -a "VIOLATION\|INCONCL\|what:" $out | head -4 | cut -c1-400
    fi
    rm -f $out
  done
done
echo done-seeds
