#!/usr/bin/env python3
"""Regenerates /verif/MANIFEST.json from checks_table.py (claimed checks) and properties.jsonl."""
import json, os, subprocess, sys
V = os.path.dirname(os.path.dirname(os.path.abspath(__file__)))
sys.path.insert(0, V)
from checks_table import CHECKS, NOT_APPLICABLE
props = [json.loads(l) for l in open(os.path.join(V, 'properties.jsonl'))]
hooks = subprocess.run(['git', '-C', '/repo', 'log', '--format=%H %s', '79388d9..HEAD'], capture_output=True, text=True).stdout.splitlines()
hook_commits = [l.split()[0] for l in hooks if ' verif: ' in l]
checks = []
for p in props:
    cid = p['id']
    if cid not in CHECKS:
        continue
    c = CHECKS[cid]
    checks.append(dict(
        property_id=cid,
        quick_cmd='./check %s --tier quick' % cid,
        thorough_cmd='./check %s --tier thorough' % cid,
        evidence_file='evidence/%s.json' % cid,
        replay_cmd_template='./check %s --replay {path}' % cid,
        engine=c.get('engine', 'harness'),
        level_claimed=dict(category=c['level'], text=c['level_text'], design_ref=c.get('design_ref', 'DESIGN.md section 6, ' + cid)),
        level_note=c['level_note'],
        technique=c['technique'],
    ))
na = [dict(property_id=p['id'], reason=NOT_APPLICABLE.get(p['id'], 'check not built yet in this session (planned: see DESIGN.md section 6)'))
      for p in props if p['id'] not in CHECKS]
m = dict(
    version=1,
    setup_cmd='./setup.sh',
    hooks=dict(guard='verif', enable='go test -tags verif (the harness builds /repo through a replace directive with -tags verif)',
               baseline_off_cmd='cd /repo && GOFLAGS=-mod=mod go test -vet=off -count=1 -timeout 25m ./...',
               source_commits=hook_commits, add_only=True),
    engines=[
        dict(name='harness', path='harness/', serves_properties=sorted(CHECKS),
             kind_free_text='Go module (go1.26.8, rapid v1.3.0, testing/synctest) with one test package per property: rapid generators and enumerators, reference models under harness/ref, evidence recorder and replay codec under harness/engine'),
        dict(name='driver', path='check', serves_properties=sorted(CHECKS),
             kind_free_text='python3 driver: rebuilds the test binary from /repo with -tags verif, shards jobs over processes, replays saved regressions, handles worker crashes through a journal, merges evidence, applies known_findings.json'),
    ],
    checks=checks,
    not_applicable=na,
    notes='Technique family: property-based testing and fuzzing. Seeds: VERIF_SEED is mapped to per-shard rapid seeds. Exit 2 = inconclusive (build failure, timeout), never a verdict.',
)
json.dump(m, open(os.path.join(V, 'MANIFEST.json'), 'w'), indent=1)
print('MANIFEST.json: %d checks, %d not_applicable' % (len(checks), len(na)))
