#!/bin/bash
# usage: trymut.sh <patch.diff> <check-id>... : apply a seeded change to /repo, run the checks, undo it.
# -R as first argument reverses the patch (to test against pre-fix code).
rev=""
if [ "$1" = "-R" ]; then rev="-R"; shift; fi
patch="$(realpath "$1")"; shift
if ! git -C /repo diff --quiet; then echo "/repo is dirty"; exit 3; fi
git -C /repo apply $rev "$patch" || { echo "patch does not apply"; exit 3; }
trap 'git -C /repo checkout -- . ; git -C /repo status --short | grep -v "^??" ' EXIT
for id in "$@"; do
  echo "=== $id with $(basename $patch)"
  ( cd /verif && timeout 1800 ./check $id ${TIER:+--tier $TIER} > /tmp/trymut.out 2>&1; echo "rc=$?"; grep -E "VIOLATION|KNOWN|INCONCL|what:|BUILD|evaluations=" /tmp/trymut.out | cut -c1-400 )
done
