#!/bin/bash
# usage: process_wave.sh <agent-dir-name e.g. F01> <property e.g. C01> <first index e.g. 5>
# Confirms the two changes of a sub-agent (tools/confirm_mut.sh), stores them as seeded/<prop>-m<i>, m<i+1>,
# runs the property's own check against each in a scratch worktree and keeps a regression case when caught.
d=$1; prop=$2; n=$3
cd /verif
for k in 1 2; do
  name=$prop-m$((n+k-1))
  r=$(tools/confirm_mut.sh /tmp/mut/$d.out $k $name 2>&1 | grep RESULT)
  echo "$r"
  if [ -d seeded/$name ]; then
    VERIF_NO_REGRESS=1 KEEP=$name tools/trywt.sh seeded/$name/patch.diff $prop 2>&1 | grep -a "rc=\|what\|kept" | cut -c1-260
  fi
done
git -C /repo worktree remove --force /tmp/mut/$d 2>/dev/null
