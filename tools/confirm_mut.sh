#!/bin/bash
# usage: confirm_mut.sh <agent-out-dir> <K> <seeded-name>
# Confirms a seeded change in a scratch worktree (suite passes with it, demo fails with it and
# passes without it) and stores it as /verif/seeded/<seeded-name>/.
set -u
out="$1"; k="$2"; name="$3"
export GOFLAGS=-mod=mod GOPROXY=off
wt=/tmp/confirm/$name
rm -rf "$wt"; mkdir -p /tmp/confirm
git -C /repo worktree add -q --detach "$wt" HEAD || exit 3
cleanup() { git -C /repo worktree remove --force "$wt" 2>/dev/null; }
trap cleanup EXIT
patch="$out/m$k.patch.diff"; demo=$(ls "$out"/m${k}_demo*.go | head -1)
pkgline=$(grep -m1 '^package ' "$demo" | awk '{print $2}')
case "$pkgline" in
  jrpc2*) dir=. ;;
  channel*) dir=channel ;;
  handler*) dir=handler ;;
  jhttp*) dir=jhttp ;;
  server*) dir=server ;;
  main) dir=MAIN ;;
  *) echo "unknown package $pkgline"; exit 3 ;;
esac
tags=""; grep -q '^//go:build verif' "$demo" && tags="-tags verif"   # a demo may pin a schedule through the library's hook
tests=$(grep -oE '^func (Test[A-Za-z0-9_]+)' "$demo" | awk '{print $2}' | paste -sd'|')
cd "$wt"
git apply "$patch" || { echo "RESULT $name: patch does not apply"; exit 1; }
suite=ok
go build ./... >/tmp/confirm/$name.suite 2>&1 && go test -vet=off -count=1 ./... >>/tmp/confirm/$name.suite 2>&1 || suite=FAIL
cp "$demo" "$wt/$dir/zz_demo_test.go"
with=pass
go test $tags -vet=off -count=1 -run "^($tests)\$" ./$dir >/tmp/confirm/$name.with 2>&1 || with=fail
git checkout -q -- . 
without=pass
go test $tags -vet=off -count=1 -run "^($tests)\$" ./$dir >/tmp/confirm/$name.without 2>&1 || without=fail
echo "RESULT $name: suite_with_patch=$suite demo_with_patch=$with demo_without_patch=$without"
if [ "$suite" = ok ] && [ "$with" = fail ] && [ "$without" = pass ]; then
  d=/verif/seeded/$name; mkdir -p "$d"
  cp "$patch" "$d/patch.diff"; cp "$demo" "$d/$(basename $demo)"
  python3 - "$out/m$k.meta.json" "$d/meta.json" "$dir" "$tests" <<'PY'
import json,sys
m=json.load(open(sys.argv[1]))
m['demo_package_dir']=sys.argv[3]; m['demo_tests']=sys.argv[4]
m['confirmed']={'by':'tools/confirm_mut.sh in a scratch worktree of /repo HEAD','suite_with_patch':'pass (go test -vet=off -count=1 ./...)','demo_with_patch':'fails','demo_without_patch':'passes'}
json.dump(m,open(sys.argv[2],'w'),indent=1)
PY
fi
