#!/bin/bash
# usage: trywt.sh [-R] <patch.diff> <check-id>... : like trymut.sh but in a scratch worktree (never touches /repo)
rev=""
if [ "$1" = "-R" ]; then rev="-R"; shift; fi
patch="$(realpath "$1")"; shift
wt=/tmp/trywt-$$
git -C /repo worktree add -q --detach $wt HEAD || exit 3
trap 'git -C /repo worktree remove --force $wt' EXIT
git -C $wt apply $rev "$patch" || { echo "patch does not apply"; exit 3; }
for id in "$@"; do
  echo "=== $id with $(basename $(dirname $patch))/$(basename $patch)"
  VERIF_REPO=$wt /verif/check $id ${TIER:+--tier $TIER} > /tmp/trywt.$$.out 2>&1; echo "rc=$?"
  grep -aE "VIOLATION|KNOWN|INCONCL|what:|BUILD" /tmp/trywt.$$.out | cut -c1-${WIDTH:-300}
  if [ -n "$KEEP" ]; then
    # keep the smallest case found for this check as a regression file
    f=$(grep -a "^VIOLATION property=$id replay=/verif/replay/found/" /tmp/trywt.$$.out | sed 's/.*replay=//' | xargs -r ls -S 2>/dev/null | tail -1)
    if [ -n "$f" ]; then cp "$f" /verif/replay/regress/$id/seeded-$KEEP.json; echo "kept $f as regress/$id/seeded-$KEEP.json"; fi
  fi
done
rm -f /tmp/trywt.$$.out
