#!/bin/bash
# usage: matrix.sh <out.tsv> <seeded-dir>... : for every seeded change, apply it in a scratch worktree
# (outside /repo and /verif), run every check (quick) against that worktree (VERIF_REPO), and record
# which checks report a violation and with which signature.  IDS="C01 C07" restricts the checks.
out="$1"; shift
wt=/tmp/matrix-wt-$$
git -C /repo worktree prune; git -C /repo worktree add -q --detach $wt HEAD || exit 3
trap 'git -C /repo worktree remove --force $wt' EXIT
ids=${IDS:-$(python3 -c "import sys;sys.path.insert(0,'/verif');from checks_table import CHECKS;print(' '.join(sorted(CHECKS)))")}
: > "$out"
for d in "$@"; do
  name=$(basename $d)
  rev=""
  patch=$(realpath $d/patch.diff)
  [ -f $d/reverse ] && rev="-R"
  git -C $wt checkout -q -- . && git -C $wt apply $rev $patch || { echo "$name	PATCH-FAILS" >> "$out"; continue; }
  caught=""
  for id in $ids; do
    VERIF_REPO=$wt /verif/check $id > /tmp/matrix.$$.out 2>&1; rc=$?
    if [ $rc = 1 ]; then
      sig=$(grep -a "what:" /tmp/matrix.$$.out | head -1 | awk '{print $2}')
      caught="$caught $id[$sig]"
    elif [ $rc != 0 ]; then caught="$caught $id(rc$rc)"; fi
  done
  echo "$name	$caught" >> "$out"
  echo "$name -> $caught"
done
rm -f /tmp/matrix.$$.out
