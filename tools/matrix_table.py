#!/usr/bin/env python3
"""Merge the detection-matrix runs (.build/matrix-*.tsv, written by tools/matrix.sh; later files
override earlier rows) into seeded/DETECTION.tsv, record `detected_by` in every seeded/*/meta.json
and print the per-property summary table that DESIGN.md quotes.

usage: matrix_table.py [--write]      (without --write only the summary is printed)"""
import glob, json, os, re, sys

V = os.path.dirname(os.path.dirname(os.path.abspath(__file__)))


def own_prop(name):
    m = re.match(r'(?:prefix-|own-)?[cC](\d\d)', name)
    return 'C' + m.group(1) if m else '?'


def main():
    rows = {}
    for f in sorted(glob.glob(os.path.join(V, '.build', 'matrix-*.tsv'))):
        for line in open(f):
            line = line.rstrip('\n')
            if not line:
                continue
            name, _, rest = line.partition('\t')
            rows[name] = rest.strip()
    out = []
    per = {}
    for name in sorted(os.listdir(os.path.join(V, 'seeded'))):
        d = os.path.join(V, 'seeded', name)
        if not os.path.isdir(d):
            continue
        prop = own_prop(name)
        meta_p = os.path.join(d, 'meta.json')
        meta = json.load(open(meta_p)) if os.path.exists(meta_p) else {}
        rest = rows.get(name)
        st = per.setdefault(prop, dict(n=0, own=0, other=[], none=[], verdict=[], norun=[]))
        st['n'] += 1
        if rest is None or rest == 'PATCH-FAILS':
            prev = meta.get('detected_by')
            # no matrix row (yet): the case kept when the change was first run against the
            # check of its own property (tools/process_wave.sh, generators alone) is the record
            kept = os.path.join(V, 'replay', 'regress', prop, 'seeded-%s.json' % name)
            if prev:
                hits = [(h['check'], h['signature']) for h in prev]
                unsure = []
            elif os.path.exists(kept):
                try:
                    sig = json.load(open(kept)).get('signature', '?')
                except Exception:
                    sig = '?'
                hits, unsure = [(prop, sig)], []
            elif meta.get('verdict'):
                hits, unsure = [], []
            else:
                st['norun'].append(name)
                out.append((name, prop, 'not-run', ''))
                continue
        else:
            hits = re.findall(r'(C\d\d)\[([^\]]*)\]', rest)
            unsure = re.findall(r'(C\d\d)\(rc(\d+)\)', rest)
        own = [s for c, s in hits if c == prop]
        others = [(c, s) for c, s in hits if c != prop]
        if own:
            st['own'] += 1
        elif others:
            st['other'].append(name)
        elif meta.get('verdict'):
            st['verdict'].append(name)
        else:
            st['none'].append(name)
        out.append((name, prop, ';'.join(own) or '-', ' '.join('%s[%s]' % x for x in others)))
        if '--write' in sys.argv and meta:
            meta['detected_by'] = [dict(check=c, signature=s) for c, s in hits]
            if unsure:
                meta['inconclusive_in'] = [c for c, _ in unsure]
            json.dump(meta, open(meta_p, 'w'), indent=1, ensure_ascii=False)
    if '--write' in sys.argv:
        with open(os.path.join(V, 'seeded', 'DETECTION.tsv'), 'w') as f:
            f.write('change\tproperty\tsignature reported by the property\'s own check\tother checks that report it\n')
            for r in out:
                f.write('\t'.join(r) + '\n')
    print('| property | changes | own check reports | only another check | not reported (verdict in meta.json) | not reported |')
    print('|---|---|---|---|---|---|')
    tot = dict(n=0, own=0, other=0, verdict=0, none=0)
    for prop in sorted(per):
        st = per[prop]
        print('| %s | %d | %d | %s | %s | %s |' % (prop, st['n'], st['own'], ', '.join(st['other']) or '–',
                                                 ', '.join(st['verdict']) or '–', ', '.join(st['none'] + ['(%s: no run)' % x for x in st['norun']]) or '–'))
        tot['n'] += st['n']; tot['own'] += st['own']; tot['other'] += len(st['other'])
        tot['verdict'] += len(st['verdict']); tot['none'] += len(st['none'])
    print('| all | %(n)d | %(own)d | %(other)d | %(verdict)d | %(none)d |' % tot)


main()
