#!/usr/bin/env python3
"""usage: mkpatch.py <out.diff> <file> <old> <new> [<file> <old> <new> ...]
Creates a patch against /repo HEAD by textual replacement (working tree is restored)."""
import subprocess, sys
out = sys.argv[1]
args = sys.argv[2:]
assert subprocess.run(['git', '-C', '/repo', 'diff', '--quiet']).returncode == 0, '/repo dirty'
try:
    for i in range(0, len(args), 3):
        f, old, new = args[i:i+3]
        p = '/repo/' + f
        s = open(p).read()
        assert s.count(old) == 1, (f, old, s.count(old))
        open(p, 'w').write(s.replace(old, new))
    r = subprocess.run('cd /repo && GOFLAGS=-mod=mod GOPROXY=off go build ./... && gofmt -l .', shell=True, capture_output=True, text=True)
    if r.returncode != 0:
        print('BUILD FAILS', r.stderr[:2000]); sys.exit(1)
    d = subprocess.run(['git', '-C', '/repo', 'diff'], capture_output=True, text=True).stdout
    open(out, 'w').write(d)
    print('wrote', out, len(d.splitlines()), 'lines')
finally:
    subprocess.run(['git', '-C', '/repo', 'checkout', '--', '.'])
