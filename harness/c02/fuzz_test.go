package c02

import (
	"testing"

	"verif/harness/engine"
)

// FuzzInbound: coverage-guided search over single inbound records delivered
// to a running server (plain and push-enabled), with the reference-classifier
// oracle and the liveness probe.
func FuzzInbound(f *testing.F) {
	for _, s := range []string{
		`{"jsonrpc":"2.0","id":1,"method":"ret","params":{"k":1}}`, `[{"jsonrpc":"2.0","method":"ret"},{"jsonrpc":"1.0","id":2}]`, `[]`, ` [ ] `, `{`, `nul`, `5`,
		`{"jsonrpc":"2.0","id":[1],"method":"ret"}`, `{"jsonrpc":"2.0","id":1,"method":"ret","result":1}`, `{"jsonrpc":"2.0","id":7,"result":1}`, `{"jsonrpc":"2.0","id":1,"error":{"code":1,"message":"m"}}`,
		`{"jsonrpc":"2.0","id":1,"method":"rpc.serverInfo"}`, `{"jsonrpc":"2.0","id":"x","method":"nope"}`, `[1,"a",null,{}]`,
	} {
		f.Add([]byte(s), false)
		f.Add([]byte(s), true)
	}
	part := engine.Part[Case]{Name: "fuzz", Run: run}
	f.Fuzz(func(t *testing.T, data []byte, push bool) {
		if len(data) > 1<<12 {
			return
		}
		engine.RunOne(t, "C02", part, Case{AllowPush: push, Records: []engine.Bytes{engine.Bytes(data)}})
	})
}
