// Package c02 checks property C02: JSON-RPC 2.0 conformance and survival of
// the server on arbitrary inbound records.
package c02

import (
	"fmt"
	"strings"
	"testing"

	"pgregory.net/rapid"

	"verif/harness/engine"
	"verif/harness/oracle"
	"verif/harness/ref/refrpc"
	"verif/harness/sim"
)

// Case: a list of records delivered one at a time to a running server; each
// is followed by a liveness probe call.
type Case struct {
	AllowPush      bool           `json:"allow_push,omitempty"`
	DisableBuiltin bool           `json:"disable_builtin,omitempty"`
	Salt           uint64         `json:"salt,omitempty"`
	Records        []engine.Bytes `json:"records"`
}

func probe(i int) []byte {
	return []byte(fmt.Sprintf(`{"jsonrpc":"2.0","id":"probe%d","method":"ret","params":{"k":%d}}`, i, 900000+i))
}

func cfgOf(c Case) refrpc.Config {
	return refrpc.Config{AllowPush: c.AllowPush, Builtin: !c.DisableBuiltin,
		Resolve: func(m string) bool { return sim.Known[m] }}
}

func run(t *testing.T, c Case) engine.Verdict {
	sc := sim.Scenario{Cfg: sim.Config{AllowPush: c.AllowPush, DisableBuiltin: c.DisableBuiltin, Salt: c.Salt, Concurrency: 4}}
	for i, r := range c.Records {
		sc.Steps = append(sc.Steps, sim.Step{Op: "send", Rec: r}, sim.Step{Op: "send", Rec: probe(i)})
	}
	h := sim.Run(t, sc)
	if h.BubbleErr != "" {
		return engine.Failf("C02/stuck", "the scenario did not end cleanly: %s", h.BubbleErr)
	}
	wire := map[int][][]byte{}
	invs := map[int][]oracle.Invocation{}
	rets := map[int]string{}
	for _, e := range h.Events {
		if e.Kind == "exit" {
			rets[e.Inv] = e.Ret
		}
	}
	for _, e := range h.Events {
		switch e.Kind {
		case "wire":
			wire[e.Step] = append(wire[e.Step], []byte(e.Data))
		case "enter":
			invs[e.Step] = append(invs[e.Step], oracle.Invocation{K: e.K, Inv: e.Inv, Method: e.Method, ID: e.ID, Note: e.Note, Ret: rets[e.Inv]})
		case "waitstatus-blocked":
			return engine.Failf("C02/server-stuck", "WaitStatus did not return after the peer closed")
		}
	}
	cfg := cfgOf(c)
	v := engine.Verdict{}
	nontrivial := false
	for i, r := range c.Records {
		exp := refrpc.Classify(cfg, r)
		if skip(exp) {
			v.Labels = append(v.Labels, "dontcare:parking-method")
			continue
		}
		if p := oracle.MatchReplies("C02", exp, wire[2*i], invs[2*i]); p != nil {
			return engine.Failf(p.Sig, "record %s (push=%v builtin=%v): %s", engine.Q(r), c.AllowPush, !c.DisableBuiltin, p.Msg)
		}
		// Liveness probe.
		pexp := refrpc.Classify(cfg, probe(i))
		if p := oracle.MatchReplies("C02", pexp, wire[2*i+1], invs[2*i+1]); p != nil {
			return engine.Failf("C02/not-serving-after-record", "after record %s the probe call was not served: %s", engine.Q(r), p.Msg)
		}
		lab, nt := describe(exp)
		v.Labels = append(v.Labels, lab...)
		nontrivial = nontrivial || nt
	}
	v.NonTrivial = nontrivial
	v.Counts = map[string]int64{"records_checked": int64(len(c.Records)), "probe_calls_answered": int64(len(c.Records))}
	return v
}

// skip: members naming one of the harness's parking methods would wait for a release step.
func skip(exp refrpc.Record) bool {
	for _, m := range exp.Members {
		if m.Handler && (m.Method == "gate" || m.Method == "cbgate" || m.Method == "notegate") {
			return true
		}
	}
	return false
}

func describe(exp refrpc.Record) (labels []string, nontrivial bool) {
	if exp.Top != "members" {
		return []string{"top:" + exp.Top}, true
	}
	if exp.Batch {
		labels = append(labels, "batch")
		nontrivial = true
	}
	for _, m := range exp.Members {
		labels = append(labels, "member:"+m.Class.String())
		if m.DontCare != "" {
			labels = append(labels, "dontcare:"+m.DontCare)
		}
		plainCall := m.Class == refrpc.Call && m.Reply == refrpc.HandlerReply && m.IDText != "" && !strings.ContainsAny(m.IDText, ".eE-\"")
		if !plainCall {
			nontrivial = true
		}
	}
	return
}

// ---- the exhaustive field-variant product -----------------------------------

var (
	vJSONRPC = []string{"", `"2.0"`, `"2.0"`, `"1.0"`, `2.0`, `null`, `[]`}
	vID      = []string{"", `null`, `0`, `-0`, `1.5`, `1e3`, `"s"`, `""`, `"1"`, `true`, `[]`, `{}`}
	vMethod  = []string{"", `"ret"`, `"nope"`, `"rpc.serverInfo"`, `"rpc.x"`, `""`, `null`, `7`, `[false]`}
	vParams  = []string{"", `null`, `[]`, `{}`, `[1]`, `"s"`, `5`, `true`}
	vExtra   = []string{"", `"x":1`, `"result":1`, `"error":{"code":1,"message":"m"}`, `"error":5`}
)

func member(a, b, c, d, e int) string {
	var parts []string
	if vJSONRPC[a] != "" {
		parts = append(parts, `"jsonrpc":`+vJSONRPC[a])
	}
	if vID[b] != "" {
		parts = append(parts, `"id":`+vID[b])
	}
	if vMethod[c] != "" {
		parts = append(parts, `"method":`+vMethod[c])
	}
	if vParams[d] != "" {
		parts = append(parts, `"params":`+vParams[d])
	}
	if vExtra[e] != "" {
		parts = append(parts, vExtra[e])
	}
	return "{" + strings.Join(parts, ",") + "}"
}

func productSize() int { return len(vJSONRPC) * len(vID) * len(vMethod) * len(vParams) * len(vExtra) }

func nthMember(n int) string {
	e := n % len(vExtra)
	n /= len(vExtra)
	d := n % len(vParams)
	n /= len(vParams)
	c := n % len(vMethod)
	n /= len(vMethod)
	b := n % len(vID)
	n /= len(vID)
	return member(n%len(vJSONRPC), b, c, d, e)
}

const groupSize = 48

// enumProduct: every member of the product as a single record; configurations
// by tier (quick: plain + push; thorough: all four).
func enumProduct(env engine.Env, yield func(Case) bool) {
	cfgs := [][2]bool{{false, false}, {true, false}}
	if env.Thorough() {
		cfgs = append(cfgs, [2]bool{false, true}, [2]bool{true, true})
	}
	g := 0
	for ci, cf := range cfgs {
		for start := 0; start < productSize(); start += groupSize {
			g++
			if !env.Mine(g) {
				continue
			}
			c := Case{AllowPush: cf[0], DisableBuiltin: cf[1], Salt: uint64(env.Seed)*1000 + uint64(ci)}
			for n := start; n < start+groupSize && n < productSize(); n++ {
				c.Records = append(c.Records, engine.Bytes(nthMember(n)))
			}
			if !yield(c) {
				return
			}
		}
	}
}

// genBatch: arrays of 1-3 members sampled from the product, plus other top-level shapes.
func genBatch(t *rapid.T) Case {
	c := Case{AllowPush: rapid.Bool().Draw(t, "push"), DisableBuiltin: rapid.Bool().Draw(t, "nobuiltin"), Salt: rapid.Uint64().Draw(t, "salt")}
	n := rapid.IntRange(1, 12).Draw(t, "nrec")
	for i := 0; i < n; i++ {
		k := rapid.IntRange(1, 3).Draw(t, "members")
		var ms []string
		for j := 0; j < k; j++ {
			if rapid.IntRange(0, 9).Draw(t, "odd") == 0 {
				ms = append(ms, rapid.SampledFrom([]string{`1`, `"x"`, `null`, `[]`, `[{}]`, `true`, `{}`}).Draw(t, "nonobj"))
			} else {
				ms = append(ms, nthMember(rapid.IntRange(0, productSize()-1).Draw(t, "m")))
			}
		}
		ws := rapid.SampledFrom([]string{"", " ", "\n", "\r\n\t "}).Draw(t, "ws")
		c.Records = append(c.Records, engine.Bytes(ws+"["+strings.Join(ms, ","+ws)+"]"+ws))
	}
	return c
}

// genRandom: near-valid JSON texts from a grammar, and byte-level mutations.
func genRandom(t *rapid.T) Case {
	c := Case{AllowPush: rapid.Bool().Draw(t, "push"), DisableBuiltin: rapid.Bool().Draw(t, "nobuiltin"), Salt: rapid.Uint64().Draw(t, "salt")}
	n := rapid.IntRange(1, 10).Draw(t, "nrec")
	for i := 0; i < n; i++ {
		c.Records = append(c.Records, engine.Bytes(genRecord(t)))
	}
	return c
}

var seeds = []string{
	`{"jsonrpc":"2.0","id":1,"method":"ret","params":{"k":1}}`,
	`{"jsonrpc":"2.0","method":"ret","params":[5]}`,
	`[{"jsonrpc":"2.0","id":"a","method":"ret"},{"jsonrpc":"2.0","method":"nope"}]`,
	`{"jsonrpc":"2.0","id":7,"result":{"x":[1,2,3]}}`,
	`{"jsonrpc":"2.0","id":null,"method":"svc.ret","params":null}`,
	`{"jsonrpc":"2.0","id":3,"error":{"code":-32000,"message":"boom","data":[1]}}`,
	`{"jsonrpc":"2.0","id":12345678901234567890,"method":"rpc.serverInfo"}`,
	`{"jsonrpc":"2.0","id":1e400,"method":"err","params":{"k":2,"c":-5}}`,
	`[]`, `[[]]`, `[1,2]`, ``, ` `, `{`, `{"jsonrpc":"2.0","id":1,"method":"ret"`, `nul`, `"str"`,
}

func genValue(t *rapid.T, depth int) string {
	switch rapid.IntRange(0, 9).Draw(t, "vk") {
	case 0:
		return "null"
	case 1:
		return rapid.SampledFrom([]string{"true", "false"}).Draw(t, "b")
	case 2:
		return rapid.SampledFrom([]string{"0", "-0", "1", "-1", "1.5", "1e3", "1E-2", "12345678901234567890", "1e999", "0.000000000000000000000000000001", "2147483648", "-2147483649"}).Draw(t, "n")
	case 3, 4:
		return genString(t)
	case 5, 6:
		if depth > 3 {
			return "[]"
		}
		n := rapid.IntRange(0, 3).Draw(t, "alen")
		var xs []string
		for i := 0; i < n; i++ {
			xs = append(xs, genValue(t, depth+1))
		}
		return "[" + strings.Join(xs, ",") + "]"
	default:
		if depth > 3 {
			return "{}"
		}
		n := rapid.IntRange(0, 3).Draw(t, "olen")
		var xs []string
		for i := 0; i < n; i++ {
			xs = append(xs, genString(t)+":"+genValue(t, depth+1))
		}
		return "{" + strings.Join(xs, ",") + "}"
	}
}

func genString(t *rapid.T) string {
	return rapid.SampledFrom([]string{`""`, `"a"`, `"2.0"`, `"ret"`, `"k"`, `"id"`, `"method"`, `"A"`, `"é"`, `"😀"`, `"\ud800"`, "\"\xff\"", `"a\nb"`, `"rpc.x"`, `"jsonrpc"`, `"code"`, `"Message"`}).Draw(t, "s")
}

func genRecord(t *rapid.T) string {
	switch rapid.IntRange(0, 5).Draw(t, "rk") {
	case 0: // grammar: an object with the protocol keys and near-valid values
		var parts []string
		keys := []string{"jsonrpc", "id", "method", "params", "result", "error", "x", "Method", "jsonrpc", "id"}
		n := rapid.IntRange(0, 6).Draw(t, "nkeys")
		for i := 0; i < n; i++ {
			k := rapid.SampledFrom(keys).Draw(t, "key")
			var v string
			switch {
			case k == "jsonrpc" && rapid.IntRange(0, 3).Draw(t, "okv") != 0:
				v = `"2.0"`
			case k == "method" && rapid.IntRange(0, 3).Draw(t, "okm") != 0:
				v = rapid.SampledFrom([]string{`"ret"`, `"nope"`, `"svc.ret"`, `"rpc.serverInfo"`, `"rpc.user"`, `"err"`, `"ret"`}).Draw(t, "mv")
			case k == "id" && rapid.IntRange(0, 3).Draw(t, "oki") != 0:
				v = rapid.SampledFrom([]string{`1`, `"a"`, `2.5`, `-7`, `null`, `1e2`, `"1"`}).Draw(t, "iv")
			case k == "error" && rapid.IntRange(0, 2).Draw(t, "oke") != 0:
				v = rapid.SampledFrom([]string{`{"code":1,"message":"m"}`, `{"code":1.5,"message":"m"}`, `{"code":1}`, `{"message":"m"}`, `{"code":1,"message":"m","data":null}`, `{"Code":1,"message":"m"}`, `{"code":1,"message":"m","x":1}`, `{"code":99999999999,"message":"m"}`, `{"code":"1","message":"m"}`, `{"code":1,"message":2}`}).Draw(t, "ev")
			default:
				v = genValue(t, 0)
			}
			ws := rapid.SampledFrom([]string{"", "", " ", "\n"}).Draw(t, "ws")
			parts = append(parts, ws+`"`+k+`"`+ws+":"+ws+v)
		}
		return "{" + strings.Join(parts, ",") + "}"
	case 1: // array of such
		n := rapid.IntRange(0, 3).Draw(t, "blen")
		var xs []string
		for i := 0; i < n; i++ {
			xs = append(xs, genRecord(t))
		}
		return rapid.SampledFrom([]string{"", " ", "\n\t"}).Draw(t, "lead") + "[" + strings.Join(xs, ",") + "]"
	case 2: // arbitrary JSON value
		return genValue(t, 0)
	case 3, 4: // byte mutation of a seed
		s := []byte(rapid.SampledFrom(seeds).Draw(t, "seed"))
		nm := rapid.IntRange(1, 3).Draw(t, "nmut")
		for i := 0; i < nm && len(s) > 0; i++ {
			p := rapid.IntRange(0, len(s)-1).Draw(t, "pos")
			switch rapid.IntRange(0, 3).Draw(t, "mk") {
			case 0:
				s = append(s[:p:p], s[p+1:]...)
			case 1:
				s[p] = rapid.SampledFrom([]byte(`{}[]",:0a \n`+"\x00\xff")).Draw(t, "byte")
			case 2:
				s = append(s[:p:p], append([]byte{rapid.SampledFrom([]byte(`{}[]",:0a \n`)).Draw(t, "ins")}, s[p:]...)...)
			case 3:
				s = s[:p]
			}
		}
		return string(s)
	default: // deep nesting / very long
		d := rapid.SampledFrom([]int{50, 500, 3000}).Draw(t, "depth")
		return `{"jsonrpc":"2.0","id":1,"method":"ret","params":` + strings.Repeat("[", d) + strings.Repeat("]", d) + `}`
	}
}

const rule = "non-trivial = the record has at least one member that is not a plain valid call with a simple id (a defect, a notification, an exotic id, a non-object, a batch, a reply-shaped member or a top-level parse error / empty batch); distinct = (server flags, record bytes of the whole group)"

var parts = []engine.AnyPart{
	engine.Part[Case]{Name: "product", Run: run, Enum: enumProduct,
		Rule:           "EVERY combination of per-field variants jsonrpc(7) x id(12) x method(9) x params(8) x extra(5) = 30240 request objects, each sent as a single record followed by a liveness probe, on a plain and a push-enabled server (thorough: also with DisableBuiltin); " + rule,
		EnumExhaustive: "the complete product of field variants as single-member records"},
	engine.Part[Case]{Name: "batch", Run: run, Gen: genBatch,
		Rule: "arrays of 1-3 members sampled from the product and non-object members, with insignificant white space before/inside/after the array; " + rule},
	engine.Part[Case]{Name: "random", Run: run, Gen: genRandom,
		Rule: "grammar-generated near-valid objects (duplicate keys, case variants, escapes, invalid UTF-8, error-object variants), arbitrary JSON values, byte mutations of valid requests, deep nesting; " + rule},
}

func TestProp(t *testing.T)   { engine.RunParts(t, "C02", parts) }
func TestReplay(t *testing.T) { engine.ReplayParts(t, "C02", parts) }
