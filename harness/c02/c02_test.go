// Package c02 checks property C02: JSON-RPC 2.0 conformance and survival of
// the server on arbitrary inbound records.
package c02

import (
	"encoding/json"
	"fmt"
	"strings"
	"testing"

	"pgregory.net/rapid"

	"verif/harness/engine"
	"verif/harness/gen"
	"verif/harness/oracle"
	"verif/harness/ref/refrpc"
	"verif/harness/sim"
)

// Case: a list of records delivered one at a time to a running server; each
// is followed by a liveness probe call.
type Case struct {
	AllowPush      bool           `json:"allow_push,omitempty"`
	DisableBuiltin bool           `json:"disable_builtin,omitempty"`
	Salt           uint64         `json:"salt,omitempty"`
	Records        []engine.Bytes `json:"records"`
	// Callbacks (push-enabled servers only): before the records the server
	// issues two callbacks, ids 1 and 2; one has a deadline that passes before
	// the first record, the other stays outstanding. 1: id 1 stays outstanding;
	// 2: id 2 does.  Records may bear those ids.
	Callbacks int `json:"callbacks,omitempty"`
}

func probe(i int) []byte {
	return []byte(fmt.Sprintf(`{"jsonrpc":"2.0","id":"probe%d","method":"ret","params":{"k":%d}}`, i, 900000+i))
}

func cfgOf(c Case) refrpc.Config {
	cfg := refrpc.Config{AllowPush: c.AllowPush, Builtin: !c.DisableBuiltin,
		Resolve: func(m string) bool { return sim.Known[m] }}
	if c.AllowPush && c.Callbacks > 0 {
		// the outstanding one is consumed by the first well-formed reply that
		// bears its id (no output either way); a defective member that is not
		// request-shaped is consumed while it is outstanding and answered after
		out := fmt.Sprint(c.Callbacks)
		cfg.MaybeCallback = func(id string) bool { return id == out }
	}
	return cfg
}

// limitFor: the Concurrency option of the server of a case; "a value less than 1
// uses runtime.NumCPU()", so zero and negative values are servers like any other.
func limitFor(salt uint64) int {
	return []int{4, 4, 4, 0, -1, -7}[salt%6]
}

func run(t *testing.T, c Case) engine.Verdict {
	sc := sim.Scenario{Cfg: sim.Config{AllowPush: c.AllowPush, DisableBuiltin: c.DisableBuiltin, Salt: c.Salt, Concurrency: limitFor(c.Salt)}}
	base := 0
	if c.AllowPush && c.Callbacks > 0 {
		d1, d2 := -1, 1000
		if c.Callbacks == 2 {
			d1, d2 = 1000, -1
		}
		sc.Steps = append(sc.Steps, sim.Step{Op: "push", Push: "callback", K: 1, D: d1}, sim.Step{Op: "push", Push: "callback", K: 2, D: d2},
			sim.Step{Op: "advance", D: 1500})
		base = len(sc.Steps)
	}
	for i, r := range c.Records {
		sc.Steps = append(sc.Steps, sim.Step{Op: "send", Rec: r}, sim.Step{Op: "send", Rec: probe(i)})
	}
	h := sim.Run(t, sc)
	if h.BubbleErr != "" {
		return engine.Failf("C02/stuck", "the scenario did not end cleanly: %s", h.BubbleErr)
	}
	wire := map[int][][]byte{}
	invs := map[int][]oracle.Invocation{}
	rets := map[int]string{}
	for _, e := range h.Events {
		if e.Kind == "exit" {
			rets[e.Inv] = e.Ret
		}
	}
	for _, e := range h.Events {
		switch e.Kind {
		case "wire":
			wire[e.Step] = append(wire[e.Step], []byte(e.Data))
		case "enter":
			invs[e.Step] = append(invs[e.Step], oracle.Invocation{K: e.K, Inv: e.Inv, Method: e.Method, ID: e.ID, Note: e.Note, Ret: rets[e.Inv]})
		case "waitstatus-blocked":
			return engine.Failf("C02/server-stuck", "WaitStatus did not return after the peer closed")
		}
	}
	cfg := cfgOf(c)
	v := engine.Verdict{}
	nontrivial := false
	for i, r := range c.Records {
		exp := refrpc.Classify(cfg, r)
		if skip(exp) {
			v.Labels = append(v.Labels, "dontcare:parking-method")
			continue
		}
		if p := oracle.MatchReplies("C02", exp, wire[base+2*i], invs[base+2*i]); p != nil {
			return engine.Failf(p.Sig, "record %s (push=%v builtin=%v): %s", engine.Q(r), c.AllowPush, !c.DisableBuiltin, p.Msg)
		}
		// Liveness probe.
		pexp := refrpc.Classify(cfg, probe(i))
		if p := oracle.MatchReplies("C02", pexp, wire[base+2*i+1], invs[base+2*i+1]); p != nil {
			return engine.Failf("C02/not-serving-after-record", "after record %s the probe call was not served: %s", engine.Q(r), p.Msg)
		}
		lab, nt := describe(exp)
		v.Labels = append(v.Labels, lab...)
		nontrivial = nontrivial || nt
	}
	v.NonTrivial = nontrivial
	v.Counts = map[string]int64{"records_checked": int64(len(c.Records)), "probe_calls_answered": int64(len(c.Records))}
	return v
}

// skip: members naming one of the harness's parking methods would wait for a release step.
func skip(exp refrpc.Record) bool {
	for _, m := range exp.Members {
		if m.Handler && (m.Method == "gate" || m.Method == "cbgate" || m.Method == "notegate") {
			return true
		}
	}
	return false
}

func describe(exp refrpc.Record) (labels []string, nontrivial bool) {
	if exp.Top != "members" {
		return []string{"top:" + exp.Top}, true
	}
	if exp.Batch {
		labels = append(labels, "batch")
		nontrivial = true
	}
	for _, m := range exp.Members {
		labels = append(labels, "member:"+m.Class.String())
		if m.DontCare != "" {
			labels = append(labels, "dontcare:"+m.DontCare)
		}
		plainCall := m.Class == refrpc.Call && m.Reply == refrpc.HandlerReply && m.IDText != "" && !strings.ContainsAny(m.IDText, ".eE-\"")
		if !plainCall {
			nontrivial = true
		}
	}
	return
}

const groupSize = 48

// enumProduct: every member of the product as a single record; configurations
// by tier (quick: plain + push; thorough: all four).
func enumProduct(env engine.Env, yield func(Case) bool) {
	cfgs := [][2]bool{{false, false}, {true, false}}
	if env.Thorough() {
		cfgs = append(cfgs, [2]bool{false, true}, [2]bool{true, true})
	}
	g := 0
	for ci, cf := range cfgs {
		for start := 0; start < gen.ProductSize(); start += groupSize {
			g++
			if !env.Mine(g) {
				continue
			}
			c := Case{AllowPush: cf[0], DisableBuiltin: cf[1], Salt: uint64(env.Seed)*1000 + uint64(ci)}
			if c.AllowPush {
				c.Callbacks = g % 3
			}
			for n := start; n < start+groupSize && n < gen.ProductSize(); n++ {
				c.Records = append(c.Records, engine.Bytes(gen.NthMember(n)))
			}
			if !yield(c) {
				return
			}
		}
	}
}

// genBatch: arrays of 1-3 members sampled from the product, plus other top-level shapes.
func genBatch(t *rapid.T) Case {
	c := Case{AllowPush: rapid.Bool().Draw(t, "push"), DisableBuiltin: rapid.Bool().Draw(t, "nobuiltin"), Salt: rapid.Uint64().Draw(t, "salt")}
	if c.AllowPush {
		c.Callbacks = rapid.IntRange(0, 2).Draw(t, "callbacks")
	}
	n := rapid.IntRange(1, 12).Draw(t, "nrec")
	for i := 0; i < n; i++ {
		k := rapid.IntRange(1, 3).Draw(t, "members")
		var ms []string
		for j := 0; j < k; j++ {
			if rapid.IntRange(0, 9).Draw(t, "odd") == 0 {
				ms = append(ms, rapid.SampledFrom([]string{`1`, `"x"`, `null`, `[]`, `[{}]`, `true`, `{}`}).Draw(t, "nonobj"))
			} else if rapid.IntRange(0, 9).Draw(t, "failing") == 0 {
				// requests whose handler fails with a code of the protocol's own: the
				// call is answered with that error, the notification with silence
				code := rapid.SampledFrom([]int{-32600, -32700, -32601, 5}).Draw(t, "hcode")
				idp := rapid.SampledFrom([]string{``, `"id":null,`, `"id":77,`}).Draw(t, "hid")
				nomsg := ""
				if rapid.IntRange(0, 2).Draw(t, "nomsg") == 0 {
					nomsg = `,"nomsg":true` // the handler's error has no message text
				}
				ms = append(ms, fmt.Sprintf(`{"jsonrpc":"2.0",%s"method":"err","params":{"k":%d,"c":%d%s}}`, idp, 500000+i*10+j, code, nomsg))
			} else if rapid.IntRange(0, 11).Draw(t, "rawresult") == 0 {
				// calls whose handler returns a pre-encoded result, sound or broken:
				// what goes out is valid JSON either way (the result, or an error)
				raw := rapid.SampledFrom([]string{`{"a":`, `1 2`, `[1,2`, ``, ` `, `{"a":1}`, " [1, 2]\n", `"x<y"`, `nul`, `{"a":1}}`, `null`, `{"a":{"b":[]}} `}).Draw(t, "raw")
				rb, _ := json.Marshal(raw)
				// (as a notification: silence either way - a result that cannot be
				// encoded is the server's own business, not a reason to answer)
				idp := rapid.SampledFrom([]string{fmt.Sprintf(`"id":%d,`, 600+i*10+j), fmt.Sprintf(`"id":%d,`, 600+i*10+j), ``, `"id":null,`}).Draw(t, "rawid")
				ms = append(ms, fmt.Sprintf(`{"jsonrpc":"2.0",%s"method":"raw","params":{"k":%d,"raw":%s}}`, idp, 600000+i*10+j, rb))
			} else {
				ms = append(ms, gen.NthMember(rapid.IntRange(0, gen.ProductSize()-1).Draw(t, "m")))
			}
			if rapid.IntRange(0, 14).Draw(t, "barerpc") == 0 {
				// the shortest reserved name: withheld from the assigner like any rpc.* name
				ms[len(ms)-1] = rapid.SampledFrom([]string{`{"jsonrpc":"2.0","id":9,"method":"rpc."}`, `{"jsonrpc":"2.0","method":"rpc."}`}).Draw(t, "barerpcv")
			}
		}
		ws := rapid.SampledFrom([]string{"", " ", "\n", "\r\n\t "}).Draw(t, "ws")
		c.Records = append(c.Records, engine.Bytes(ws+"["+strings.Join(ms, ","+ws)+"]"+ws))
	}
	return c
}

// genRandom: near-valid JSON texts from a grammar, and byte-level mutations.
func genRandom(t *rapid.T) Case {
	c := Case{AllowPush: rapid.Bool().Draw(t, "push"), DisableBuiltin: rapid.Bool().Draw(t, "nobuiltin"), Salt: rapid.Uint64().Draw(t, "salt")}
	if c.AllowPush {
		c.Callbacks = rapid.IntRange(0, 2).Draw(t, "callbacks")
	}
	n := rapid.IntRange(1, 10).Draw(t, "nrec")
	for i := 0; i < n; i++ {
		c.Records = append(c.Records, engine.Bytes(gen.InboundRecord(t)))
	}
	return c
}

const rule = "non-trivial = the record has at least one member that is not a plain valid call with a simple id (a defect, a notification, an exotic id, a non-object, a batch, a reply-shaped member or a top-level parse error / empty batch); distinct = (server flags, record bytes of the whole group)"

// runBurst delivers all records back to back over a channel whose Send shares
// one frame buffer (what the stream framings do), so that the server answers
// several of them at once.  Replies cannot be attributed to records here; what
// is judged is the last clause of C02 and the counts: every outbound record is
// a valid JSON-RPC 2.0 response (or batch of them), and for every id the
// number of responses lies between what the records demand and what they allow.
func runBurst(t *testing.T, c Case) engine.Verdict {
	sc := sim.Scenario{Cfg: sim.Config{AllowPush: c.AllowPush, DisableBuiltin: c.DisableBuiltin, Salt: c.Salt, Concurrency: limitFor(c.Salt), Chan: "fragile", NoHooks: c.Salt%2 == 0, Yield: 1}}
	cfg := cfgOf(Case{AllowPush: c.AllowPush, DisableBuiltin: c.DisableBuiltin})
	must, may := map[string]int{}, map[string]int{}
	for _, r := range c.Records {
		exp := refrpc.Classify(cfg, r)
		if skip(exp) {
			continue
		}
		sc.Steps = append(sc.Steps, sim.Step{Op: "send", Rec: r, Burst: true})
		switch exp.Top {
		case "parse-error", "empty-batch":
			must["null"]++
			continue
		}
		for _, m := range exp.Members {
			id := m.Echo
			if strings.HasPrefix(id, `"`) || m.DontCare != "" {
				id = "*" // strings may be re-encoded; uncertain members may answer under another id
			}
			switch m.Reply {
			case refrpc.ErrorReply, refrpc.HandlerReply, refrpc.InfoReply:
				must[id]++
			case refrpc.AnyReply:
				may[id]++
			}
		}
	}
	if len(sc.Steps) == 0 {
		return engine.Verdict{Labels: []string{"skipped:nothing-to-send"}}
	}
	sc.Steps[len(sc.Steps)-1].Burst = false
	h := sim.Run(t, sc)
	if h.BubbleErr != "" {
		return engine.Failf("C02/stuck", "the scenario did not end cleanly: %s", h.BubbleErr)
	}
	got := map[string]int{}
	for _, e := range h.Events {
		if e.Kind != "wire" {
			continue
		}
		items, _, err := refrpc.SplitReply([]byte(e.Data))
		if err != nil {
			return engine.Failf("C02/malformed-response", "the server emitted %s: %v", engine.Q([]byte(e.Data)), err)
		}
		for _, it := range items {
			r, err := refrpc.ParseResponse(it)
			if err != nil {
				return engine.Failf("C02/malformed-response", "the server emitted %s: %v", engine.Q(it), err)
			}
			id := r.ID
			if strings.HasPrefix(id, `"`) {
				id = "*"
			}
			got[id]++
		}
	}
	// strings and uncertain members are pooled under "*": compare totals there
	total := func(m map[string]int) (n int) {
		for _, v := range m {
			n += v
		}
		return
	}
	if may["*"] == 0 && must["*"] == 0 {
		for id, n := range must {
			if got[id] < n || got[id] > n+may[id] {
				return engine.Failf("C02/response-count", "id %s: %d responses, the records demand %d and allow %d more (all: got %v must %v may %v)", id, got[id], n, may[id], got, must, may)
			}
		}
		for id, n := range got {
			if n > must[id]+may[id] {
				return engine.Failf("C02/response-count", "id %s: %d responses, the records demand %d and allow %d more (all: got %v must %v may %v)", id, n, must[id], may[id], got, must, may)
			}
		}
	} else if g := total(got); g < total(must) || g > total(must)+total(may) {
		return engine.Failf("C02/response-count", "%d responses, the records demand %d and allow %d more", g, total(must), total(may))
	}
	return engine.Verdict{NonTrivial: len(sc.Steps) >= 3, Labels: []string{"burst", fmt.Sprintf("records:%d", min(len(sc.Steps), 6))}}
}

func genBurst(t *rapid.T) Case {
	c := genBatch(t)
	c.Callbacks = 0
	for len(c.Records) < 3 {
		c.Records = append(c.Records, genBatch(t).Records...)
	}
	return c
}

var parts = []engine.AnyPart{
	engine.Part[Case]{Name: "burst", Run: runBurst, Gen: genBurst,
		Rule: "three or more generated records delivered back to back over a channel whose Send shares one frame buffer, so that several are answered at once: every outbound record must be a valid JSON-RPC 2.0 response or batch of them, and per id the number of responses must lie between what the records demand and what they allow; non-trivial = at least three records sent; distinct = the case"},
	engine.Part[Case]{Name: "product", Run: run, Enum: enumProduct,
		Rule:           "EVERY combination of per-field variants jsonrpc(7) x id(12) x method(9) x params(8) x extra(5) = 30240 request objects, each sent as a single record followed by a liveness probe, on a plain and a push-enabled server (thorough: also with DisableBuiltin); " + rule,
		EnumExhaustive: "the complete product of field variants as single-member records"},
	engine.Part[Case]{Name: "batch", Run: run, Gen: genBatch,
		Rule: "arrays of 1-3 members sampled from the product and non-object members, with insignificant white space before/inside/after the array; " + rule},
	engine.Part[Case]{Name: "random", Run: run, Gen: genRandom,
		Rule: "grammar-generated near-valid objects (duplicate keys, case variants, escapes, invalid UTF-8, error-object variants), arbitrary JSON values, byte mutations of valid requests, deep nesting; " + rule},
}

// stopqueue: "neither crashes" also for the records that are still in the
// inbound queue (valid, invalid, with and without id) when the server is
// stopped or loses its connection.  Only survival is judged here - a crash
// kills the worker and the driver reports the journalled case; what else a
// shutdown owes is C08's.
func genStopQueue(t *rapid.T) sim.Scenario { return gen.ShutdownScenario(t) }

func runStopQueue(t *testing.T, sc sim.Scenario) engine.Verdict {
	h := sim.Run(t, sc)
	queued, stopped := false, false
	for _, e := range h.Events {
		switch e.Kind {
		case "stop", "peerclose", "recvfault":
			stopped = true
		case "quiesce":
			if !stopped && e.Snap != nil {
				queued = e.Snap.Queued > 0
			}
		}
	}
	return engine.Verdict{NonTrivial: stopped && queued, Labels: []string{fmt.Sprintf("records-queued-at-stop:%v", stopped && queued)}}
}

func init() {
	parts = append(parts, engine.Part[sim.Scenario]{Name: "stopqueue", Run: runStopQueue, Gen: genStopQueue,
		Rule: "shutdown scripts (records of every kind, a third of them invalid, piling up behind a parked notification; Stop / peer close / channel faults at any point; records after the stop; restart): the process survives - a panic in a server goroutine kills the worker and is reported with the journalled script; non-trivial = records were waiting in the inbound queue at the last quiescent point before the stop; distinct = hash of the scenario"})
}

func TestProp(t *testing.T)   { engine.RunParts(t, "C02", parts) }
func TestReplay(t *testing.T) { engine.ReplayParts(t, "C02", parts) }
