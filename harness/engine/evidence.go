package engine

import (
	"encoding/binary"
	"encoding/json"
	"fmt"
	"hash/fnv"
	"os"
	"sort"
	"strconv"
	"sync"
)

// Env carries the configuration the driver passes to a worker process.
type Env struct {
	Tier    string // quick | thorough
	Seed    int64  // VERIF_SEED as given to the check
	Shard   int    // index of this worker
	NShards int    // number of workers for this job
	Scale   int    // job-specific size parameter chosen by the driver
}

// GetEnv reads the worker configuration from the environment.
func GetEnv() Env {
	e := Env{Tier: os.Getenv("VERIF_TIER"), NShards: 1, Seed: 1}
	if e.Tier == "" {
		e.Tier = "quick"
	}
	if v, err := strconv.ParseInt(os.Getenv("VERIF_SEED"), 10, 64); err == nil {
		e.Seed = v
	}
	if v, err := strconv.Atoi(os.Getenv("VERIF_SHARD")); err == nil {
		e.Shard = v
	}
	if v, err := strconv.Atoi(os.Getenv("VERIF_NSHARDS")); err == nil && v > 0 {
		e.NShards = v
	}
	if v, err := strconv.Atoi(os.Getenv("VERIF_SCALE")); err == nil {
		e.Scale = v
	}
	return e
}

// Thorough reports whether the thorough tier was requested.
func (e Env) Thorough() bool { return e.Tier == "thorough" }

// Mine reports whether item i of an enumerated space belongs to this shard.
func (e Env) Mine(i int) bool { return i%e.NShards == e.Shard }

// Hash64 is the hash used for distinctness of case descriptors.
func Hash64(s string) uint64 {
	h := fnv.New64a()
	h.Write([]byte(s))
	return h.Sum64()
}

type sample struct {
	h uint64
	v any
}

// Recorder accumulates the evidence of one worker process. It is safe for
// concurrent use.
type Recorder struct {
	mu          sync.Mutex
	prop, part  string
	rule        string
	evals       int64
	nontriv     map[uint64]struct{}
	labels      map[string]int64
	first       []any
	reservoir   []sample // the 5 non-trivial samples with the smallest hash
	exhaustive  []string // names of finite sub-spaces enumerated completely
	extra       map[string]int64
	assumptions []string
	capped      bool
}

// hashCap bounds the per-worker set of distinct-case hashes.
const hashCap = 250000

// NewRecorder makes a recorder for one part (test function) of a property.
func NewRecorder(prop, part, rule string) *Recorder {
	return &Recorder{prop: prop, part: part, rule: rule,
		nontriv: map[uint64]struct{}{}, labels: map[string]int64{}, extra: map[string]int64{}}
}

// Case records one executed case. desc is the canonical descriptor used for
// distinctness; sample (may be nil) is what is written out if it is chosen.
func (r *Recorder) Case(desc string, nontrivial bool, smp func() any, labels ...string) {
	r.mu.Lock()
	defer r.mu.Unlock()
	r.evals++
	for _, l := range labels {
		r.labels[l]++
	}
	if !nontrivial {
		r.labels["trivial"]++
		return
	}
	h := Hash64(desc)
	if _, ok := r.nontriv[h]; ok {
		r.labels["duplicate"]++
		return
	}
	if len(r.nontriv) >= hashCap {
		// Memory bound: beyond this the distinct count is a lower bound
		// (said so in the evidence); cases are still executed and counted.
		r.capped = true
		r.extra["nontrivial_cases_not_hashed"]++
		return
	}
	r.nontriv[h] = struct{}{}
	if smp == nil {
		return
	}
	if len(r.first) < 3 {
		r.first = append(r.first, smp())
		return
	}
	if len(r.reservoir) < 5 || h < r.reservoir[len(r.reservoir)-1].h {
		r.reservoir = append(r.reservoir, sample{h, smp()})
		sort.Slice(r.reservoir, func(i, j int) bool { return r.reservoir[i].h < r.reservoir[j].h })
		if len(r.reservoir) > 5 {
			r.reservoir = r.reservoir[:5]
		}
	}
}

// Count adds n to a named counter reported under coverage.
func (r *Recorder) Count(name string, n int64) {
	r.mu.Lock()
	r.extra[name] += n
	r.mu.Unlock()
}

// Label bumps a label of the histogram without recording a case.
func (r *Recorder) Label(l string) {
	r.mu.Lock()
	r.labels[l]++
	r.mu.Unlock()
}

// Exhaustive notes that the named finite sub-space was enumerated completely
// (by all shards together).
func (r *Recorder) Exhaustive(name string) {
	r.mu.Lock()
	r.exhaustive = append(r.exhaustive, name)
	r.mu.Unlock()
}

// Assume records an assumption the check relies on.
func (r *Recorder) Assume(s string) {
	r.mu.Lock()
	r.assumptions = append(r.assumptions, s)
	r.mu.Unlock()
}

type fragment struct {
	Property    string           `json:"property"`
	Part        string           `json:"part"`
	Rule        string           `json:"rule"`
	Evaluations int64            `json:"evaluations"`
	Labels      map[string]int64 `json:"labels"`
	Extra       map[string]int64 `json:"extra"`
	Samples     []any            `json:"samples"`
	Exhaustive  []string         `json:"exhaustive"`
	Assumptions []string         `json:"assumptions"`
	HashFile    string           `json:"hash_file"`
	NHashes     int              `json:"n_hashes"`
	Capped      bool             `json:"capped"`
}

// Flush writes the fragment to $VERIF_EVIDENCE_OUT.<part>.json (and the hash
// set next to it); without that variable it prints a one-line summary.
func (r *Recorder) Flush() {
	r.mu.Lock()
	defer r.mu.Unlock()
	out := os.Getenv("VERIF_EVIDENCE_OUT")
	fr := fragment{Property: r.prop, Part: r.part, Rule: r.rule, Evaluations: r.evals,
		Labels: r.labels, Extra: r.extra, Exhaustive: r.exhaustive, Assumptions: r.assumptions,
		NHashes: len(r.nontriv), Capped: r.capped}
	fr.Samples = append(fr.Samples, r.first...)
	for _, s := range r.reservoir {
		fr.Samples = append(fr.Samples, s.v)
	}
	if out == "" {
		fmt.Printf("evidence %s/%s: evaluations=%d distinct_nontrivial=%d labels=%v\n",
			r.prop, r.part, r.evals, len(r.nontriv), r.labels)
		return
	}
	base := out + "." + r.part
	buf := make([]byte, 0, 8*len(r.nontriv))
	for h := range r.nontriv {
		buf = binary.LittleEndian.AppendUint64(buf, h)
	}
	fr.HashFile = base + ".hashes"
	if err := os.WriteFile(fr.HashFile, buf, 0o644); err != nil {
		fmt.Fprintln(os.Stderr, "evidence:", err)
	}
	b, err := json.Marshal(fr)
	if err == nil {
		err = os.WriteFile(base+".json", b, 0o644)
	}
	if err != nil {
		fmt.Fprintln(os.Stderr, "evidence:", err)
	}
}
