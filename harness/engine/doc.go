// Package engine holds what every property package shares: the evidence
// recorder, failure/replay files, seed handling and the hook scheduler.
package engine
