package engine

import (
	"encoding/json"
	"strconv"
)

// Bytes is a byte string that is written into case files as Go-quoted ASCII
// text, so that replay files are lossless and still readable.
type Bytes []byte

func (b Bytes) MarshalJSON() ([]byte, error) {
	q := strconv.QuoteToASCII(string(b))
	return json.Marshal(q[1 : len(q)-1])
}

func (b *Bytes) UnmarshalJSON(data []byte) error {
	var s string
	if err := json.Unmarshal(data, &s); err != nil {
		return err
	}
	u, err := strconv.Unquote(`"` + s + `"`)
	if err != nil {
		return err
	}
	*b = Bytes(u)
	return nil
}

// Q quotes bytes for messages.
func Q(b []byte) string { return strconv.QuoteToASCII(string(b)) }
