package engine

import (
	"crypto/sha1"
	"encoding/binary"
	"encoding/json"
	"fmt"
	"os"
	"path/filepath"
	"runtime"
	"sort"
	"strconv"
	"strings"
	"syscall"
	"testing"
	"time"

	"pgregory.net/rapid"
)

// Verdict is the outcome of running one case against its oracle.
type Verdict struct {
	Fail bool
	Sig  string // what failed (not the input): the identity of a finding
	Msg  string

	Desc       string           // canonical descriptor for distinctness ("" = JSON of the case)
	NonTrivial bool             // by the part's stated rule
	Labels     []string         // classification of the case, for the histogram
	Counts     map[string]int64 // extra counters (e.g. records inside a grouped case)
}

// Failf builds a failing verdict.
func Failf(sig, format string, args ...any) Verdict {
	return Verdict{Fail: true, Sig: sig, Msg: fmt.Sprintf(format, args...)}
}

// AnyPart is one separately runnable part of a property check.
type AnyPart interface {
	PartName() string
	exec(t *testing.T, prop string)
	replay(t *testing.T, prop string, raw json.RawMessage) Verdict
}

// Part is a rapid-driven (Gen) or enumerated (Enum) family of cases of type C
// with an oracle Run.
type Part[C any] struct {
	Name string
	Rule string
	Gen  func(*rapid.T) C
	Enum func(Env, func(C) bool) // calls yield for every case of this shard until it returns false
	Run  func(*testing.T, C) Verdict
	// EnumExhaustive names the finite space Enum covers completely (all shards together).
	EnumExhaustive string
	Assumptions    []string
}

func (p Part[C]) PartName() string { return p.Name }

// replayFile is the on-disk form of a failing (or regression) case.
type replayFile struct {
	Property  string          `json:"property"`
	Part      string          `json:"part"`
	Signature string          `json:"signature,omitempty"`
	Message   string          `json:"message,omitempty"`
	Case      json.RawMessage `json:"case"`
}

func foundDir() string {
	if d := os.Getenv("VERIF_FOUND_DIR"); d != "" {
		return d
	}
	return os.TempDir()
}

// report writes the replay file of a failure and prints the line the driver looks for.
func report(prop, part string, v Verdict, c any) string {
	raw, _ := json.Marshal(c)
	rf := replayFile{Property: prop, Part: part, Signature: v.Sig, Message: v.Msg, Case: raw}
	b, _ := json.MarshalIndent(rf, "", " ")
	name := fmt.Sprintf("%s-%s-shard%s.json", prop, part, os.Getenv("VERIF_SHARD"))
	path := filepath.Join(foundDir(), name)
	os.MkdirAll(foundDir(), 0o755)
	if err := os.WriteFile(path, b, 0o644); err != nil {
		fmt.Fprintln(os.Stderr, "report:", err)
	}
	fmt.Printf("VERIF-FAIL property=%s part=%s sha=%x signature=%q replay=%s\n", prop, part, sha1.Sum(raw), v.Sig, path)
	return path
}

// journal saves the case about to be executed, so that a crash of the
// process leaves its input behind. The journal is a shared file mapping
// ([8-byte little-endian length][replay file JSON]): storing a case costs no
// system call, and the kernel keeps the pages when the process dies.
var journalMem []byte

const journalSize = 4 << 20

func journal(prop, part string, c any) {
	path := os.Getenv("VERIF_JOURNAL")
	if path == "" {
		return
	}
	if journalMem == nil {
		f, err := os.OpenFile(path, os.O_RDWR|os.O_CREATE|os.O_TRUNC, 0o644)
		if err != nil {
			return
		}
		defer f.Close()
		if f.Truncate(journalSize) != nil {
			return
		}
		m, err := syscall.Mmap(int(f.Fd()), 0, journalSize, syscall.PROT_READ|syscall.PROT_WRITE, syscall.MAP_SHARED)
		if err != nil {
			return
		}
		journalMem = m
	}
	raw, _ := json.Marshal(c)
	b, _ := json.Marshal(replayFile{Property: prop, Part: part, Signature: "crash", Case: raw})
	if len(b) > journalSize-8 {
		binary.LittleEndian.PutUint64(journalMem, 0)
		return
	}
	binary.LittleEndian.PutUint64(journalMem, 0) // invalid while being written
	copy(journalMem[8:], b)
	binary.LittleEndian.PutUint64(journalMem, uint64(len(b)))
}

func (p Part[C]) finish(rec *Recorder, c C, v Verdict) {
	desc := v.Desc
	if desc == "" {
		b, _ := json.Marshal(c)
		desc = string(b)
	}
	rec.Case(desc, v.NonTrivial, func() any { return c }, v.Labels...)
	for k, n := range v.Counts {
		rec.Count(k, n)
	}
}

// guarded runs one case under a real-time watchdog when $VERIF_HANG_SECONDS is
// set (only for checks whose property forbids blocking).  A case normally
// takes milliseconds; one that is still running after that many seconds is
// stuck on something a bubble cannot see (a mutex that is never released):
// the process reports it as <prop>/hang with the case as replay file and exits.
// The driver believes it only if a fresh process hangs on the same case again.
func guarded[C any](prop, part string, c C, run func() Verdict) Verdict {
	secs, _ := strconv.Atoi(os.Getenv("VERIF_HANG_SECONDS"))
	if secs <= 0 {
		return run()
	}
	done := make(chan struct{})
	go func() {
		select {
		case <-done:
		case <-time.After(time.Duration(secs) * time.Second):
			buf := make([]byte, 1<<16)
			n := runtime.Stack(buf, true)
			v := Failf(prop+"/hang", "the case had not finished after %ds of real time (normally milliseconds): something waits for a lock that is never released", secs)
			report(prop, part, v, c)
			fmt.Fprintf(os.Stderr, "goroutines of the stuck case (truncated):\n%s\n", buf[:n])
			os.Exit(1)
		}
	}()
	v := run()
	close(done)
	return v
}

func (p Part[C]) exec(t *testing.T, prop string) {
	rec := NewRecorder(prop, p.Name, p.Rule)
	for _, a := range p.Assumptions {
		rec.Assume(a)
	}
	defer rec.Flush()
	env := GetEnv()
	if p.Enum != nil {
		var failed bool
		p.Enum(env, func(c C) bool {
			journal(prop, p.Name, c)
			v := guarded(prop, p.Name, c, func() Verdict { return p.Run(t, c) })
			p.finish(rec, c, v)
			if v.Fail {
				failed = true
				report(prop, p.Name, v, c)
				t.Errorf("%s/%s: %s: %s", prop, p.Name, v.Sig, v.Msg)
				return false
			}
			return true
		})
		if !failed && p.EnumExhaustive != "" {
			rec.Exhaustive(p.EnumExhaustive)
		}
	}
	if p.Gen != nil && !t.Failed() {
		rapid.Check(t, func(rt *rapid.T) {
			c := p.Gen(rt)
			journal(prop, p.Name, c)
			v := guarded(prop, p.Name, c, func() Verdict { return p.Run(t, c) })
			p.finish(rec, c, v)
			if v.Fail {
				report(prop, p.Name, v, c)
				rt.Fatalf("%s/%s: %s: %s", prop, p.Name, v.Sig, v.Msg)
			}
		})
	}
}

func (p Part[C]) replay(t *testing.T, prop string, raw json.RawMessage) Verdict {
	var c C
	if err := json.Unmarshal(raw, &c); err != nil {
		t.Fatalf("replay: cannot decode case for %s/%s: %v", prop, p.Name, err)
	}
	return guarded(prop, p.Name, c, func() Verdict { return p.Run(t, c) })
}

// RunParts runs the parts named in $VERIF_PART (comma separated; empty = all).
func RunParts(t *testing.T, prop string, parts []AnyPart) {
	want := map[string]bool{}
	for _, n := range strings.Split(os.Getenv("VERIF_PART"), ",") {
		if n != "" {
			want[n] = true
		}
	}
	for _, p := range parts {
		if len(want) == 0 || want[p.PartName()] {
			p.exec(t, prop)
		}
	}
}

// ReplayParts re-executes saved cases: the file $VERIF_REPLAY if set, else
// every *.json under $VERIF_REGRESS_DIR. A case that still fails fails the test
// and prints a VERIF-FAIL line.
func ReplayParts(t *testing.T, prop string, parts []AnyPart) {
	var files []string
	if f := os.Getenv("VERIF_REPLAY"); f != "" {
		files = []string{f}
	} else if d := os.Getenv("VERIF_REGRESS_DIR"); d != "" {
		files, _ = filepath.Glob(filepath.Join(d, "*.json"))
		sort.Strings(files)
	}
	rec := NewRecorder(prop, "replay", "saved cases re-executed without the generator")
	defer rec.Flush()
	for _, f := range files {
		b, err := os.ReadFile(f)
		if err != nil {
			t.Fatalf("replay: %v", err)
		}
		var rf replayFile
		if err := json.Unmarshal(b, &rf); err != nil {
			t.Fatalf("replay %s: %v", f, err)
		}
		var found bool
		for _, p := range parts {
			if p.PartName() != rf.Part {
				continue
			}
			found = true
			v := p.replay(t, prop, rf.Case)
			rec.Case(f, true, nil, "replayed")
			if v.Fail {
				fmt.Printf("VERIF-FAIL property=%s part=%s sha=%x signature=%q replay=%s\n", prop, rf.Part, sha1.Sum(rf.Case), v.Sig, f)
				t.Errorf("%s/%s replay %s: %s: %s", prop, rf.Part, filepath.Base(f), v.Sig, v.Msg)
			}
		}
		if !found {
			t.Fatalf("replay %s: unknown part %q", f, rf.Part)
		}
	}
}

// ReportFailure writes the replay file of a failure found outside RunParts
// (native fuzz targets) and prints the line the driver looks for.
func ReportFailure(prop, part string, v Verdict, c any) string { return report(prop, part, v, c) }

// RunOne lets a native fuzz target run one case of a part and fail the test
// with a replay file when the oracle rejects it.
func RunOne[C any](t *testing.T, prop string, p Part[C], c C) {
	v := p.Run(t, c)
	if v.Fail {
		path := report(prop, p.Name, v, c)
		t.Fatalf("%s/%s: %s: %s (replay %s)", prop, p.Name, v.Sig, v.Msg, path)
	}
}
