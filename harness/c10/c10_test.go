// Package c10 checks property C10: channel discipline (one sender, one
// receiver, one Close, whole messages) on the channels handed to Server and Client.
package c10

import (
	"fmt"
	"strings"
	"testing"

	"pgregory.net/rapid"

	"verif/harness/engine"
	"verif/harness/gen"
	"verif/harness/oracle"
	"verif/harness/sim"
)

// Case is a server-side or a client-side scenario.
type Case struct {
	Server *sim.Scenario  `json:"server,omitempty"`
	Client *sim.CScenario `json:"client,omitempty"`
}

var profiles = []gen.Profile{
	{MinSteps: 3, MaxSteps: 22, Limits: []int{32, 2}, PNote: 25, PGate: 70, PInvalid: 12, PUnknown: 10, PBatch: 45, MaxBatch: 5, PBurst: 60, Builtins: true, Pins: true,
		Outcomes: []string{"ok", "ok", "err:-32000", "bad", "badraw", "baderr"}, Chans: []string{"direct", "pipe"}},
	{MinSteps: 4, MaxSteps: 24, Limits: []int{32, 2}, IDPool: []string{"1", "2", `"1"`, "3"}, PNote: 12, PGate: 75, PInvalid: 5, PUnknown: 20, PBatch: 30, MaxBatch: 3,
		PCancel: 15, PBurst: 55, PObey: 40, Builtins: true, Pins: true, Outcomes: []string{"ok", "err:-32000", "ctxerr", "badraw"}, Chans: []string{"direct", "pipe"}},
}

// equalPins gives racing senders the same delay on purpose: both become
// runnable at the same instant, so an unserialised second sender really
// enters Send while the first is inside (the wrapper yields there).
func equalPins(t *rapid.T) []sim.Pin {
	d := rapid.SampledFrom([]int{1, 7, 100}).Draw(t, "eqdelay")
	sites := [][]string{
		{"srv.deliver.lock", "srv.push.lock", "srv.read.recv"},
		{"srv.deliver.lock"},
		{"srv.invoke.done", "srv.deliver.lock"},
		{"srv.push.lock", "srv.deliver.lock", "srv.stop.lock"},
		{"cli.send.lock", "cli.cb.lock", "cli.close.lock"},
		{"cli.send.lock"},
		{"cli.cb.lock", "cli.send.lock", "cli.accept.recv"},
	}
	var pins []sim.Pin
	for _, s := range rapid.SampledFrom(sites).Draw(t, "eqsites") {
		pins = append(pins, sim.Pin{Site: s, Delay: d})
	}
	return pins
}

func genServer(t *rapid.T) Case {
	var sc sim.Scenario
	switch rapid.IntRange(0, 4).Draw(t, "family") {
	case 4:
		// the peer's last record arrives together with the end of the stream while
		// replies to earlier calls are on their way out
		sc.Cfg.Concurrency = 4
		sc.Cfg.Salt = rapid.Uint64().Draw(t, "salt")
		sc.Cfg.Chan = rapid.SampledFrom([]string{"fragile", "fragile", "direct", "pipe"}).Draw(t, "chan")
		n := rapid.IntRange(1, 4).Draw(t, "calls")
		sc.Cfg.Faults = []sim.Fault{{Op: "recv", At: n + 1, Kind: "data+eof"}}
		for k := 1; k <= n; k++ {
			sc.Steps = append(sc.Steps, sim.Step{Op: "send", Rec: engine.Bytes(fmt.Sprintf(`{"jsonrpc":"2.0","id":%d,"method":"gate","params":{"k":%d}}`, k, k))})
		}
		for k := 1; k <= n; k++ {
			sc.Steps = append(sc.Steps, sim.Step{Op: "release", K: k, Out: "ok", Burst: true})
		}
		last := rapid.SampledFrom([]string{`{"jsonrpc":"2.0","method":"ret","params":{"k":9}}`, `{"jsonrpc":"2.0","id":9,"method":"ret","params":{"k":9}}`, `[]`}).Draw(t, "last")
		sc.Steps = append(sc.Steps, sim.Step{Op: "send", Rec: engine.Bytes(last)})
	case 0:
		sc = gen.ServerScenario(t, profiles[0])
	case 1:
		sc = gen.ServerScenario(t, profiles[1])
	case 2:
		sc = gen.ShutdownScenario(t)
	default:
		sc = gen.PushScenario(t)
	}
	sc.Cfg.Yield = rapid.IntRange(1, 4).Draw(t, "yield")
	if len(sc.Cfg.Faults) == 1 && sc.Cfg.Faults[0].Kind == "data+eof" && len(sc.Cfg.Pins) == 0 && rapid.Bool().Draw(t, "nohooks") {
		sc.Cfg.NoHooks = true // nothing holds anybody back: the reader and the repliers meet at the channel
	} else if rapid.IntRange(0, 2).Draw(t, "equal") != 0 {
		sc.Cfg.Pins = equalPins(t)
		sc.Cfg.NoHooks = false
	}
	for i := range sc.Steps {
		if sc.Steps[i].Op == "release" && rapid.IntRange(0, 1).Draw(t, "burstrel") == 0 && i+1 < len(sc.Steps) {
			sc.Steps[i].Burst = true
		}
	}
	return Case{Server: &sc}
}

func genClient(t *rapid.T) Case {
	var sc sim.CScenario
	if rapid.Bool().Draw(t, "family") {
		sc = gen.MatchScenario(t)
	} else {
		sc = gen.LifecycleScenario(t)
	}
	sc.Cfg.Yield = rapid.IntRange(1, 4).Draw(t, "yield")
	if rapid.IntRange(0, 2).Draw(t, "equal") != 0 {
		sc.Cfg.Pins = equalPins(t)
		sc.Cfg.NoHooks = false
	}
	return Case{Client: &sc}
}

func run(t *testing.T, c Case) engine.Verdict {
	if c.Server != nil {
		sc := *c.Server
		v := oracle.RunServer(t, sc, []string{"C10/"}, func(oracle.Facts) bool { return false })
		if v.Fail {
			return v
		}
		// non-trivial: at least two goroutines wanted to send within one burst, or Close raced a Send
		bursts := 0
		for i, s := range sc.Steps {
			if s.Burst && (s.Op == "release" || s.Op == "push" || s.Op == "send" || s.Op == "stop" || s.Op == "cbreply") && i+1 < len(sc.Steps) {
				bursts++
			}
		}
		v.NonTrivial = bursts >= 1
		v.Labels = append(v.Labels, "side:server")
		if len(sc.Cfg.Pins) > 0 {
			v.Labels = append(v.Labels, "equal-delays")
		}
		return v
	}
	sc := *c.Client
	h := sim.RunClient(t, sc)
	for _, p := range oracle.ClientCheck(sc, h) {
		if strings.HasPrefix(p.Sig, "C10/") {
			return engine.Failf(p.Sig, "%s\nscript:\n%s\nhistory:\n%s", p.Msg, oracle.CScriptText(sc), oracle.CHistoryText(h))
		}
	}
	bursts := 0
	for _, s := range sc.Steps {
		if s.Burst {
			bursts++
		}
	}
	v := engine.Verdict{NonTrivial: bursts >= 1, Labels: []string{"side:client"}}
	if len(sc.Cfg.Pins) > 0 {
		v.Labels = append(v.Labels, "equal-delays")
	}
	for _, e := range h.Events {
		if e.Kind == "oncb-exit" {
			v.Labels = append(v.Labels, "callback-reply-sent")
			break
		}
	}
	return v
}

const rule = "the instrumented channel wrapper counts concurrent entries of Send / Recv / Close (yielding the processor between entry and exit), counts Close calls and validates every record passed to Send as one complete JSON-RPC message; non-trivial = at least one burst in which several goroutines want to send (replies released together, pushes, callback replies) or Close races a Send; distinct = hash of the scenario"

var parts = []engine.AnyPart{
	engine.Part[Case]{Name: "server", Run: run, Gen: genServer,
		Rule: "the union of the server-side generators (C01/C07 profiles, shutdown, push) with wrapper yields 1-4 and, in two thirds of the cases, EQUAL pinned hook delays on the deliver / push / read sites so that would-be senders become runnable at the same instant; " + rule},
	engine.Part[Case]{Name: "client", Run: run, Gen: genClient,
		Rule: "the client-side generators (reply matching, lifecycle with callbacks, Close, faults) with wrapper yields 1-4 and equal pinned delays on cli.send.lock / cli.cb.lock / cli.close.lock; " + rule},
}

func TestProp(t *testing.T)   { engine.RunParts(t, "C10", parts) }
func TestReplay(t *testing.T) { engine.ReplayParts(t, "C10", parts) }
