package c10

import (
	"context"
	"fmt"
	"os"
	"sync"
	"testing"
	"testing/synctest"

	"github.com/creachadair/jrpc2"
	"github.com/creachadair/jrpc2/channel"
	"github.com/creachadair/jrpc2/handler"
	"github.com/creachadair/jrpc2/server"
	"pgregory.net/rapid"

	"verif/harness/engine"
	"verif/harness/sim"
)

// LoopCase: channels handed to servers by server.Loop are under the same
// contract - one Close per Start also when the server ends with an error.
type LoopCase struct {
	Salt  uint64     `json:"salt,omitempty"`
	Conns []LoopConn `json:"conns"`
	End   string     `json:"end"` // cancel | clientclose
}

// LoopConn is one connection.
type LoopConn struct {
	RecvFailAt int    `json:"recv_fail_at,omitempty"` // the k-th Recv fails with an injected error (0 = never)
	FailKind   string `json:"fail_kind,omitempty"`    // err | data+err | data+eof
	Calls      int    `json:"calls,omitempty"`
	Fail       bool   `json:"assigner_fails,omitempty"`
}

type loopAccepter struct {
	conns chan channel.Channel
}

func (a *loopAccepter) Accept(ctx context.Context) (channel.Channel, error) {
	select {
	case c := <-a.conns:
		return c, nil
	case <-ctx.Done():
		return nil, fmt.Errorf("accept: %w", channel.ErrClosed)
	}
}

type loopSvc struct{ fail bool }

func (s loopSvc) Assigner() (jrpc2.Assigner, error) {
	if s.fail {
		return nil, fmt.Errorf("no assigner")
	}
	return handler.Map{"ret": handler.New(func(context.Context) (int, error) { return 1, nil })}, nil
}
func (loopSvc) Finish(jrpc2.Assigner, jrpc2.ServerStatus) {}

type closeOnceChan struct {
	channel.Channel
	once sync.Once
}

func (c *closeOnceChan) Close() error {
	c.once.Do(func() { c.Channel.Close() })
	return nil
}

func runLoop(t *testing.T, c LoopCase) engine.Verdict {
	sched := &sim.Sched{Salt: c.Salt}
	sched.Install()
	defer sched.Remove()
	var wrapped []*sim.Chan
	bubbleErr := ""
	func() {
		defer func() {
			if p := recover(); p != nil {
				bubbleErr = fmt.Sprint(p)
			}
		}()
		synctest.Test(t, func(t *testing.T) {
			acc := &loopAccepter{conns: make(chan channel.Channel)}
			ctx, cancel := context.WithCancel(context.Background())
			defer cancel()
			var mu sync.Mutex
			next := 0
			done := make(chan struct{})
			go func() {
				server.Loop(ctx, acc, func() server.Service {
					mu.Lock()
					defer mu.Unlock()
					s := loopSvc{fail: next < len(c.Conns) && c.Conns[next].Fail}
					next++
					return s
				}, nil)
				close(done)
			}()
			var peers []*closeOnceChan
			var queues []chan []byte
			for i, lc := range c.Conns {
				cli, srv := channel.Direct()
				var faults []sim.Fault
				if lc.RecvFailAt > 0 {
					faults = []sim.Fault{{Op: "recv", At: lc.RecvFailAt, Kind: lc.FailKind}}
				}
				w := sim.Wrap(fmt.Sprintf("loop%d", i), &closeOnceChan{Channel: srv}, 1, faults) // (a second Close is counted, not executed)
				wrapped = append(wrapped, w)
				peers = append(peers, &closeOnceChan{Channel: cli})
				acc.conns <- w
				sched.Settle()
				go func() { // drain replies until the server side closes
					for {
						if _, err := cli.Recv(); err != nil {
							return
						}
					}
				}()
				q := make(chan []byte, 8) // one writer per connection; a dead server just leaves it blocked until the close
				queues = append(queues, q)
				go func() {
					for rec := range q {
						if cli.Send(rec) != nil {
							break
						}
					}
					for range q {
					}
				}()
				for k := 0; k < lc.Calls; k++ {
					q <- []byte(fmt.Sprintf(`{"jsonrpc":"2.0","id":%d,"method":"ret"}`, k+1))
					sched.Settle()
				}
			}
			if c.End == "clientclose" {
				for _, p := range peers {
					p.Close()
				}
				sched.Settle()
			}
			cancel()
			sched.Settle()
			for _, p := range peers {
				p.Close()
			}
			sched.Settle()
			for _, q := range queues {
				close(q)
			}
			<-done
		})
	}()
	if bubbleErr != "" {
		if os.Getenv("VERIF_DEBUG") != "" {
			fmt.Println("bubble error:", bubbleErr)
		}
		return engine.Verdict{Labels: []string{"other-clause:bubble-error"}} // judged by C20
	}
	for i, w := range wrapped {
		for _, o := range w.Overlaps() {
			return engine.Failf("C10/channel-contract", "connection %d of a Loop (%+v): %s", i, c.Conns[i], o)
		}
		if _, _, closes := w.Counts(); closes != 1 {
			return engine.Failf("C10/close-count", "connection %d of a Loop (%+v): Close was called %d times on the channel handed to its server", i, c.Conns[i], closes)
		}
	}
	faulty := 0
	for _, lc := range c.Conns {
		if lc.RecvFailAt > 0 {
			faulty++
		}
	}
	return engine.Verdict{NonTrivial: faulty > 0 || len(c.Conns) > 1, Labels: []string{fmt.Sprintf("loop-conns:%d", len(c.Conns)), fmt.Sprintf("faulty:%d", faulty)}}
}

func genLoop(t *rapid.T) LoopCase {
	c := LoopCase{Salt: rapid.Uint64().Draw(t, "salt"), End: rapid.SampledFrom([]string{"cancel", "clientclose"}).Draw(t, "end")}
	for i, n := 0, rapid.IntRange(1, 3).Draw(t, "nconn"); i < n; i++ {
		lc := LoopConn{Calls: rapid.IntRange(0, 3).Draw(t, "calls"), Fail: rapid.IntRange(0, 6).Draw(t, "afail") == 0}
		if rapid.IntRange(0, 2).Draw(t, "fault") == 0 {
			lc.RecvFailAt = rapid.IntRange(1, 4).Draw(t, "failat")
			lc.FailKind = rapid.SampledFrom([]string{"err", "data+err", "data+eof"}).Draw(t, "kind")
		}
		c.Conns = append(c.Conns, lc)
	}
	return c
}

func init() {
	parts = append(parts, engine.Part[LoopCase]{Name: "loop", Run: runLoop, Gen: genLoop,
		Rule: "server.Loop over an in-memory accepter: 1-3 connections behind the counting wrapper, some of whose Recv fails with an injected error (alone, or together with data), some whose service has no assigner, a few calls each, ended by client close or context end; every channel handed to a server (or refused for lack of an assigner) must see exactly one Close and no overlapping operations; non-trivial = a faulty connection or several connections; distinct = the case"})
}
