// Package c17 checks property C17: method dispatch (exact names, first-dot
// service split, reserved rpc.* names, context values, Names).
package c17

import (
	"context"
	"encoding/json"
	"fmt"
	"github.com/creachadair/jrpc2/channel"
	"github.com/creachadair/jrpc2/jhttp"
	"net/http/httptest"
	"net/url"
	"reflect"
	"sort"
	"strings"
	"sync"
	"testing"
	"testing/synctest"
	"time"
	"unicode/utf16"
	"unicode/utf8"

	"github.com/creachadair/jrpc2"
	"github.com/creachadair/jrpc2/handler"
	"github.com/creachadair/jrpc2/server"
	"pgregory.net/rapid"

	"verif/harness/engine"
)

// ANode describes an assigner: a Map (leaf keys) or a ServiceMap (keys with sub-assigners).
type ANode struct {
	Kind string   `json:"kind"` // map | svc
	Keys []string `json:"keys"`
	Subs []ANode  `json:"subs,omitempty"`
}

// Case: an assigner tree, the built-in switch and the names to dispatch.
type Case struct {
	Tree           ANode    `json:"tree"`
	DisableBuiltin bool     `json:"disable_builtin,omitempty"`
	Names          []string `json:"names"`
	// StartGap (ns of bubble time, 0 = phase off): a server built without a
	// configured start time is started this long after NewServer.
	StartGap int64  `json:"start_gap,omitempty"`
	StartOpt string `json:"start_opt,omitempty"` // nil | zero: how "no start time" is spelled
}

type world struct {
	mu        sync.Mutex
	srv       *jrpc2.Server
	assigns   []string
	assignIDs []string // method \x00 id of the inbound request shown to the assigner
	flags     []string
}

// anon is an assigner that cannot list its names (not a jrpc2.Namer).
type anon struct{ m handler.Map }

func (a anon) Assign(ctx context.Context, method string) jrpc2.Handler {
	return a.m.Assign(ctx, method)
}

func (w *world) build(n ANode, path string) jrpc2.Assigner {
	if n.Kind == "anon" {
		leaf := n
		leaf.Kind = "map"
		return anon{w.build(leaf, path).(handler.Map)}
	}
	if n.Kind == "map" {
		m := handler.Map{}
		for _, k := range n.Keys {
			tag := path + "/" + k
			m[k] = func(ctx context.Context, req *jrpc2.Request) (any, error) {
				if got := jrpc2.ServerFromContext(ctx); got == nil || (w.srv != nil && got != w.srv) {
					w.flag("handler %s: ServerFromContext is not the serving server", tag)
				}
				if ir := jrpc2.InboundRequest(ctx); ir == nil || ir.Method() != req.Method() || ir.ID() != req.ID() || ir.ParamString() != req.ParamString() {
					w.flag("handler %s: InboundRequest differs from the request", tag)
				}
				return map[string]string{"tag": tag, "method": req.Method(), "params": req.ParamString()}, nil
			}
		}
		return m
	}
	sm := handler.ServiceMap{}
	for i, k := range n.Keys {
		sm[k] = w.build(n.Subs[i], path+"/"+k)
	}
	return sm
}

func (w *world) flag(f string, a ...any) {
	w.mu.Lock()
	w.flags = append(w.flags, fmt.Sprintf(f, a...))
	w.mu.Unlock()
}

type recorder struct {
	w     *world
	inner jrpc2.Assigner
}

func (r recorder) Assign(ctx context.Context, method string) jrpc2.Handler {
	ir := jrpc2.InboundRequest(ctx)
	r.w.mu.Lock()
	r.w.assigns = append(r.w.assigns, method)
	if ir != nil {
		r.w.assignIDs = append(r.w.assignIDs, method+"\x00"+ir.ID())
	}
	r.w.mu.Unlock()
	if ir == nil || ir.Method() != method {
		r.w.flag("assigner asked for %q but InboundRequest(ctx) is %v", method, ir)
	}
	h := r.inner.Assign(ctx, method)
	if h == nil || ir == nil {
		return h
	}
	// The handler is handed out for this very request: an assigner may choose
	// by anything InboundRequest shows it.
	forID := ir.ID()
	return func(ctx context.Context, req *jrpc2.Request) (any, error) {
		if req.ID() != forID {
			r.w.flag("the handler the assigner returned for request id %s (method %q) was run for request id %s", forID, method, req.ID())
		}
		return h(ctx, req)
	}
}

func (r recorder) Names() []string { return r.inner.(jrpc2.Namer).Names() }

// ---- reference resolver, written from the documentation -----------------------

func resolve(n ANode, path, name string) string {
	if n.Kind == "map" || n.Kind == "anon" {
		for _, k := range n.Keys {
			if k == name {
				return path + "/" + k
			}
		}
		return ""
	}
	i := strings.Index(name, ".")
	if i < 0 {
		return ""
	}
	svc, rest := name[:i], name[i+1:]
	for j, k := range n.Keys {
		if k == svc {
			return resolve(n.Subs[j], path+"/"+k, rest)
		}
	}
	return ""
}

// placeholders: what Names may show for services that cannot list their
// methods ("svc.*" at the pinned commit); removed before the comparison.
func placeholders(n ANode, prefix string, out map[string]bool) {
	for i, k := range n.Keys {
		if n.Kind != "svc" {
			return
		}
		if n.Subs[i].Kind == "anon" {
			out[prefix+k+".*"] = true
		} else {
			placeholders(n.Subs[i], prefix+k+".", out)
		}
	}
}

func withoutPlaceholders(n ANode, got []string) []string {
	ph := map[string]bool{}
	placeholders(n, "", ph)
	var out []string
	for _, g := range got {
		if !ph[g] {
			out = append(out, g)
		}
	}
	return out
}

func names(n ANode) []string {
	var out []string
	if n.Kind == "map" {
		out = append(out, n.Keys...)
	} else {
		for i, k := range n.Keys {
			if n.Subs[i].Kind == "anon" {
				continue // its methods cannot be listed; what Names shows for it is not judged
			}
			for _, s := range names(n.Subs[i]) {
				out = append(out, k+"."+s)
			}
		}
	}
	sort.Strings(out)
	return out
}

// asciiJSON renders s as a JSON string using escapes wherever JSON allows one.
func asciiJSON(s string) string {
	var sb strings.Builder
	sb.WriteByte('"')
	first := true
	for _, r := range s {
		switch {
		case r == '/':
			sb.WriteString(`\/`)
		case r == '"' || r == '\\':
			sb.WriteByte('\\')
			sb.WriteRune(r)
		case r >= 0x10000:
			r1, r2 := utf16.EncodeRune(r)
			fmt.Fprintf(&sb, `\u%04x\u%04x`, r1, r2)
		case r < 0x20 || r > 0x7e || (first && r >= 'a' && r <= 'z'):
			fmt.Fprintf(&sb, `\u%04x`, r)
		default:
			sb.WriteRune(r)
		}
		first = false
	}
	sb.WriteByte('"')
	return sb.String()
}

// dynAssigner is safe for concurrent use and grows while the server runs.
type dynAssigner struct {
	mu       sync.Mutex
	names    []string
	entered  chan struct{}
	gate     chan struct{}
	assigned chan struct{}
}

func (d *dynAssigner) Names() []string {
	d.mu.Lock()
	defer d.mu.Unlock()
	out := append([]string(nil), d.names...)
	sort.Strings(out)
	return out
}

func (d *dynAssigner) Assign(ctx context.Context, method string) jrpc2.Handler {
	switch method {
	case "register":
		return func(ctx context.Context, req *jrpc2.Request) (any, error) {
			var p struct{ Name string }
			req.UnmarshalParams(&p)
			d.entered <- struct{}{}
			<-d.gate
			d.mu.Lock()
			d.names = append(d.names, p.Name)
			d.mu.Unlock()
			return nil, nil
		}
	case "probe":
		select {
		case d.assigned <- struct{}{}:
		default:
		}
		return func(ctx context.Context, req *jrpc2.Request) (any, error) { return "probe", nil }
	}
	return nil
}

// dynPhase: the method list of rpc.serverInfo is the one in force when the
// built-in runs - after the notifications of earlier messages have finished.
// A notification registers a method with a concurrency-safe assigner (its
// handler is held until the batch behind it has been assigned); the
// rpc.serverInfo call that follows must list the new name.
// startPhase: ServerOptions.StartTime - "If nonzero this value as the server
// start time; otherwise, use the current time when Start is called". Inside a
// bubble (the clock stands still unless the test sleeps) a server is built, the
// clock is advanced, the server is started: rpc.serverInfo reports the instant
// of Start, to the nanosecond, however long before that NewServer ran.
func startPhase(t *testing.T, c Case) (out *engine.Verdict) {
	defer func() {
		if p := recover(); p != nil {
			v := engine.Failf("C17/serverinfo", "start-time phase: %v", p)
			out = &v
		}
	}()
	synctest.Test(t, func(*testing.T) {
		var opts *jrpc2.ServerOptions
		if c.StartOpt == "zero" {
			opts = &jrpc2.ServerOptions{DisableBuiltin: c.DisableBuiltin}
		}
		srv := jrpc2.NewServer(handler.Map{"m": func(context.Context, *jrpc2.Request) (any, error) { return 1, nil }}, opts)
		time.Sleep(time.Duration(c.StartGap))
		cli, srvEnd := channel.Direct()
		started := time.Now()
		srv.Start(srvEnd)
		time.Sleep(time.Duration(c.StartGap)/2 + 1)
		got := srv.ServerInfo().StartTime
		var viaCall *time.Time
		if opts == nil || !c.DisableBuiltin {
			cli.Send([]byte(`{"jsonrpc":"2.0","id":1,"method":"rpc.serverInfo"}`))
			rsp, _ := cli.Recv()
			var m struct {
				Result struct {
					StartTime *time.Time `json:"startTime"`
				}
			}
			json.Unmarshal(rsp, &m)
			viaCall = m.Result.StartTime
			if viaCall == nil {
				v := engine.Failf("C17/serverinfo-fields", "rpc.serverInfo reply %s has no start time", rsp)
				out = &v
			}
		}
		cli.Close()
		srv.Wait()
		if out != nil {
			return
		}
		if !got.Equal(started) || (viaCall != nil && !viaCall.Equal(started)) {
			v := engine.Failf("C17/serverinfo-fields", "no start time configured (%s options), NewServer at bubble time T, Start at T+%v: ServerInfo reports start time T+%v, rpc.serverInfo %v; want the time Start was called", c.StartOpt, time.Duration(c.StartGap), got.Sub(started.Add(-time.Duration(c.StartGap))), viaCall)
			out = &v
		}
	})
	return out
}

func dynPhase(name string) *engine.Verdict {
	if name == "" || !utf8.ValidString(name) {
		return nil
	}
	d := &dynAssigner{names: []string{"probe", "register"}, entered: make(chan struct{}, 1), gate: make(chan struct{}), assigned: make(chan struct{}, 1)}
	cli, srvEnd := channel.Direct()
	srv := jrpc2.NewServer(d, nil).Start(srvEnd)
	defer func() {
		cli.Close()
		srv.Wait()
	}()
	pb, _ := json.Marshal(map[string]string{"name": name})
	if err := cli.Send([]byte(fmt.Sprintf(`{"jsonrpc":"2.0","method":"register","params":%s}`, pb))); err != nil {
		v := engine.Failf("C17/raw", "send: %v", err)
		return &v
	}
	<-d.entered
	if err := cli.Send([]byte(`[{"jsonrpc":"2.0","id":1,"method":"rpc.serverInfo"},{"jsonrpc":"2.0","id":2,"method":"probe"}]`)); err != nil {
		v := engine.Failf("C17/raw", "send: %v", err)
		return &v
	}
	<-d.assigned // the batch has been looked up; it now waits for the notification
	close(d.gate)
	rsp, err := cli.Recv()
	var got []struct {
		ID     int
		Result json.RawMessage
	}
	if err != nil || json.Unmarshal(rsp, &got) != nil {
		v := engine.Failf("C17/raw", "reply %s: %v", rsp, err)
		return &v
	}
	for _, g := range got {
		if g.ID != 1 {
			continue
		}
		var info struct{ Methods []string }
		json.Unmarshal(g.Result, &info)
		want := d.Names()
		if !reflect.DeepEqual(info.Methods, want) {
			v := engine.Failf("C17/serverinfo-methods", "a notification registered method %q with the assigner and had returned before rpc.serverInfo (sent after it) ran; rpc.serverInfo lists %q, the assigner's Names() are %q", name, info.Methods, want)
			return &v
		}
		return nil
	}
	v := engine.Failf("C17/raw", "no reply for rpc.serverInfo in %s", rsp)
	return &v
}

func rawPhase(w *world, c Case, root jrpc2.Assigner, start time.Time) *engine.Verdict {
	cli, srvEnd := channel.Direct()
	// An inner server whose base context comes from the handler context of an
	// outer one (a forwarding handler does that): handlers of the inner server
	// still find the inner server in their context.
	var outerCtx context.Context
	outer := server.NewLocal(handler.Map{"cap": func(ctx context.Context, req *jrpc2.Request) (any, error) {
		outerCtx = context.WithoutCancel(ctx)
		return nil, nil
	}}, nil)
	if _, err := outer.Client.Call(context.Background(), "cap", nil); err != nil || outerCtx == nil {
		v := engine.Failf("C17/raw", "outer server: %v", err)
		return &v
	}
	defer outer.Close()
	opts := &jrpc2.ServerOptions{DisableBuiltin: c.DisableBuiltin, StartTime: start, NewContext: func() context.Context { return outerCtx }}
	srv := jrpc2.NewServer(recorder{w, root}, opts)
	// the options belong to the caller again: what is done to them later is none
	// of this server's business
	opts.DisableBuiltin = !c.DisableBuiltin
	opts.StartTime = start.Add(999)
	opts.NewContext = nil
	// NewServer: "It is not safe to modify mux after the server has been started
	// unless mux itself is safe for concurrent use" - so before Start it is: a
	// method added between NewServer and Start is served and listed like any other.
	lateName, lateMap := "", handler.Map(nil)
	switch m := root.(type) {
	case handler.Map:
		lateName, lateMap = "zz_late", m
	case handler.ServiceMap:
		for _, k := range c.Tree.Keys {
			if sub, ok := m[k].(handler.Map); ok && !strings.Contains(k, ".") {
				lateName, lateMap = k+".zz_late", sub
				break
			}
		}
	}
	if !c.DisableBuiltin && strings.HasPrefix(lateName, "rpc.") {
		lateName, lateMap = "", nil // reserved: it would never reach the assigner
	}
	if lateMap != nil {
		lateMap["zz_late"] = func(ctx context.Context, req *jrpc2.Request) (any, error) {
			return map[string]string{"tag": "late", "method": req.Method()}, nil
		}
		defer delete(lateMap, "zz_late")
	}
	srv.Start(srvEnd)
	old := w.srv
	w.srv = srv
	defer func() {
		cli.Close()
		srv.Wait()
		w.srv = old
	}()
	if lateName != "" {
		send := func(req string) ([]byte, error) {
			if err := cli.Send([]byte(req)); err != nil {
				return nil, err
			}
			return cli.Recv()
		}
		rsp, err := send(fmt.Sprintf(`{"jsonrpc":"2.0","id":"late","method":%q}`, lateName))
		var got struct {
			Result struct{ Tag string }
		}
		if err != nil || json.Unmarshal(rsp, &got) != nil || got.Result.Tag != "late" {
			v := engine.Failf("C17/wrong-handler", "method %q was added to the assigner between NewServer and Start; calling it gives %s, %v", lateName, rsp, err)
			return &v
		}
		if !c.DisableBuiltin {
			rsp, err := send(`{"jsonrpc":"2.0","id":"info","method":"rpc.serverInfo"}`)
			var info struct {
				Result struct{ Methods []string }
			}
			found := false
			if err == nil && json.Unmarshal(rsp, &info) == nil {
				for _, m := range info.Result.Methods {
					found = found || m == lateName
				}
			}
			if !found {
				v := engine.Failf("C17/serverinfo-methods", "method %q was added to the assigner between NewServer and Start; rpc.serverInfo lists %q (%v)", lateName, info.Result.Methods, err)
				return &v
			}
		}
	}
	for i, name := range c.Names {
		if name == "" || !utf8.ValidString(name) {
			continue
		}
		req := fmt.Sprintf(`{"jsonrpc":"2.0","id":%d,"method":%s,"params":{"n":%d}}`, i+1, asciiJSON(name), i)
		if err := cli.Send([]byte(req)); err != nil {
			v := engine.Failf("C17/raw", "send: %v", err)
			return &v
		}
		rsp, err := cli.Recv()
		if err != nil {
			v := engine.Failf("C17/raw", "no reply to %s: %v", req, err)
			return &v
		}
		var got struct {
			Result struct{ Tag, Method string }
			Error  *struct{ Code int }
		}
		if err := json.Unmarshal(rsp, &got); err != nil {
			v := engine.Failf("C17/raw", "reply %s: %v", rsp, err)
			return &v
		}
		reserved := !c.DisableBuiltin && strings.HasPrefix(name, "rpc.")
		want := ""
		if !reserved {
			want = resolve(c.Tree, "", name)
		}
		switch {
		case reserved && name == "rpc.serverInfo":
			if got.Error != nil {
				v := engine.Failf("C17/serverinfo", "rpc.serverInfo written as %s failed: %s", asciiJSON(name), rsp)
				return &v
			}
		case want == "":
			if got.Error == nil || got.Error.Code != -32601 {
				v := engine.Failf("C17/unknown-name-served", "request %s: reply %s, want method-not-found", req, rsp)
				return &v
			}
		default:
			if got.Error != nil || got.Result.Tag != want || got.Result.Method != name {
				v := engine.Failf("C17/wrong-handler", "request %s (method %q): reply %s, the documented lookup gives handler %q", req, name, rsp, want)
				return &v
			}
		}
	}
	return nil
}

func bridgeGetPhase(w *world, c Case, root jrpc2.Assigner) *engine.Verdict {
	b := jhttp.NewBridge(recorder{w, root}, &jhttp.BridgeOptions{
		Server:          &jrpc2.ServerOptions{DisableBuiltin: c.DisableBuiltin, AllowPush: true},
		ParseGETRequest: jhttp.ParseBasic,
	})
	defer b.Close()
	old := w.srv
	w.srv = nil // (the Getter's server is not reachable from here; ServerFromContext is not compared in this phase)
	defer func() { w.srv = old }()
	n := 0
	for _, name := range c.Names {
		if n >= 8 {
			break
		}
		// names that survive a URL path unchanged
		if name == "" || strings.ContainsAny(name, "/?#% ") || !utf8.ValidString(name) {
			continue
		}
		n++
		req := httptest.NewRequest("GET", "http://h/", nil)
		req.URL = &url.URL{Scheme: "http", Host: "h", Path: "/" + name}
		rec := httptest.NewRecorder()
		b.ServeHTTP(rec, req)
		reserved := !c.DisableBuiltin && strings.HasPrefix(name, "rpc.")
		want := ""
		if !reserved {
			want = resolve(c.Tree, "", name)
		}
		var got struct{ Tag, Method string }
		json.Unmarshal(rec.Body.Bytes(), &got)
		switch {
		case reserved && name == "rpc.serverInfo":
			if rec.Code != 200 {
				v := engine.Failf("C17/serverinfo", "GET /rpc.serverInfo through a bridge: status %d %s", rec.Code, rec.Body.Bytes())
				return &v
			}
		case want == "":
			if rec.Code != 404 {
				v := engine.Failf("C17/unknown-name-served", "GET /%s through a bridge (DisableBuiltin=%v): status %d %s, the documented lookup finds nothing", name, c.DisableBuiltin, rec.Code, rec.Body.Bytes())
				return &v
			}
		default:
			if rec.Code != 200 || got.Tag != want || got.Method != name {
				v := engine.Failf("C17/wrong-handler", "GET /%s through a bridge (DisableBuiltin=%v): status %d %s, the documented lookup gives handler %q", name, c.DisableBuiltin, rec.Code, rec.Body.Bytes(), want)
				return &v
			}
		}
	}
	return nil
}

func run(t *testing.T, c Case) engine.Verdict {
	w := &world{}
	root := w.build(c.Tree, "")
	start := time.Date(2024, 3, 1, 12, 0, 0, 0, time.UTC)
	loc := server.NewLocal(recorder{w, root}, &server.LocalOptions{Server: &jrpc2.ServerOptions{DisableBuiltin: c.DisableBuiltin, StartTime: start}})
	w.srv = loc.Server
	defer loc.Close()
	wantNames := names(c.Tree)
	// Names: sorted, exactly the resolvable leaf names
	gotNames := root.(jrpc2.Namer).Names()
	if !sort.StringsAreSorted(gotNames) {
		return engine.Failf("C17/names-unsorted", "Names() = %q is not sorted", gotNames)
	}
	if strings.Join(dedup(withoutPlaceholders(c.Tree, gotNames)), "\x00") != strings.Join(dedup(wantNames), "\x00") {
		return engine.Failf("C17/names-set", "Names() = %q, the resolvable names are %q", gotNames, wantNames)
	}
	nt := false
	var labels []string
	for i, name := range c.Names {
		reserved := !c.DisableBuiltin && strings.HasPrefix(name, "rpc.")
		want := ""
		if !reserved {
			want = resolve(c.Tree, "", name)
		}
		// direct Assign agrees with the resolver
		direct := root.Assign(context.Background(), name)
		if (direct != nil) != (resolve(c.Tree, "", name) != "") {
			return engine.Failf("C17/assign-direct", "Assign(%q) returned handler=%v, the documented lookup finds %q", name, direct != nil, resolve(c.Tree, "", name))
		}
		if name == "" {
			continue // cannot be sent as a request
		}
		w.mu.Lock()
		before := len(w.assigns)
		w.mu.Unlock()
		params := map[string]int{"n": i}
		var got struct {
			Tag, Method, Params string
			Methods             []string        `json:"methods"`
			Metrics             json.RawMessage `json:"metrics"`
			StartTime           *time.Time      `json:"startTime"`
		}
		err := loc.Client.CallResult(context.Background(), name, params, &got)
		w.mu.Lock()
		asked := append([]string(nil), w.assigns[before:]...)
		w.mu.Unlock()
		switch {
		case reserved:
			if len(asked) != 0 {
				return engine.Failf("C17/reserved-name-reached-assigner", "the reserved name %q was passed to the assigner (%q) although built-ins are enabled", name, asked)
			}
			if name == "rpc.serverInfo" {
				if err != nil {
					return engine.Failf("C17/serverinfo", "rpc.serverInfo failed: %v", err)
				}
				if gm := withoutPlaceholders(c.Tree, got.Methods); strings.Join(gm, "\x00") != strings.Join(wantNames, "\x00") && !(len(wantNames) == 0 && len(gm) == 0) {
					return engine.Failf("C17/serverinfo-methods", "rpc.serverInfo methods %q, want the sorted names %q", got.Methods, wantNames)
				}
				if len(got.Metrics) == 0 || got.Metrics[0] != '{' || got.StartTime == nil || !got.StartTime.Equal(start) {
					return engine.Failf("C17/serverinfo-fields", "rpc.serverInfo metrics %s startTime %v (configured %v)", got.Metrics, got.StartTime, start)
				}
			} else if jrpc2.ErrorCode(err) != jrpc2.MethodNotFound {
				return engine.Failf("C17/reserved-name-served", "call to reserved %q: got tag %q err %v, want method-not-found", name, got.Tag, err)
			}
		case want == "":
			if jrpc2.ErrorCode(err) != jrpc2.MethodNotFound {
				return engine.Failf("C17/unknown-name-served", "call to %q: got tag %q err %v, the documented lookup finds nothing", name, got.Tag, err)
			}
			if len(asked) != 1 || asked[0] != name {
				return engine.Failf("C17/assigner-asked", "call to %q: the assigner was asked %q", name, asked)
			}
		default:
			if err != nil || got.Tag != want {
				return engine.Failf("C17/wrong-handler", "call to %q ran handler %q (err %v), the documented lookup gives %q", name, got.Tag, err, want)
			}
			if got.Method != name {
				return engine.Failf("C17/method-in-request", "handler for %q saw method %q", name, got.Method)
			}
			if len(asked) != 1 || asked[0] != name {
				return engine.Failf("C17/assigner-asked", "call to %q: the assigner was asked %q", name, asked)
			}
		}
		if strings.Contains(name, ".") || strings.HasPrefix(strings.ToLower(name), "rpc") {
			nt = true
		}
	}
	// The same names again as one batch, each twice: every member is shown to
	// the assigner once, as itself, and runs the handler returned for it.
	var specs []jrpc2.Spec
	for i, name := range c.Names {
		if name == "" {
			continue
		}
		specs = append(specs, jrpc2.Spec{Method: name, Params: map[string]int{"n": i}}, jrpc2.Spec{Method: name, Params: map[string]int{"n": -i - 1}})
	}
	if len(specs) > 0 {
		w.mu.Lock()
		w.assignIDs = nil
		w.mu.Unlock()
		rsps, err := loc.Client.Batch(context.Background(), specs)
		if err != nil || len(rsps) != len(specs) {
			return engine.Failf("C17/batch", "batch of %d calls: %d responses, err %v", len(specs), len(rsps), err)
		}
		var wantAsked []string
		for i, rsp := range rsps {
			name := specs[i].Method
			reserved := !c.DisableBuiltin && strings.HasPrefix(name, "rpc.")
			if !reserved {
				wantAsked = append(wantAsked, name+"\x00"+rsp.ID())
			}
			want := ""
			if !reserved {
				want = resolve(c.Tree, "", name)
			}
			var got struct{ Tag, Method, Params string }
			rerr := rsp.UnmarshalResult(&got)
			switch {
			case reserved && name == "rpc.serverInfo":
				if rsp.Error() != nil {
					return engine.Failf("C17/serverinfo", "rpc.serverInfo in a batch failed: %v", rsp.Error())
				}
			case want == "":
				if rsp.Error() == nil || rsp.Error().Code != jrpc2.MethodNotFound {
					return engine.Failf("C17/unknown-name-served", "batch member %q: got %v / tag %q, want method-not-found", name, rsp.Error(), got.Tag)
				}
			default:
				wantParams := fmt.Sprintf(`{"n":%d}`, specs[i].Params.(map[string]int)["n"])
				if rsp.Error() != nil || rerr != nil || got.Tag != want || got.Method != name || got.Params != wantParams {
					return engine.Failf("C17/wrong-handler", "batch member #%d %q %s ran handler %q and saw method %q params %s (err %v %v), the documented lookup gives %q", i, name, wantParams, got.Tag, got.Method, got.Params, rsp.Error(), rerr, want)
				}
			}
		}
		w.mu.Lock()
		gotAsked := append([]string(nil), w.assignIDs...)
		w.mu.Unlock()
		sort.Strings(gotAsked)
		sort.Strings(wantAsked)
		if strings.Join(gotAsked, "|") != strings.Join(wantAsked, "|") {
			return engine.Failf("C17/assigner-asked", "batch: the assigner was shown (method, inbound id) %q, the members it must see are %q", gotAsked, wantAsked)
		}
		labels = append(labels, "batch-with-repeated-names")
	}
	// A few of the names as notifications: the assigner is shown each of them
	// with its inbound request (the recorder flags a missing or foreign one); the
	// call behind them returns only after they have been handled.
	sentNotes := 0
	for i, name := range c.Names {
		if name == "" || sentNotes == 3 {
			continue
		}
		sentNotes++
		if err := loc.Client.Notify(context.Background(), name, map[string]int{"n": i}); err != nil {
			return engine.Failf("C17/raw", "Notify(%q): %v", name, err)
		}
	}
	if sentNotes > 0 {
		loc.Client.Call(context.Background(), "no such method, just to wait", nil)
	}
	// The same names once more as raw JSON the way an ASCII-only encoder writes
	// them (\uXXXX for everything outside printable ASCII, surrogate pairs for
	// astral runes, the solidus escaped, one letter escaped): it is the decoded
	// name that is dispatched.
	if p := rawPhase(w, c, root, start); p != nil {
		return *p
	}
	if !c.DisableBuiltin && len(c.Names) > 0 {
		if p := dynPhase(c.Names[0]); p != nil {
			return *p
		}
	}
	if c.StartGap > 0 {
		if p := startPhase(t, c); p != nil {
			return *p
		}
		labels = append(labels, "started-later-than-built")
	}
	// The same assigner behind a Bridge whose GET side is a Getter
	// (BridgeOptions.ParseGETRequest), on a push-enabled server: the dispatch
	// rules, the reserved prefix and DisableBuiltin apply there as well.
	if p := bridgeGetPhase(w, c, root); p != nil {
		return *p
	}
	w.mu.Lock()
	flags := append([]string(nil), w.flags...)
	w.mu.Unlock()
	if len(flags) > 0 {
		return engine.Failf("C17/context-values", "%s", flags[0])
	}
	labels = append(labels, "tree:"+c.Tree.Kind)
	if c.DisableBuiltin {
		labels = append(labels, "builtin-disabled")
	}
	return engine.Verdict{NonTrivial: nt, Labels: labels, Counts: map[string]int64{"names_dispatched": int64(len(c.Names))}}
}

func dedup(s []string) []string {
	var out []string
	for i, x := range s {
		if i == 0 || x != s[i-1] {
			out = append(out, x)
		}
	}
	return out
}

// ---- exhaustive short names ----------------------------------------------------------

var trees = []ANode{
	{Kind: "map", Keys: []string{"a", "rpc", "rpc.a", "rpc.", "rpc.serverInfo", "a.a", "R", ".", "a.", ".a", "rpc.rpc", "RPC.a", "r.p.c", "aa.a.a"}},
	{Kind: "svc", Keys: []string{"a", "rpc", "", "R", "a.a", "RPC"}, Subs: []ANode{
		{Kind: "map", Keys: []string{"a", "", "a.a", ".", "rpc", "c.p"}},
		{Kind: "map", Keys: []string{"a", "", "serverInfo", "rpc.a", "."}},
		{Kind: "map", Keys: []string{"a", "", "."}},
		{Kind: "map", Keys: []string{"a", "p"}},
		{Kind: "map", Keys: []string{"a"}},
		{Kind: "map", Keys: []string{"a", "serverInfo"}},
	}},
	{Kind: "svc", Keys: []string{"a", "r"}, Subs: []ANode{
		{Kind: "svc", Keys: []string{"a", "p", ""}, Subs: []ANode{
			{Kind: "map", Keys: []string{"a", "c", ""}},
			{Kind: "svc", Keys: []string{"c"}, Subs: []ANode{{Kind: "map", Keys: []string{"a", "R"}}}},
			{Kind: "map", Keys: []string{"a"}},
		}},
		{Kind: "map", Keys: []string{"p.c", "p", "a"}},
	}},
	{Kind: "map", Keys: nil},
}

func shortNames() []string {
	alpha := []string{"r", "p", "c", "R", ".", "a"}
	var out []string
	var rec func(prefix string, n int)
	rec = func(prefix string, n int) {
		out = append(out, prefix)
		if n == 0 {
			return
		}
		for _, a := range alpha {
			rec(prefix+a, n-1)
		}
	}
	rec("", 4)
	extra := []string{"rpc.serverInfo", "rpc.serverinfo", "rpc.serverInfo.", "RPC.serverInfo", "rpc..", "rpc.rpc.a", "a.rpc.a", "rpc.a.a", "rpcx.a", "a.a.a.a", "aa.a.a", "r.p.c", "r.a.c.R", "r.p.c.a", "a..a", "rpc"}
	for _, e := range extra {
		out = append(out, e)
	}
	for _, s := range out[:200] {
		out = append(out, "rpc."+s)
	}
	return out
}

func enumNames(env engine.Env, yield func(Case) bool) {
	all := shortNames()
	idx := 0
	for _, tr := range trees {
		for _, dis := range []bool{false, true} {
			for start := 0; start < len(all); start += 120 {
				idx++
				if !env.Mine(idx) {
					continue
				}
				end := min(start+120, len(all))
				if !yield(Case{Tree: tr, DisableBuiltin: dis, Names: all[start:end]}) {
					return
				}
			}
		}
	}
}

func genKey(t *rapid.T) string {
	n := rapid.IntRange(0, 3).Draw(t, "klen")
	var sb strings.Builder
	for i := 0; i < n; i++ {
		sb.WriteString(rapid.SampledFrom([]string{"a", "b", "rpc", ".", "R", "é", "_", "serverInfo", "😀", " ", "a", "b", ".", "\\", "\\u0042", "\\n"}).Draw(t, "kc"))
	}
	return sb.String()
}

func genTree(t *rapid.T, depth int) ANode {
	if depth >= 3 || rapid.IntRange(0, 2).Draw(t, "leaf") == 0 {
		n := ANode{Kind: "map"}
		if depth > 0 && rapid.IntRange(0, 4).Draw(t, "anon") == 0 {
			n.Kind = "anon"
		}
		used := map[string]bool{}
		for i, k := 0, rapid.IntRange(0, 5).Draw(t, "nkeys"); i < k; i++ {
			key := genKey(t)
			if !used[key] {
				used[key] = true
				n.Keys = append(n.Keys, key)
			}
		}
		return n
	}
	n := ANode{Kind: "svc"}
	used := map[string]bool{}
	for i, k := 0, rapid.IntRange(1, 4).Draw(t, "nsvc"); i < k; i++ {
		key := genKey(t)
		if !used[key] {
			used[key] = true
			n.Keys = append(n.Keys, key)
			n.Subs = append(n.Subs, genTree(t, depth+1))
		}
	}
	return n
}

func genCase(t *rapid.T) Case {
	c := Case{Tree: genTree(t, 0), DisableBuiltin: rapid.Bool().Draw(t, "nobuiltin")}
	known := names(c.Tree)
	n := rapid.IntRange(1, 30).Draw(t, "nnames")
	for i := 0; i < n; i++ {
		var name string
		switch rapid.IntRange(0, 5).Draw(t, "nk") {
		case 0, 1:
			if len(known) > 0 {
				name = rapid.SampledFrom(known).Draw(t, "known")
				break
			}
			fallthrough
		case 2:
			name = genKey(t) + "." + genKey(t)
		case 3:
			name = "rpc." + genKey(t)
		case 4:
			if len(known) > 0 {
				// a near miss of a known name
				k := rapid.SampledFrom(known).Draw(t, "near")
				name = rapid.SampledFrom([]string{k + ".", "." + k, strings.ToUpper(k), k + ".x", strings.Replace(k, ".", "..", 1), strings.TrimSuffix(k, "a")}).Draw(t, "miss")
				break
			}
			fallthrough
		default:
			name = genKey(t)
		}
		c.Names = append(c.Names, name)
	}
	if rapid.IntRange(0, 3).Draw(t, "startphase") == 0 {
		c.StartGap = rapid.SampledFrom([]int64{1, 1000, int64(time.Millisecond), int64(time.Second), int64(time.Hour), int64(100 * 24 * time.Hour)}).Draw(t, "startgap")
		c.StartOpt = rapid.SampledFrom([]string{"nil", "zero"}).Draw(t, "startopt")
	}
	return c
}

var parts = []engine.AnyPart{
	engine.Part[Case]{Name: "shortnames", Run: run, Enum: enumNames,
		Rule:           "EVERY string of length <= 4 over {r,p,c,R,.,a} (1555 names) plus prefixed/embedded variants (rpc.serverInfo, rpc.serverinfo, RPC.x, rpc.., a..a, ...), each dispatched through a real Server and through Assign directly, against 4 assigner trees (Map with hostile keys, ServiceMap nested 1-3 deep incl. empty keys and keys containing dots, empty Map) x DisableBuiltin on/off; a case is one tree/config with 120 names; non-trivial = a name containing '.' or starting with rpc in any case",
		EnumExhaustive: "all names up to length 4 over the 6-symbol alphabet for each of the 4 trees and both built-in settings"},
	engine.Part[Case]{Name: "random", Run: run, Gen: genCase,
		Rule: "generated assigner trees (nesting up to 3, keys over an alphabet with dots, rpc, unicode, empty) and 1-30 names per tree: known names, near misses (extra/leading dot, case change, doubled dot), rpc.* names; one case in four also builds a server without a configured start time, advances the bubble clock by 1ns..100 days and starts it (rpc.serverInfo must report the instant of Start); oracle = a reference resolver written from the documentation; distinct = the case"},
}

func TestProp(t *testing.T)   { engine.RunParts(t, "C17", parts) }
func TestReplay(t *testing.T) { engine.ReplayParts(t, "C17", parts) }
