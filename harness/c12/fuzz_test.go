package c12

import (
	"testing"

	"verif/harness/engine"
)

// FuzzFraming: coverage-guided search over (framing, stream, delivery) with
// the same reference-decoder oracle as the enumerated parts.
func FuzzFraming(f *testing.F) {
	seeds := []string{
		"Content-Length: 2\r\n\r\nab", "Content-Type: text/plain\r\nContent-Length: 0\r\n\r\n", "content-length:5\n\nhello",
		"Content-Length: 9223372036854775807\r\n\r\n", "Content-Length: 4611686018427387904\r\n\r\nx", "Content-Length: 18446744073709551615\r\n\r\n",
		"Content-Length: 16777217\r\n\r\nabc", "Content-Length: -1\r\n\r\n", "X: y\r\nContent-Length: 1\r\n\r\nz", "nocolon\r\n\r\n",
		"a\nb\n", "abc", "\n\n", "a\x1eb\x1e", `{"a":1}[1,2]"s" null`, `{"a":`, `nul`, `[[[[`, " \n\t{} ", "1 2 3", `"\u12`,
	}
	for i, s := range seeds {
		f.Add([]byte(s), uint8(i), uint8(i))
	}
	part := engine.Part[Case]{Name: "fuzz", Run: run}
	f.Fuzz(func(t *testing.T, data []byte, fr uint8, mode uint8) {
		if len(data) > 1<<16 {
			return
		}
		c := Case{Framing: framings[int(fr)%len(framings)], Stream: engine.Bytes(data), Origin: "fuzzed"}
		switch mode % 4 {
		case 1:
			c.OneByte = true
		case 2:
			c.EOFWithData = true
		case 3:
			if len(data) > 2 {
				c.Cuts = []int{1 + int(mode/4)%(len(data)-1)}
			}
		}
		engine.RunOne(t, "C12", part, c)
	})
}
