// Package c12 checks property C12: framing robustness on arbitrary streams.
package c12

import (
	"bytes"
	"errors"
	"fmt"
	"io"
	"strings"
	"testing"

	"github.com/creachadair/jrpc2/channel"
	"pgregory.net/rapid"

	"verif/harness/engine"
	"verif/harness/ref/refframe"
)

// Case is one stream handed to one framing through a chunk-controlled reader.
type Case struct {
	Framing     refframe.Framing `json:"framing"`
	Stream      engine.Bytes     `json:"stream"`
	Cuts        []int            `json:"cuts,omitempty"` // read boundaries (offsets into the stream)
	OneByte     bool             `json:"one_byte,omitempty"`
	EOFWithData bool             `json:"eof_with_data,omitempty"` // last chunk is returned together with io.EOF
	Origin      string           `json:"origin,omitempty"`        // how the stream was made
	Pad         int              `json:"pad,omitempty"`           // the stream continues with this many 'y' bytes ...
	Tail        engine.Bytes     `json:"tail,omitempty"`          // ... and then these
}

type chunkReader struct {
	data        []byte
	pos         int
	cuts        []int
	oneByte     bool
	eofWithData bool
	sawEOF      bool
}

func (r *chunkReader) Read(p []byte) (int, error) {
	if r.pos >= len(r.data) {
		r.sawEOF = true
		return 0, io.EOF
	}
	if len(p) == 0 {
		return 0, nil
	}
	end := len(r.data)
	if r.oneByte {
		end = r.pos + 1
	} else {
		for _, c := range r.cuts {
			if c > r.pos && c < end {
				end = c
			}
		}
	}
	if end-r.pos > len(p) {
		end = r.pos + len(p)
	}
	n := copy(p, r.data[r.pos:end])
	r.pos = end
	if r.pos >= len(r.data) && r.eofWithData {
		r.sawEOF = true
		return n, io.EOF
	}
	return n, nil
}

type nopWC struct{}

func (nopWC) Write(p []byte) (int, error) { return len(p), nil }
func (nopWC) Close() error                { return nil }

func makeChannel(f refframe.Framing, r io.Reader) channel.Channel {
	switch f.Name {
	case "split":
		if f.Split == '\n' {
			return channel.Line(r, nopWC{})
		}
		return channel.Split(f.Split)(r, nopWC{})
	case "strict":
		return channel.StrictHeader(f.Mime)(r, nopWC{})
	case "header":
		if f.Mime == lspMime {
			return channel.LSP(r, nopWC{})
		}
		return channel.Header(f.Mime)(r, nopWC{})
	case "rawjson":
		return channel.RawJSON(r, nopWC{})
	}
	panic("unknown framing")
}

const lspMime = "application/vscode-jsonrpc; charset=utf-8"

type recvResult struct {
	data     []byte
	err      error
	panicked any
}

func safeRecv(ch channel.Channel) (res recvResult) {
	defer func() {
		if p := recover(); p != nil {
			res.panicked = p
		}
	}()
	d, err := ch.Recv()
	// Copy at once: framings reuse their buffers.
	res.data = append([]byte(nil), d...)
	if d == nil {
		res.data = nil
	}
	res.err = err
	return
}

// run executes the case and compares with the reference decoder.
// q quotes bytes for a message, the middle of very long ones left out.
func q(b []byte) string {
	if len(b) <= 1500 {
		return engine.Q(b)
	}
	return engine.Q(b[:700]) + fmt.Sprintf(" ...(%d bytes)... ", len(b)-900) + engine.Q(b[len(b)-200:])
}

func run(_ *testing.T, c Case) engine.Verdict {
	stream := []byte(c.Stream)
	if c.Pad > 0 {
		// a long body, spelled compactly: Stream, then Pad times 'y', then Tail
		stream = append(append(append([]byte(nil), c.Stream...), bytes.Repeat([]byte("y"), c.Pad)...), c.Tail...)
	}
	rd := &chunkReader{data: stream, cuts: c.Cuts, oneByte: c.OneByte, eofWithData: c.EOFWithData}
	ch := makeChannel(c.Framing, rd)
	want := refframe.Expect(c.Framing, stream)
	fname := c.Framing.Name

	var results []recvResult
	var successes, failedAfterEOF int
	limit := len(stream) + 6
	searchFrom := 0
	comparing := true
	finalIdx := len(want) + limit
	for i, st := range want {
		if st.Final {
			finalIdx = i
			break
		}
	}
	var labels []string
	for i := 0; i < limit; i++ {
		res := safeRecv(ch)
		results = append(results, res)
		if res.panicked != nil {
			return engine.Failf("C12/"+fname+"/panic", "Recv #%d panicked: %v (stream %s)", i, res.panicked, q(stream))
		}
		// Universal: nothing fabricated, nothing reordered.
		if len(res.data) > 0 {
			j := bytes.Index(stream[searchFrom:], res.data)
			if j < 0 {
				return engine.Failf("C12/"+fname+"/fabricated", "Recv #%d returned %s which does not occur (in order) in stream %s", i, q(res.data), q(stream))
			}
			searchFrom += j + len(res.data)
		}
		if res.err == nil {
			successes++
			if successes > len(stream) {
				return engine.Failf("C12/"+fname+"/too-many-records", "%d successful Recv calls on a stream of %d bytes", successes, len(stream))
			}
			if failedAfterEOF > 0 {
				return engine.Failf("C12/"+fname+"/recovers-after-end", "Recv #%d succeeded (%s) after the stream was exhausted and a call had failed", i, q(res.data))
			}
		} else if failedAfterEOF > 0 || (comparing && i >= finalIdx) ||
			(!comparing && rd.sawEOF && (errors.Is(res.err, io.EOF) || errors.Is(res.err, io.ErrUnexpectedEOF))) {
			// The stream has ended: by the reference while it applies, else
			// by the framing itself reporting the end of its input.
			failedAfterEOF++
		}
		// Reference comparison.
		if comparing {
			if i >= len(want) {
				// Past a Final step: must keep failing.
				if res.err == nil {
					return engine.Failf("C12/"+fname+"/recovers-after-end", "Recv #%d succeeded after the end of the stream", i)
				}
			} else {
				st := want[i]
				switch st.Kind {
				case refframe.DontCare:
					comparing = false
					labels = append(labels, "dontcare:"+st.Why)
				case refframe.ExactOrErr:
					if res.err != nil {
						comparing = false
						labels = append(labels, "dontcare:malformed field name refused")
						break
					}
					if !bytes.Equal(res.data, st.Rec) {
						return engine.Failf("C12/"+fname+"/wrong-record", "Recv #%d: want record %s (%s), got %s; stream %s", i, q(st.Rec), st.Why, q(res.data), q(stream))
					}
				case refframe.Exact:
					if res.err != nil {
						return engine.Failf("C12/"+fname+"/record-refused", "Recv #%d: want record %s (%s), got error %v (data %s); stream %s", i, q(st.Rec), st.Why, res.err, q(res.data), q(stream))
					}
					if !bytes.Equal(res.data, st.Rec) {
						return engine.Failf("C12/"+fname+"/wrong-record", "Recv #%d: want record %s (%s), got %s; stream %s", i, q(st.Rec), st.Why, q(res.data), q(stream))
					}
				case refframe.RecWithErr:
					if res.err == nil {
						return engine.Failf("C12/"+fname+"/mismatch-not-reported", "Recv #%d: %s must be reported with an error, got nil; stream %s", i, st.Why, q(stream))
					}
					if _, ok := res.err.(*channel.ContentTypeMismatchError); !ok {
						return engine.Failf("C12/"+fname+"/mismatch-wrong-error", "Recv #%d: want *ContentTypeMismatchError, got %T %v; stream %s", i, res.err, res.err, q(stream))
					}
					if !bytes.Equal(res.data, st.Rec) {
						return engine.Failf("C12/"+fname+"/wrong-record", "Recv #%d: want record %s with the mismatch error, got %s; stream %s", i, q(st.Rec), q(res.data), q(stream))
					}
				case refframe.ErrReq:
					if res.err == nil {
						return engine.Failf("C12/"+fname+"/error-missing", "Recv #%d: error required (%s), got record %s and nil error; stream %s", i, st.Why, q(res.data), q(stream))
					}
					if len(res.data) == 0 && len(st.Rec) != 0 && st.Final && res.err == io.EOF {
						// a cut-off record that vanishes behind a plain io.EOF cannot be
						// told from a clean end of stream: shortened to nothing, silently
						return engine.Failf("C12/"+fname+"/final-record-dropped-silently", "Recv #%d: the stream ends inside a record (%s, %d bytes) and Recv returned no data and plain io.EOF, exactly as for a clean end; stream %s", i, st.Why, len(st.Rec), q(stream))
					}
					if len(res.data) != 0 && !bytes.Equal(res.data, st.Rec) {
						return engine.Failf("C12/"+fname+"/final-record-shortened", "Recv #%d: data returned with the error (%s) is %s, the complete bytes are %s; stream %s", i, st.Why, q(res.data), q(st.Rec), q(stream))
					}
				}
			}
		}
		// Stop once the stream is exhausted and three calls in a row have failed.
		if failedAfterEOF >= 3 {
			break
		}
	}
	if failedAfterEOF < 3 {
		return engine.Failf("C12/"+fname+"/no-end", "after %d Recv calls the stream (%d bytes) has not ended with three failing calls", len(results), len(stream))
	}
	v := engine.Verdict{Labels: append(labels, "framing:"+c.Framing.String(), "origin:"+c.Origin)}
	v.NonTrivial = c.Origin != "valid" && hasFrameSyntax(c.Framing, stream)
	return v
}

// hasFrameSyntax: the stream contains at least one complete frame header or delimiter.
func hasFrameSyntax(f refframe.Framing, s []byte) bool {
	switch f.Name {
	case "split":
		return bytes.IndexByte(s, f.Split) >= 0
	case "rawjson":
		return bytes.ContainsAny(s, "{}[]\"") || len(bytes.TrimSpace(s)) > 0
	}
	return bytes.Contains(bytes.ToLower(s), []byte("content-length")) && bytes.IndexByte(s, '\n') >= 0
}

var framings = []refframe.Framing{
	{Name: "split", Split: '\n'},
	{Name: "split", Split: 0x1e},
	{Name: "split", Split: 0xff}, // terminators outside ASCII are bytes, not characters
	{Name: "split", Split: 0x80},
	{Name: "strict", Mime: ""},
	{Name: "strict", Mime: "text/plain"},
	{Name: "strict", Mime: "Text/X-Caps"}, // compared as given, letter case included
	{Name: "header", Mime: ""},
	{Name: "header", Mime: "text/plain"},
	{Name: "header", Mime: lspMime},
	{Name: "rawjson"},
}

// ---- enumerated part -------------------------------------------------------

func tokensFor(f refframe.Framing) (toks []string, n int, prefixes []string) {
	env := engine.GetEnv()
	switch f.Name {
	case "split":
		n = 8
		if env.Thorough() {
			n = 9
		}
		return []string{"a", "b", string([]byte{f.Split}), "\r"}, n, []string{""}
	case "rawjson":
		n = 5
		if env.Thorough() {
			n = 6
		}
		return []string{"{", "}", "[", "]", `"`, "a", ":", ",", "1", "n", "u", "l", " "}, n, []string{""}
	}
	n = 4
	if env.Thorough() {
		n = 5
	}
	other := "x/other"
	mime := f.Mime
	if mime == "" {
		mime = "text/plain"
	}
	toks = []string{"Content-Length", "content-length", "CONTENT-TYPE", "X-Other", ":", " ", "0", "2", "5", "-", "+",
		"\r\n", "\n", "p", mime, other,
		"4611686018427387904", "9223372036854775807", "9223372036854775808", "18446744073709551615", "99999999999999999999", "17000000"}
	return toks, n, []string{"", "Content-Length:", "Content-Length: 2\r\n", "Content-Length: 2\r\n\r\npp", "Content-Type: " + mime + "\r\nContent-Length: 1\r\n\r\n"}
}

func enum(env engine.Env, yield func(Case) bool) {
	idx := 0
	for _, f := range framings {
		toks, n, prefixes := tokensFor(f)
		for _, pre := range prefixes {
			// Enumerate all token sequences of length 0..n (odometer).
			for l := 0; l <= n; l++ {
				ctr := make([]int, l)
				for {
					idx++
					if env.Mine(idx) {
						var sb strings.Builder
						sb.WriteString(pre)
						for _, k := range ctr {
							sb.WriteString(toks[k])
						}
						s := sb.String()
						c := Case{Framing: f, Stream: engine.Bytes(s), Origin: "enumerated"}
						// Alternate the three delivery modes over the enumeration.
						switch idx / env.NShards % 3 {
						case 1:
							c.OneByte = true
						case 2:
							c.EOFWithData = true
						}
						if !yield(c) {
							return
						}
					}
					// advance odometer
					i := l - 1
					for i >= 0 {
						ctr[i]++
						if ctr[i] < len(toks) {
							break
						}
						ctr[i] = 0
						i--
					}
					if i < 0 {
						break
					}
				}
			}
		}
	}
}

// ---- generated parts -------------------------------------------------------

func genRecord(t *rapid.T, f refframe.Framing) []byte {
	switch f.Name {
	case "rawjson":
		return []byte(rapid.SampledFrom([]string{`{}`, `[]`, `{"a":1}`, `[1,2,3]`, `"s"`, `{"jsonrpc":"2.0","id":1,"method":"m"}`, `[{"a":[]},"x"]`, `"é\n"`, `null`}).Draw(t, "rec"))
	}
	n := rapid.SampledFrom([]int{0, 1, 2, 3, 7, 30, 200}).Draw(t, "len")
	b := make([]byte, n)
	for i := range b {
		b[i] = rapid.SampledFrom([]byte("ab{}\": \r\n\x1e0C")).Draw(t, "b")
		if f.Name == "split" && b[i] == f.Split {
			b[i] = 'z'
		}
	}
	return b
}

func frame(f refframe.Framing, rec []byte, withType bool) []byte {
	switch f.Name {
	case "split":
		return append(append([]byte(nil), rec...), f.Split)
	case "rawjson":
		return rec
	}
	var sb bytes.Buffer
	if withType {
		fmt.Fprintf(&sb, "Content-Type: %s\r\n", f.Mime)
	}
	fmt.Fprintf(&sb, "Content-Length: %d\r\n\r\n", len(rec))
	sb.Write(rec)
	return sb.Bytes()
}

var hostileLengths = []string{"2305843009213693952", "4611686018427387904", "9223372036854775807", "9223372036854775808",
	"18446744073709551615", "18446744073709551616", "1000000000000000000000000000000", "-1", "-9223372036854775808", "1099511627776", "16777217", "33554432", "4294967296", "0x10", "1e3", "5.0", " 7", "٣"}

func genValidStream(t *rapid.T, f refframe.Framing) ([]byte, []int) {
	var s []byte
	var bounds []int
	n := rapid.IntRange(1, 4).Draw(t, "nrec")
	for i := 0; i < n; i++ {
		s = append(s, frame(f, genRecord(t, f), f.Mime != "" || rapid.Bool().Draw(t, "ct"))...)
		if f.Name == "rawjson" && rapid.Bool().Draw(t, "sep") {
			s = append(s, rapid.SampledFrom([]string{" ", "\n", "\r\n\t"}).Draw(t, "ws")...)
		}
		bounds = append(bounds, len(s))
	}
	return s, bounds
}

func genCuts(t *rapid.T, c *Case) {
	switch rapid.IntRange(0, 3).Draw(t, "delivery") {
	case 0:
	case 1:
		c.OneByte = true
	default:
		k := rapid.IntRange(1, 4).Draw(t, "ncuts")
		for i := 0; i < k && len(c.Stream) > 1; i++ {
			c.Cuts = append(c.Cuts, rapid.IntRange(1, len(c.Stream)-1).Draw(t, "cut"))
		}
	}
	c.EOFWithData = rapid.Bool().Draw(t, "eofWithData")
}

func genMutated(t *rapid.T) Case {
	f := rapid.SampledFrom(framings).Draw(t, "framing")
	s, _ := genValidStream(t, f)
	c := Case{Framing: f, Origin: "mutated"}
	nm := rapid.IntRange(1, 3).Draw(t, "nmut")
	for i := 0; i < nm; i++ {
		switch rapid.IntRange(0, 5).Draw(t, "mut") {
		case 0: // flip a bit
			if len(s) > 0 {
				p := rapid.IntRange(0, len(s)-1).Draw(t, "pos")
				s[p] ^= 1 << rapid.IntRange(0, 7).Draw(t, "bit")
			}
		case 1: // delete a byte
			if len(s) > 0 {
				p := rapid.IntRange(0, len(s)-1).Draw(t, "pos")
				s = append(s[:p:p], s[p+1:]...)
			}
		case 2: // insert a byte
			p := rapid.IntRange(0, len(s)).Draw(t, "pos")
			b := rapid.SampledFrom([]byte("\r\n:- +09a{\"\x00\xff")).Draw(t, "byte")
			s = append(s[:p:p], append([]byte{b}, s[p:]...)...)
		case 3: // hostile length
			if i := bytes.Index(s, []byte("Content-Length: ")); i >= 0 {
				j := i + len("Content-Length: ")
				k := j
				for k < len(s) && s[k] != '\r' {
					k++
				}
				h := rapid.SampledFrom(hostileLengths).Draw(t, "hostile")
				s = append(s[:j:j], append([]byte(h), s[k:]...)...)
			}
		case 4: // change case of a header name / swap the content type
			s = bytes.Replace(s, []byte("Content-Length"), []byte(rapid.SampledFrom([]string{"content-length", "CONTENT-LENGTH", "Content-length", "X-Content-Length"}).Draw(t, "name")), 1)
			s = bytes.Replace(s, []byte("Content-Type: "), []byte(rapid.SampledFrom([]string{"content-type: ", "CONTENT-TYPE:", "Content-Type: x", "X-Type: "}).Draw(t, "tname")), 1)
		case 5: // truncate
			if len(s) > 0 {
				s = s[:rapid.IntRange(0, len(s)-1).Draw(t, "trunc")]
			}
		}
	}
	c.Stream = s
	genCuts(t, &c)
	return c
}

func genValid(t *rapid.T) Case {
	f := rapid.SampledFrom(framings).Draw(t, "framing")
	s, _ := genValidStream(t, f)
	c := Case{Framing: f, Stream: s, Origin: "valid"}
	genCuts(t, &c)
	return c
}

// truncation: every truncation point of generated valid streams.
func enumTrunc(env engine.Env, yield func(Case) bool) {
	// Deterministic family of valid streams built from fixed records.
	recs := [][]byte{[]byte(`{"jsonrpc":"2.0","id":1,"method":"m","params":[1,2]}`), []byte(`[]`), []byte(`{"a":"b c"}`), {}, bytes.Repeat([]byte("x"), 300), []byte(`"q"`)}
	idx := 0
	for _, f := range framings {
		for a := 0; a < len(recs); a++ {
			for b := 0; b < len(recs); b++ {
				if f.Name == "rawjson" && (len(recs[a]) == 0 || len(recs[b]) == 0 || recs[a][0] == 'x' || recs[b][0] == 'x') {
					continue
				}
				s := append(frame(f, recs[a], f.Mime != ""), frame(f, recs[b], f.Mime != "" || a%2 == 0)...)
				for cut := 0; cut < len(s); cut++ {
					idx++
					if !env.Mine(idx) {
						continue
					}
					c := Case{Framing: f, Stream: engine.Bytes(s[:cut]), Origin: "truncated", EOFWithData: idx/env.NShards%2 == 1, OneByte: idx/env.NShards%4 >= 2}
					if !yield(c) {
						return
					}
				}
			}
		}
	}
}

// big: Content-Length values above the pre-allocation threshold with short bodies,
// and complete bodies just around it (thorough tier adds the complete ones).
func enumBig(env engine.Env, yield func(Case) bool) {
	idx := 0
	lens := []string{"16777216", "16777217", "16777300", "33554432", "268435456", "4294967296", "1099511627776", "4611686018427387904", "9223372036854775807"}
	for _, f := range framings {
		if f.Name != "strict" && f.Name != "header" {
			continue
		}
		for _, l := range lens {
			for _, body := range []int{0, 1, 7, 5000} {
				idx++
				if !env.Mine(idx) {
					continue
				}
				var sb bytes.Buffer
				if f.Mime != "" {
					fmt.Fprintf(&sb, "Content-Type: %s\r\n", f.Mime)
				}
				fmt.Fprintf(&sb, "Content-Length: %s\r\n\r\n", l)
				sb.Write(bytes.Repeat([]byte("y"), body))
				if !yield(Case{Framing: f, Stream: sb.Bytes(), Origin: "big-truncated", EOFWithData: body == 7}) {
					return
				}
			}
		}
		// complete bodies just above the threshold (read in pieces, not into one
		// pre-allocated buffer), with the expected, another, and no content type,
		// followed by a short record
		for _, n := range []int{16777217, 16781312} {
			for _, ct := range []string{f.Mime, "text/x-other", ""} {
				idx++
				if !env.Mine(idx) {
					continue
				}
				var sb bytes.Buffer
				if ct != "" {
					fmt.Fprintf(&sb, "Content-Type: %s\r\n", ct)
				}
				fmt.Fprintf(&sb, "Content-Length: %d\r\n\r\n", n)
				tail := "Content-Length: 2\r\n\r\n{}"
				if f.Mime != "" {
					tail = "Content-Type: " + f.Mime + "\r\n" + tail
				}
				if !yield(Case{Framing: f, Stream: sb.Bytes(), Pad: n, Tail: engine.Bytes(tail), Origin: "big-complete", EOFWithData: ct == ""}) {
					return
				}
				// ... and as the last record of the stream: then the end of input is a clean one
				idx++
				if env.Mine(idx) && !yield(Case{Framing: f, Stream: sb.Bytes(), Pad: n, Origin: "big-complete-last", EOFWithData: ct != ""}) {
					return
				}
			}
		}
	}
}

// bufsize: records and header lines whose length sits on a multiple of the
// 4096-byte buffer that bufio.Reader uses by default (where ReadSlice reports
// ErrBufferFull and ReadLine reports isPrefix), terminated and cut off by the
// end of the stream.
func enumBuf(env engine.Env, yield func(Case) bool) {
	idx := 0
	emit := func(f refframe.Framing, s []byte, origin string) bool {
		for d := 0; d < 4; d++ {
			idx++
			if !env.Mine(idx) {
				continue
			}
			c := Case{Framing: f, Stream: engine.Bytes(s), Origin: origin, EOFWithData: d == 1}
			switch d {
			case 2: // reads that end exactly on buffer boundaries
				for o := 4096; o < len(s); o += 4096 {
					c.Cuts = append(c.Cuts, o)
				}
			case 3: // reads that end one byte before
				for o := 4095; o < len(s); o += 4096 {
					c.Cuts = append(c.Cuts, o)
				}
			}
			if !yield(c) {
				return false
			}
		}
		return true
	}
	body := func(n int) []byte {
		b := make([]byte, n)
		for i := range b {
			b[i] = "abcdefghijklmnopqrstuvwxyz0123456789"[i%36]
		}
		return b
	}
	lens := []int{4094, 4095, 4096, 4097, 8191, 8192, 8193, 12288, 16384, 16385}
	for _, f := range framings {
		switch f.Name {
		case "split":
			sep := []byte{f.Split}
			for _, n := range lens {
				for shape := 0; shape < 5; shape++ {
					var s []byte
					switch shape {
					case 0: // unterminated final record
						s = body(n)
					case 1:
						s = append(append(body(5), sep...), body(n)...)
					case 2:
						s = append(append(body(n), sep...), body(3)...)
					case 3:
						s = append(body(n), sep...)
					case 4: // the separator is the last byte of a buffer
						s = append(append(body(n-1), sep...), body(n)...)
					}
					if !emit(f, s, "bufsize") {
						return
					}
				}
			}
		case "strict", "header":
			payload := []byte(`{"jsonrpc":"2.0","id":1,"method":"m"}`)
			for _, n := range []int{4090, 4094, 4095, 4096, 4097, 4098, 8192, 8193, 12290} {
				for shape := 0; shape < 4; shape++ {
					var sb bytes.Buffer
					pad := func(total int, prefix string) string { // a header line of exactly total bytes including CRLF
						return prefix + strings.Repeat("p", total-len(prefix)-2) + "\r\n"
					}
					if f.Mime != "" {
						fmt.Fprintf(&sb, "Content-Type: %s\r\n", f.Mime)
					}
					switch shape {
					case 0: // long unknown field before the length
						sb.WriteString(pad(n, "X-Pad: "))
						fmt.Fprintf(&sb, "Content-Length: %d\r\n\r\n", len(payload))
					case 1: // long unknown field after the length
						fmt.Fprintf(&sb, "Content-Length: %d\r\n", len(payload))
						sb.WriteString(pad(n, "X-Pad: "))
						sb.WriteString("\r\n")
					case 2: // the tail of a long line reads like a length field
						line := "X-Pad: " + strings.Repeat("p", n-7-len("Content-Length: 1")-2)
						sb.WriteString(line + "Content-Length: 1\r\n")
						fmt.Fprintf(&sb, "Content-Length: %d\r\n\r\n", len(payload))
					case 3: // ... placed so that it starts exactly at a buffer boundary
						line := "X-Pad: " + strings.Repeat("p", 4096*max(1, n/4096)-7)
						sb.WriteString(line + "Content-Length: 1\r\n")
						fmt.Fprintf(&sb, "Content-Length: %d\r\n\r\n", len(payload))
					}
					sb.Write(payload)
					sb.Write(frame(f, []byte(`[]`), f.Mime != ""))
					if !emit(f, sb.Bytes(), "bufsize") {
						return
					}
				}
			}
		}
	}
}

// fieldnames: header field names that are almost, or in another spelling
// exactly, Content-Length / Content-Type: only a case-insensitive match of the
// whole name counts, everything else is an unknown field and ignored.
func enumNames(env engine.Env, yield func(Case) bool) {
	idx := 0
	variants := []string{"Content\rLength", "content\rlength", "Content_Length", "Content-Length ", " Content-Length", "Content-Length\t", "ContentLength",
		"Content--Length", "Content-Lengt", "Content-Lengthh", "CONTENT-LENGTH", "cOnTeNt-LeNgTh", "Content\x0bLength", "Content\x0dLength", "Content\x00Length",
		"Content@Length", "Content\x7fLength", "Content-\xccength", "Content\rType", "content\rtype", "CONTENT-TYPE", "Content-Typ"}
	for _, f := range framings {
		if f.Name != "strict" && f.Name != "header" {
			continue
		}
		ct := ""
		if f.Mime != "" {
			ct = "Content-Type: " + f.Mime + "\r\n"
		}
		for _, v := range variants {
			val := "2"
			if strings.Contains(strings.ToLower(v), "typ") {
				val = "x/other"
			}
			streams := []string{
				ct + "Content-Length: 5\r\n" + v + ": " + val + "\r\n\r\nhello" + string(frame(f, []byte("[]"), f.Mime != "")),
				ct + v + ": " + val + "\r\nContent-Length: 5\r\n\r\nhello" + string(frame(f, []byte("[]"), f.Mime != "")),
				ct + v + ": " + val + "\r\n\r\nhello",
			}
			for si, s := range streams {
				for d := 0; d < 3; d++ {
					idx++
					if !env.Mine(idx) {
						continue
					}
					c := Case{Framing: f, Stream: engine.Bytes(s), Origin: fmt.Sprintf("fieldnames:%d", si), EOFWithData: d == 1, OneByte: d == 2}
					if !yield(c) {
						return
					}
				}
			}
		}
	}
}

var parts = []engine.AnyPart{
	engine.Part[Case]{Name: "fieldnames", Run: run, Enum: enumNames,
		Rule:           "header blocks in which a field name is almost Content-Length / Content-Type (a control byte, underscore, space or other byte in place of the hyphen or a letter, a letter missing or doubled) or is it in another letter case, next to, before, or instead of the real field; non-trivial as in enum; distinct = (framing, stream, delivery)",
		EnumExhaustive: "the stated family of near-miss field names for every header framing"},
	engine.Part[Case]{Name: "bufsize", Run: run, Enum: enumBuf,
		Rule:           "records (split framings) and header lines (header framings) whose length is 4096k-2 .. 4096k+2, terminated or cut off by the end of the stream, alone or next to short records, a header-line tail that reads like a second Content-Length; delivered whole, with data+EOF, and in reads that end on or just before buffer boundaries; non-trivial as in enum; distinct = (framing, stream, delivery)",
		EnumExhaustive: "the stated family of buffer-boundary streams for every framing"},
	engine.Part[Case]{Name: "enum", Run: run, Enum: enum,
		Rule:           "every stream of up to N tokens over a framing-specific alphabet (split: 4 symbols, N=8; rawjson: 13 symbols, N=5; header framings: 22 tokens incl. hostile lengths, N=4, behind 4 seeded prefixes; thorough: N+1), delivered whole / in 1-byte reads / with data+EOF; non-trivial = not produced by Send and containing at least one frame header or delimiter; distinct = (framing, stream, delivery)",
		EnumExhaustive: "all token sequences up to the stated length for each framing and prefix"},
	engine.Part[Case]{Name: "trunc", Run: run, Enum: enumTrunc,
		Rule:           "every truncation point of two-record valid streams for each framing; non-trivial as above",
		EnumExhaustive: "all truncation points of the fixed family of valid two-record streams"},
	engine.Part[Case]{Name: "big", Run: run, Enum: enumBig,
		Rule: "Content-Length values at and above the 16 MiB pre-allocation threshold followed by short bodies, and complete bodies of 16 MiB + 1 and + 4097 bytes with the expected, another and no Content-Type followed by a short record"},
	engine.Part[Case]{Name: "mutated", Run: run, Gen: genMutated,
		Rule: "valid streams produced like Send does, then 1-3 mutations (bit flip, byte insert/delete, hostile length, header renaming, truncation), random read cuts; non-trivial as above"},
	engine.Part[Case]{Name: "valid", Run: run, Gen: genValid,
		Rule: "unmutated valid streams with random cuts (control group; trivial by the rule)"},
}

func TestProp(t *testing.T)   { engine.RunParts(t, "C12", parts) }
func TestReplay(t *testing.T) { engine.ReplayParts(t, "C12", parts) }
