package c15

import (
	"context"
	"fmt"
	"sync"
	"testing"

	"github.com/creachadair/jrpc2"
	"github.com/creachadair/jrpc2/handler"
	"pgregory.net/rapid"

	"verif/harness/engine"
)

// Conc: one handler value used by several goroutines at once (a Server with
// Concurrency > 1 does exactly that): each invocation must see the argument
// decoded from its own params.
type Conc struct {
	Shape   string `json:"shape"`  // struct | slice | map | ptr | noarg | noargerr | request
	Strict  string `json:"strict"` // "", "true", "false"
	Array   string `json:"array"`  // "", "true", "false"
	Workers int    `json:"workers"`
	Calls   int    `json:"calls"`
}

type concKey struct{}

// tok is the number the harness put into the context of this very invocation.
func tok(ctx context.Context) any { return ctx.Value(concKey{}) }

type concArg struct {
	A int    `json:"a"`
	B string `json:"b"`
}

func runConc(_ *testing.T, c Conc) engine.Verdict {
	var fn any
	var params func(n int) string
	noParams, viaErr := false, false
	switch c.Shape {
	case "struct":
		fn = func(ctx context.Context, v concArg) (string, error) { return fmt.Sprintf("%d/%s@%v", v.A, v.B, tok(ctx)), nil }
		params = func(n int) string { return fmt.Sprintf(`{"a":%d,"b":"s%d"}`, n, n) }
	case "ptr":
		fn = func(ctx context.Context, v *concArg) (string, error) {
			if v == nil {
				return "nil", nil
			}
			return fmt.Sprintf("%d/%s@%v", v.A, v.B, tok(ctx)), nil
		}
		params = func(n int) string { return fmt.Sprintf(`{"a":%d,"b":"s%d"}`, n, n) }
	case "slice":
		fn = func(ctx context.Context, v []int) (string, error) {
			if len(v) != 2 {
				return fmt.Sprintf("a slice of %d elements", len(v)), nil
			}
			return fmt.Sprintf("%d/s%d@%v", v[0], v[1], tok(ctx)), nil
		}
		params = func(n int) string { return fmt.Sprintf(`[%d,%d]`, n, n) }
	case "noarg":
		// no request parameters: the context is all an invocation gets
		fn = func(ctx context.Context) (string, error) { return fmt.Sprintf("%v/s%v@%v", tok(ctx), tok(ctx), tok(ctx)), nil }
		noParams = true
	case "noargerr":
		fn = func(ctx context.Context) error { return fmt.Errorf("%v/s%v@%v", tok(ctx), tok(ctx), tok(ctx)) }
		noParams, viaErr = true, true
	case "request":
		fn = func(ctx context.Context, req *jrpc2.Request) (string, error) {
			var v concArg
			if err := req.UnmarshalParams(&v); err != nil {
				return "", err
			}
			return fmt.Sprintf("%d/%s@%v", v.A, v.B, tok(ctx)), nil
		}
		params = func(n int) string { return fmt.Sprintf(`{"a":%d,"b":"s%d"}`, n, n) }
	default:
		fn = func(ctx context.Context, v map[string]int) (string, error) {
			return fmt.Sprintf("%d/s%d@%v", v["a"], v["b"], tok(ctx)), nil
		}
		params = func(n int) string { return fmt.Sprintf(`{"a":%d,"b":%d}`, n, n) }
	}
	fi, err := handler.Check(fn)
	if err != nil {
		return engine.Failf("C15/check-acceptance", "Check(%T): %v", fn, err)
	}
	if c.Strict != "" {
		fi.SetStrict(c.Strict == "true")
	}
	if c.Array != "" {
		fi.AllowArray(c.Array == "true")
	}
	h := fi.Wrap()
	var mu sync.Mutex
	bad := ""
	var wg sync.WaitGroup
	for w := 0; w < c.Workers; w++ {
		wg.Add(1)
		go func(w int) {
			defer wg.Done()
			for i := 0; i < c.Calls; i++ {
				n := w*100000 + i
				p, req := "(none)", makeRequest(nil)
				if !noParams {
					p = params(n)
					req = makeRequest(&p)
				}
				res, err := h(context.WithValue(context.Background(), concKey{}, n), req)
				want := fmt.Sprintf("%d/s%d@%d", n, n, n)
				if viaErr && err != nil {
					res, err = err.Error(), nil
				}
				if err != nil || res != want {
					mu.Lock()
					if bad == "" {
						bad = fmt.Sprintf("params %s, context value %d: the function's answer (argument@context value) is %v (err %v), want %q", p, n, res, err, want)
					}
					mu.Unlock()
					return
				}
			}
		}(w)
	}
	wg.Wait()
	if bad != "" {
		return engine.Failf("C15/argument-differs", "handler for %T (strict=%q array=%q) used by %d goroutines at once: %s", fn, c.Strict, c.Array, c.Workers, bad)
	}
	return engine.Verdict{NonTrivial: c.Workers > 1, Labels: []string{"concurrent", "shape:" + c.Shape}}
}

func genConc(t *rapid.T) Conc {
	return Conc{
		Shape:   rapid.SampledFrom([]string{"struct", "ptr", "slice", "map", "noarg", "noargerr", "request"}).Draw(t, "shape"),
		Strict:  rapid.SampledFrom([]string{"", "true", "true", "false"}).Draw(t, "strict"),
		Array:   rapid.SampledFrom([]string{"", "true", "false", "false"}).Draw(t, "array"),
		Workers: rapid.IntRange(2, 8).Draw(t, "workers"),
		Calls:   rapid.IntRange(20, 3000).Draw(t, "calls"),
	}
}

func init() {
	parts = append(parts, engine.Part[Conc]{Name: "concurrent", Run: runConc, Gen: genConc,
		Rule: "one handler made by Check/Wrap (struct, pointer, slice and map parameters; SetStrict x AllowArray; and handlers without request parameters or taking the *Request) invoked by 2-8 goroutines at once with distinct params and a distinct context value, 20-3000 calls each: every invocation's function must answer from the argument decoded from its own params and from its own context; non-trivial = at least two goroutines; distinct = the case"})
}
