// Package c15 checks property C15 (handler.New / Check); its type codec is
// shared with package c16 through this file.
package c15

import (
	"context"
	"encoding/json"
	"fmt"
	"reflect"
	"strings"

	"github.com/creachadair/jrpc2"
	"pgregory.net/rapid"
)

// TypeDesc is a plain-data description of a Go type.
type TypeDesc struct {
	K      string      `json:"k"` // int string bool float64 int64 uint8 slice array map ptr raw any struct named request error ctx
	Elem   *TypeDesc   `json:"elem,omitempty"`
	N      int         `json:"n,omitempty"`
	Fields []FieldDesc `json:"fields,omitempty"`
	Name   string      `json:"name,omitempty"`
}

// FieldDesc describes one struct field.
type FieldDesc struct {
	Name       string   `json:"name"`
	Tag        string   `json:"tag,omitempty"`
	T          TypeDesc `json:"t"`
	Unexported bool     `json:"unexported,omitempty"`
}

// ---- hand-declared types for what reflect.StructOf cannot make ----------------

type Inner struct {
	X int `json:"x"`
}
type EmbTagged struct {
	Inner `json:"inner"`
	B     int
}
type EmbUntagged struct {
	Inner
	B int
}
type CustomU struct{ Parts []string }

func (c *CustomU) UnmarshalJSON(b []byte) error {
	var s string
	if err := json.Unmarshal(b, &s); err != nil {
		return err
	}
	c.Parts = strings.Split(s, ",")
	return nil
}

type TextU struct{ V string }

func (t *TextU) UnmarshalText(b []byte) error { t.V = "text:" + string(b); return nil }

type StrictV struct {
	A int
	B string
}

func (StrictV) DisallowUnknownFields() {}

type StrictP struct {
	A int
	B string
}

func (*StrictP) DisallowUnknownFields() {}

type Omit struct {
	A int    `json:"a,omitempty"`
	B string `json:"-"`
	C bool   `json:",omitempty"`
	d int
}
type HoldsCustom struct {
	C CustomU `json:"c"`
	T TextU   `json:"t"`
	N *int    `json:"n"`
}

// Picky decodes itself and turns down what it does not like with an error of
// the library's own error type and a code of its own: to the caller of the
// handler that is still a parameter that does not decode (InvalidParams).
type Picky struct{ N int }

func (p *Picky) UnmarshalJSON(b []byte) error {
	var n int
	if err := json.Unmarshal(b, &n); err != nil || n < 0 {
		return &jrpc2.Error{Code: 1001, Message: "picky says no"}
	}
	p.N = n
	return nil
}

// ErrLike is an ordinary JSON-marshalable value type that happens to have an
// Error method: as a result type it is a Y, not the error position.
type ErrLike struct {
	Code int
	Msg  string
}

func (e ErrLike) Error() string { return e.Msg }

var named = map[string]reflect.Type{
	"ErrLike":     reflect.TypeOf(ErrLike{}),
	"EmbTagged":   reflect.TypeOf(EmbTagged{}),
	"EmbUntagged": reflect.TypeOf(EmbUntagged{}),
	"CustomU":     reflect.TypeOf(CustomU{}),
	"TextU":       reflect.TypeOf(TextU{}),
	"StrictV":     reflect.TypeOf(StrictV{}),
	"StrictP":     reflect.TypeOf(StrictP{}),
	"Omit":        reflect.TypeOf(Omit{}),
	"HoldsCustom": reflect.TypeOf(HoldsCustom{}),
	"Picky":       reflect.TypeOf(Picky{}),
	"PairA":       pairA,
	"PairB":       pairB,
}

// pairA and pairB are two different struct types that print alike ("c15.pair"):
// function-local types of the same name. Whatever is remembered about one of
// them must not be applied to the other.
var pairA = func() reflect.Type {
	type pair struct {
		A int `json:"a"`
		B string
	}
	return reflect.TypeOf(pair{})
}()

var pairB = func() reflect.Type {
	type pair struct{ X, Y, Z int }
	return reflect.TypeOf(pair{})
}()

// NamedNames lists the hand-declared types.
var NamedNames = []string{"ErrLike", "EmbTagged", "EmbUntagged", "CustomU", "TextU", "StrictV", "StrictP", "Omit", "HoldsCustom", "Picky", "PairA", "PairB"}

var (
	ctxType = reflect.TypeOf((*context.Context)(nil)).Elem()
	errType = reflect.TypeOf((*error)(nil)).Elem()
	reqType = reflect.TypeOf((*jrpc2.Request)(nil))
)

// Type builds the reflect.Type of a description.
func (d TypeDesc) Type() reflect.Type {
	switch d.K {
	case "int":
		return reflect.TypeOf(int(0))
	case "int64":
		return reflect.TypeOf(int64(0))
	case "uint8":
		return reflect.TypeOf(uint8(0))
	case "string":
		return reflect.TypeOf("")
	case "bool":
		return reflect.TypeOf(false)
	case "float64":
		return reflect.TypeOf(float64(0))
	case "raw":
		return reflect.TypeOf(json.RawMessage(nil))
	case "any":
		return reflect.TypeOf((*any)(nil)).Elem()
	case "error":
		return errType
	case "ctx":
		return ctxType
	case "request":
		return reqType
	case "slice":
		return reflect.SliceOf(d.Elem.Type())
	case "array":
		return reflect.ArrayOf(d.N, d.Elem.Type())
	case "map":
		return reflect.MapOf(reflect.TypeOf(""), d.Elem.Type())
	case "ptr":
		return reflect.PointerTo(d.Elem.Type())
	case "named":
		return named[d.Name]
	case "struct":
		var fs []reflect.StructField
		for _, f := range d.Fields {
			sf := reflect.StructField{Name: f.Name, Type: f.T.Type(), Tag: reflect.StructTag(f.Tag)}
			if f.Unexported {
				sf.PkgPath = "verif/harness/c15"
			}
			fs = append(fs, sf)
		}
		return reflect.StructOf(fs)
	}
	panic("type kind " + d.K)
}

func (d TypeDesc) String() string {
	switch d.K {
	case "slice":
		return "[]" + d.Elem.String()
	case "array":
		return fmt.Sprintf("[%d]%s", d.N, d.Elem)
	case "map":
		return "map[string]" + d.Elem.String()
	case "ptr":
		return "*" + d.Elem.String()
	case "named":
		return d.Name
	case "struct":
		var fs []string
		for _, f := range d.Fields {
			fs = append(fs, fmt.Sprintf("%s %s %q", f.Name, f.T, f.Tag))
		}
		return "struct{" + strings.Join(fs, "; ") + "}"
	}
	return d.K
}

// GenType draws a JSON-marshalable type description.
func GenType(t *rapid.T, depth int, structs bool) TypeDesc {
	kinds := []string{"int", "string", "bool", "float64", "int64", "uint8", "raw", "any"}
	if depth < 2 {
		kinds = append(kinds, "slice", "array", "map", "ptr")
		if structs {
			kinds = append(kinds, "struct", "struct", "named", "named")
		}
	}
	d := TypeDesc{K: rapid.SampledFrom(kinds).Draw(t, "tk")}
	switch d.K {
	case "slice", "map", "ptr":
		e := GenType(t, depth+1, structs)
		d.Elem = &e
	case "array":
		e := GenType(t, depth+1, false)
		d.Elem = &e
		d.N = rapid.IntRange(0, 3).Draw(t, "alen")
	case "named":
		d.Name = rapid.SampledFrom(NamedNames).Draw(t, "named")
	case "struct":
		d.Fields = GenFields(t, depth)
	}
	return d
}

// GenFields draws struct fields with distinct names (also ignoring case).
func GenFields(t *rapid.T, depth int) []FieldDesc {
	n := rapid.IntRange(0, 4).Draw(t, "nfields")
	var fs []FieldDesc
	used := map[string]bool{}
	for i := 0; i < n; i++ {
		f := FieldDesc{Name: fmt.Sprintf("F%c", 'A'+i), T: GenType(t, depth+1, depth < 1)}
		switch rapid.IntRange(0, 8).Draw(t, "tagk") {
		case 0:
			f.Tag = `json:"-"`
		case 1:
			f.Tag = fmt.Sprintf(`json:"t%d"`, i)
		case 2:
			f.Tag = fmt.Sprintf(`json:"o%d,omitempty"`, i)
		case 3:
			f.Tag = `json:",omitempty"`
		case 4:
			f.Unexported = true
			f.Name = fmt.Sprintf("f%c", 'a'+i)
		case 5:
			// encoding/json: `json:"-,"` is a field whose name is "-", not an omitted one
			if !used["-"] {
				f.Tag = rapid.SampledFrom([]string{`json:"-,"`, `json:"-,omitempty"`}).Draw(t, "dashtag")
				used["-"] = true
			}
		}
		if used[strings.ToLower(f.Name)] {
			continue
		}
		used[strings.ToLower(f.Name)] = true
		fs = append(fs, f)
	}
	return fs
}

// GenJSON draws a JSON text that decodes into the described type.
func GenJSON(t *rapid.T, d TypeDesc) string {
	switch d.K {
	case "int", "int64":
		return rapid.SampledFrom([]string{"0", "1", "-7", "12345", "9007199254740993", "-9223372036854775807"}).Draw(t, "iv")
	case "uint8":
		return rapid.SampledFrom([]string{"0", "9", "255"}).Draw(t, "uv")
	case "string":
		return rapid.SampledFrom([]string{`""`, `"a"`, `"a,b"`, `"é"`}).Draw(t, "sv")
	case "bool":
		return rapid.SampledFrom([]string{"true", "false"}).Draw(t, "bv")
	case "float64":
		return rapid.SampledFrom([]string{"0", "1.5", "-2e3", "7"}).Draw(t, "fv")
	case "raw", "any":
		return rapid.SampledFrom([]string{`1`, `"x"`, `[1,{"a":null}]`, `{"k":[true]}`, `null`, `12345678901234567890`, `1.0`, `1e2`, `"\u0041"`, `{"b":1,"a":2}`}).Draw(t, "rv")
	case "slice":
		n := rapid.IntRange(0, 3).Draw(t, "sl")
		var xs []string
		for i := 0; i < n; i++ {
			xs = append(xs, GenJSON(t, *d.Elem))
		}
		if n == 0 && rapid.Bool().Draw(t, "nullslice") {
			return "null"
		}
		return "[" + strings.Join(xs, ",") + "]"
	case "array":
		var xs []string
		for i := 0; i < d.N; i++ {
			xs = append(xs, GenJSON(t, *d.Elem))
		}
		return "[" + strings.Join(xs, ",") + "]"
	case "map":
		n := rapid.IntRange(0, 2).Draw(t, "ml")
		var xs []string
		for i := 0; i < n; i++ {
			xs = append(xs, fmt.Sprintf(`"k%d":%s`, i, GenJSON(t, *d.Elem)))
		}
		return "{" + strings.Join(xs, ",") + "}"
	case "ptr":
		if rapid.IntRange(0, 4).Draw(t, "nilptr") == 0 {
			return "null"
		}
		return GenJSON(t, *d.Elem)
	case "named":
		switch d.Name {
		case "ErrLike":
			return rapid.SampledFrom([]string{`{"Code":5,"Msg":"m"}`, `{"Code":1}`, `{}`}).Draw(t, "nv")
		case "EmbTagged":
			return rapid.SampledFrom([]string{`{"inner":{"x":3},"B":4}`, `{"B":1}`, `{}`}).Draw(t, "nv")
		case "EmbUntagged":
			return rapid.SampledFrom([]string{`{"x":3,"B":4}`, `{"B":1}`, `{}`}).Draw(t, "nv")
		case "CustomU":
			return rapid.SampledFrom([]string{`"a,b"`, `""`}).Draw(t, "nv")
		case "TextU":
			return rapid.SampledFrom([]string{`"hello"`, `""`}).Draw(t, "nv")
		case "StrictV", "StrictP":
			return rapid.SampledFrom([]string{`{"A":1,"B":"x"}`, `{"A":2}`, `{}`}).Draw(t, "nv")
		case "Omit":
			return rapid.SampledFrom([]string{`{"a":1,"C":true}`, `{}`, `{"a":5}`}).Draw(t, "nv")
		case "Picky":
			return rapid.SampledFrom([]string{`5`, `0`, `-3`, `"x"`, `7`}).Draw(t, "nv")
		case "PairA":
			return rapid.SampledFrom([]string{`{"a":1,"B":"x"}`, `{"B":"y"}`, `{}`}).Draw(t, "nv")
		case "PairB":
			return rapid.SampledFrom([]string{`{"X":1,"Y":2,"Z":3}`, `{"Z":1}`, `{}`}).Draw(t, "nv")
		case "HoldsCustom":
			return rapid.SampledFrom([]string{`{"c":"p,q","t":"tt","n":5}`, `{"n":null}`, `{}`}).Draw(t, "nv")
		}
	case "struct":
		var xs []string
		for _, f := range d.Fields {
			name, ok := JSONName(f)
			if !ok || rapid.IntRange(0, 3).Draw(t, "omit") == 0 {
				continue
			}
			xs = append(xs, fmt.Sprintf("%q:%s", name, GenJSON(t, f.T)))
		}
		return "{" + strings.Join(xs, ",") + "}"
	}
	return "null"
}

// JSONName is the documented key of a struct field: not for unexported fields
// and fields tagged "-"; the tag name if there is one, else the field name.
func JSONName(f FieldDesc) (string, bool) {
	if f.Unexported {
		return "", false
	}
	tag, has := reflect.StructTag(f.Tag).Lookup("json")
	if has {
		if tag == "-" {
			return "", false
		}
		if name, _, _ := strings.Cut(tag, ","); name != "" {
			return name, true
		}
	}
	return f.Name, true
}
