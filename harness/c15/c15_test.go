package c15

import (
	"bytes"
	"context"
	"encoding/json"
	"errors"
	"fmt"
	"reflect"
	"strings"
	"testing"

	"github.com/creachadair/jrpc2"
	"github.com/creachadair/jrpc2/handler"
	"pgregory.net/rapid"

	"verif/harness/engine"
)

// FuncDesc describes a function signature (valid or not).
type FuncDesc struct {
	Shape   string    `json:"shape"` // ok nil nonfunc noparams threeparams firstnotctx variadic noresults threeresults secondnoterr
	Arg     *TypeDesc `json:"arg,omitempty"`
	Result  *TypeDesc `json:"result,omitempty"` // nil = error only
	WithErr bool      `json:"with_err,omitempty"`
}

// Case is one (function, options, params) triple.
type Case struct {
	Fn       FuncDesc `json:"fn"`
	Strict   string   `json:"strict,omitempty"` // "", "true", "false"
	Array    string   `json:"array,omitempty"`  // "", "true", "false"
	Params   *string  `json:"params"`           // nil = absent
	RetErr   bool     `json:"ret_err,omitempty"`
	RetValue string   `json:"ret_value,omitempty"`
	// History: what was done to the FuncInfo before the settings above were
	// applied and the handler under test was made: "wrap" (a handler is made and
	// thrown away), "strict:true|false", "array:true|false".  The last setting wins.
	History []string `json:"history,omitempty"`
	// Later: after the handler under test has been made, the settings of the
	// FuncInfo are flipped and another handler is made; the first one keeps its own.
	Later bool `json:"later,omitempty"`
	// DeadCtx: the handler is invoked with a context that has already ended
	// (a request cancelled while it was queued): the outcome is the same.
	DeadCtx bool `json:"dead_ctx,omitempty"`
}

type ctxKey struct{}

func (f FuncDesc) funcType() (reflect.Type, bool) {
	in := []reflect.Type{ctxType}
	var out []reflect.Type
	if f.Arg != nil {
		in = append(in, f.Arg.Type())
	}
	if f.Result != nil {
		out = append(out, f.Result.Type())
	}
	if f.WithErr || f.Result == nil {
		out = append(out, errType)
	}
	variadic := false
	switch f.Shape {
	case "noparams":
		in = nil
	case "threeparams":
		in = append(in, reflect.TypeOf(0), reflect.TypeOf(""))[:3]
		if len(in) < 3 {
			in = []reflect.Type{ctxType, reflect.TypeOf(0), reflect.TypeOf("")}
		}
	case "firstnotctx":
		in[0] = reflect.TypeOf(0)
	case "firstimplctx":
		// a type that implements context.Context without being it: a wrapper can
		// only supply a plain context.Context
		in[0] = reflect.TypeOf(ctxStruct{})
	case "firstptrctx":
		in[0] = reflect.TypeOf(&ctxStruct{})
	case "firstwiderctx":
		in[0] = reflect.TypeOf((*widerCtx)(nil)).Elem()
	case "variadic":
		in = []reflect.Type{ctxType, reflect.SliceOf(reflect.TypeOf(0))}
		variadic = true
	case "noresults":
		out = nil
	case "threeresults":
		out = []reflect.Type{reflect.TypeOf(0), reflect.TypeOf(""), errType}
	case "secondnoterr":
		out = []reflect.Type{reflect.TypeOf(0), reflect.TypeOf("")}
	}
	return reflect.FuncOf(in, out, variadic), variadic
}

type ctxStruct struct{ context.Context }

type widerCtx interface {
	context.Context
	Extra()
}

// refCheck: does the documented list of signature schemes accept it?
func refCheck(f FuncDesc) bool { return f.Shape == "ok" }

// posNames: the documented array-to-field mapping, computed independently.
func posNames(t reflect.Type) ([]string, bool) {
	if t.Kind() == reflect.Pointer {
		t = t.Elem()
	}
	if t.Kind() != reflect.Struct {
		return nil, false
	}
	var names []string
	for i := 0; i < t.NumField(); i++ {
		f := t.Field(i)
		if f.PkgPath != "" { // unexported
			continue
		}
		tag, has := f.Tag.Lookup("json")
		if has && tag == "-" {
			continue
		}
		name, _, _ := strings.Cut(tag, ",")
		if has && name != "" {
			names = append(names, name)
			continue
		}
		if f.Anonymous {
			continue
		}
		names = append(names, f.Name)
	}
	return names, true
}

func hasStrictMethod(t reflect.Type) bool {
	if _, ok := t.MethodByName("DisallowUnknownFields"); ok {
		return true
	}
	if t.Kind() != reflect.Pointer {
		if _, ok := reflect.PointerTo(t).MethodByName("DisallowUnknownFields"); ok {
			return true
		}
	}
	return false
}

func caseCollision(t reflect.Type) bool {
	if t.Kind() == reflect.Pointer {
		t = t.Elem()
	}
	if t.Kind() != reflect.Struct {
		return false
	}
	seen := map[string]bool{}
	for i := 0; i < t.NumField(); i++ {
		f := t.Field(i)
		if f.PkgPath != "" {
			continue
		}
		tag, _ := f.Tag.Lookup("json")
		name, _, _ := strings.Cut(tag, ",")
		if tag == "-" {
			continue
		}
		if name == "" {
			name = f.Name
		}
		if seen[strings.ToLower(name)] {
			return true
		}
		seen[strings.ToLower(name)] = true
	}
	return false
}

// refDecode decides independently whether params decode into the declared
// parameter type, and to what. ok=false means InvalidParams is required.
// dontcare names a class the property is silent about.
func refDecode(argT reflect.Type, params []byte, strict, allowArray bool) (val reflect.Value, ok bool, dontcare string) {
	ptrParam := argT.Kind() == reflect.Pointer
	base := argT
	if ptrParam {
		base = argT.Elem()
	}
	target := reflect.New(base)
	finish := func() reflect.Value {
		if ptrParam {
			return target
		}
		return target.Elem()
	}
	if len(params) == 0 {
		return finish(), true, ""
	}
	strict = strict || hasStrictMethod(argT)
	data := params
	if names, isStruct := posNames(argT); isStruct {
		if caseCollision(argT) {
			return val, false, "case-colliding field names"
		}
		trimmed := bytes.TrimSpace(data)
		if len(trimmed) > 0 && trimmed[0] == '[' && allowArray {
			if len(names) == 0 {
				return val, false, "array for a struct with no eligible field"
			}
			var arr []json.RawMessage
			if err := json.Unmarshal(data, &arr); err != nil {
				return val, false, ""
			}
			if len(arr) != len(names) {
				return val, false, ""
			}
			seen := map[string]bool{}
			var sb strings.Builder
			sb.WriteByte('{')
			for i, n := range names {
				if seen[n] {
					return val, false, "duplicate positional names"
				}
				seen[n] = true
				if i > 0 {
					sb.WriteByte(',')
				}
				kb, _ := json.Marshal(n)
				sb.Write(kb)
				sb.WriteByte(':')
				sb.Write(arr[i])
			}
			sb.WriteByte('}')
			data = []byte(sb.String())
		}
	}
	if base == reflect.TypeOf(json.RawMessage(nil)) && !ptrParam {
		// json.RawMessage parameters receive the params text itself
	}
	dec := json.NewDecoder(bytes.NewReader(data))
	if strict {
		dec.DisallowUnknownFields()
	}
	if err := dec.Decode(target.Interface()); err != nil {
		if _, isStruct := posNames(argT); strict && !isStruct && !hasStrictMethod(argT) {
			// SetStrict is documented to have "no effect for non-struct arguments":
			// if only the strictness makes the difference (an unknown key nested in
			// a slice or map of structs), either outcome is accepted.
			loose := reflect.New(base)
			if json.Unmarshal(data, loose.Interface()) == nil {
				return val, false, "SetStrict on a non-struct argument"
			}
		}
		return val, false, ""
	}
	return finish(), true, ""
}

func makeRequest(params *string) *jrpc2.Request {
	text := `{"jsonrpc":"2.0","id":1,"method":"m"}`
	if params != nil {
		text = `{"jsonrpc":"2.0","id":1,"method":"m","params":` + *params + `}`
	}
	prs, err := jrpc2.ParseRequests([]byte(text))
	if err != nil || len(prs) != 1 || prs[0].Error != nil {
		return nil
	}
	return prs[0].ToRequest()
}

func run(_ *testing.T, c Case) (v engine.Verdict) {
	var fn any
	var calls []reflect.Value
	var gotCtx []context.Context
	retErr := errors.New("function failed")
	switch c.Fn.Shape {
	case "nil":
		fn = nil
	case "nonfunc":
		fn = 42
	default:
		ft, _ := c.Fn.funcType()
		fv := reflect.MakeFunc(ft, func(args []reflect.Value) []reflect.Value {
			if len(args) > 0 {
				if cx, ok := args[0].Interface().(context.Context); ok {
					gotCtx = append(gotCtx, cx)
				}
			}
			if len(args) > 1 {
				// (what the function received is kept as a copy; a raw-message argument
				// is then overwritten - it is the function's own to scribble on)
				switch raw := args[1].Interface().(type) {
				case json.RawMessage:
					calls = append(calls, reflect.ValueOf(append(json.RawMessage(nil), raw...)))
					for i := range raw {
						raw[i] = 'x'
					}
				case *json.RawMessage:
					if raw != nil {
						cp := append(json.RawMessage(nil), (*raw)...)
						calls = append(calls, reflect.ValueOf(&cp))
						for i := range *raw {
							(*raw)[i] = 'x'
						}
					} else {
						calls = append(calls, args[1])
					}
				default:
					calls = append(calls, args[1])
				}
			} else {
				calls = append(calls, reflect.Value{})
			}
			outs := make([]reflect.Value, ft.NumOut())
			for i := range outs {
				outs[i] = reflect.Zero(ft.Out(i))
			}
			if ft.NumOut() > 0 && ft.Out(0) != errType && c.RetValue != "" {
				rv := reflect.New(ft.Out(0))
				if json.Unmarshal([]byte(c.RetValue), rv.Interface()) == nil {
					outs[0] = rv.Elem()
				}
			}
			if c.RetErr && ft.NumOut() > 0 && ft.Out(ft.NumOut()-1) == errType {
				outs[ft.NumOut()-1] = reflect.ValueOf(&retErr).Elem()
			}
			return outs
		})
		fn = fv.Interface()
	}
	desc := fmt.Sprintf("%+v", c)
	fi, err := safeCheck(fn)
	if p, ok := err.(panicErr); ok {
		return engine.Failf("C15/check-panics", "Check panicked: %v (%s)", p.v, desc)
	}
	if want := refCheck(c.Fn); (err == nil) != want {
		return engine.Failf("C15/check-acceptance", "Check(%s) err=%v, the documented schemes say accept=%v", c.Fn.Shape, err, want)
	}
	if err != nil {
		return engine.Verdict{NonTrivial: c.Fn.Shape != "nil" && c.Fn.Shape != "nonfunc", Labels: []string{"rejected:" + c.Fn.Shape}}
	}
	strict, allowArray := false, true
	for _, op := range c.History {
		switch op {
		case "wrap":
			_ = fi.Wrap()
		case "strict:true", "strict:false":
			strict = op == "strict:true"
			fi.SetStrict(strict)
		case "array:true", "array:false":
			allowArray = op == "array:true"
			fi.AllowArray(allowArray)
		}
	}
	if c.Strict != "" {
		strict = c.Strict == "true"
		fi.SetStrict(strict)
	}
	if c.Array != "" {
		allowArray = c.Array != "false"
		fi.AllowArray(allowArray)
	}
	req := makeRequest(c.Params)
	if req == nil {
		return engine.Verdict{Labels: []string{"skipped:params-not-structured"}}
	}
	ctx := context.WithValue(context.Background(), ctxKey{}, "mine")
	if c.DeadCtx {
		dctx, cancel := context.WithCancel(ctx)
		cancel()
		ctx = dctx
	}
	var res any
	var herr error
	var theHandler jrpc2.Handler
	if p := func() (p any) {
		defer func() { p = recover() }()
		h := fi.Wrap()
		theHandler = h
		if c.Later {
			_ = fi.SetStrict(!strict).AllowArray(!allowArray).Wrap()
		}
		res, herr = h(ctx, req)
		return nil
	}(); p != nil {
		return engine.Failf("C15/wrapper-panics", "the wrapped handler panicked: %v (%s)", p, desc)
	}
	labels := []string{"accepted"}
	var params []byte
	if c.Params != nil && *c.Params != "null" {
		params = []byte(*c.Params)
	}
	expectCall := true
	var want reflect.Value
	switch {
	case c.Fn.Arg == nil:
		expectCall = len(params) == 0
	case c.Fn.Arg.K == "request":
	default:
		var dc string
		want, expectCall, dc = refDecode(c.Fn.Arg.Type(), params, strict, allowArray)
		if dc != "" {
			return engine.Verdict{Labels: []string{"dontcare:" + dc}}
		}
	}
	if !expectCall {
		if len(calls) != 0 {
			return engine.Failf("C15/called-with-undecodable-params", "params %s do not decode into %s (strict=%v array=%v) but the function was called with %v", params, argString(c), strict, allowArray, show(calls[0]))
		}
		if herr == nil || jrpc2.ErrorCode(herr) != jrpc2.InvalidParams {
			return engine.Failf("C15/wrong-error-for-bad-params", "params %s for %s: want an InvalidParams error, got result %v err %v", params, argString(c), res, herr)
		}
		labels = append(labels, "rejected-params")
	} else {
		if len(calls) != 1 {
			return engine.Failf("C15/call-count", "params %s decode into %s (strict=%v array=%v) but the function was called %d times (wrapper error: %v)", params, argString(c), strict, allowArray, len(calls), herr)
		}
		if len(gotCtx) != 1 || gotCtx[0].Value(ctxKey{}) != "mine" {
			return engine.Failf("C15/context", "the function did not receive the caller's context")
		}
		switch {
		case c.Fn.Arg == nil:
		case c.Fn.Arg.K == "request":
			if calls[0].Interface() != any(req) {
				return engine.Failf("C15/request-argument", "the function did not receive the request itself")
			}
		default:
			got := calls[0]
			if c.Fn.Arg.K == "ptr" && got.IsNil() {
				return engine.Failf("C15/nil-pointer-argument", "pointer parameter received nil")
			}
			if !reflect.DeepEqual(got.Interface(), want.Interface()) {
				return engine.Failf("C15/argument-differs", "params %s into %s: function got %s, encoding/json gives %s", params, argString(c), show(got), show(want))
			}
		}
		// results passed through unchanged
		if c.RetErr && (c.Fn.WithErr || c.Fn.Result == nil) {
			if herr != retErr {
				return engine.Failf("C15/error-not-passed-through", "function returned %v, wrapper returned %v", retErr, herr)
			}
		} else {
			if herr != nil {
				return engine.Failf("C15/spurious-error", "function returned no error, wrapper returned %v", herr)
			}
			if c.Fn.Result != nil && !(c.Fn.Result.K == "error") {
				wantRes := reflect.Zero(c.Fn.Result.Type())
				if c.RetValue != "" {
					rv := reflect.New(c.Fn.Result.Type())
					if json.Unmarshal([]byte(c.RetValue), rv.Interface()) == nil {
						wantRes = rv.Elem()
					}
				}
				if !reflect.DeepEqual(res, wantRes.Interface()) {
					return engine.Failf("C15/result-not-passed-through", "function returned %s, wrapper returned %#v", show(wantRes), res)
				}
			}
		}
	}
	// the same request once more: the first invocation left it as it was
	if expectCall && c.Fn.Arg != nil && c.Fn.Arg.K != "request" {
		before := len(calls)
		if _, err2 := theHandler(ctx, req); (err2 == nil) != (herr == nil) || len(calls) != before+1 ||
			!reflect.DeepEqual(calls[before].Interface(), calls[0].Interface()) {
			return engine.Failf("C15/argument-differs", "the same request handled a second time: the function was called %d more time(s) (error %v), now with %s, the first time with %s", len(calls)-before, err2, show(calls[len(calls)-1]), show(calls[0]))
		}
	}
	nt := false
	if c.Fn.Arg != nil {
		k := c.Fn.Arg.K
		nt = k == "struct" || k == "named" || k == "ptr" || c.Strict == "true"
	}
	if len(params) > 0 && params[0] == '[' {
		nt = true
		labels = append(labels, "array-params")
	}
	return engine.Verdict{NonTrivial: nt, Labels: labels}
}

type panicErr struct{ v any }

func (p panicErr) Error() string { return fmt.Sprint(p.v) }

func safeCheck(fn any) (fi *handler.FuncInfo, err error) {
	defer func() {
		if p := recover(); p != nil {
			err = panicErr{p}
		}
	}()
	return handler.Check(fn)
}

func argString(c Case) string {
	if c.Fn.Arg == nil {
		return "<no parameter>"
	}
	return c.Fn.Arg.String()
}

func show(v reflect.Value) string {
	if !v.IsValid() {
		return "<none>"
	}
	b, err := json.Marshal(v.Interface())
	if err != nil {
		return fmt.Sprintf("%#v", v.Interface())
	}
	return fmt.Sprintf("%s (%s)", b, v.Type())
}

func genParams(t *rapid.T, arg *TypeDesc) *string {
	p := func(s string) *string { return &s }
	if arg == nil || arg.K == "request" {
		return rapid.SampledFrom([]*string{nil, nil, p("null"), p("[]"), p("{}"), p("[1]"), p(`{"a":1}`)}).Draw(t, "noargparams")
	}
	switch rapid.IntRange(0, 9).Draw(t, "pk") {
	case 0:
		return nil
	case 1:
		return p("null")
	case 2:
		return p(rapid.SampledFrom([]string{`[]`, `{}`, `[1]`, `["x"]`, `{"Z":1}`, `[[1]]`, `[null]`, `{"FA":"wrong"}`, `[1,2,3,4,5,6]`}).Draw(t, "misc"))
	}
	base := *arg
	if base.K == "ptr" {
		base = *base.Elem
	}
	if base.K == "ptr" && rapid.IntRange(0, 2).Draw(t, "deepptrarr") == 0 {
		// **T and deeper: the array mapping is documented for T and *T only, an
		// array of exactly as many elements as T has fields is no exception
		inner := base
		for inner.K == "ptr" {
			inner = *inner.Elem
		}
		if inner.K == "struct" || inner.K == "named" {
			if names, ok := posNames(inner.Type()); ok && len(names) > 0 {
				var elems []string
				for _, n := range names {
					elems = append(elems, elemFor(t, inner.Type(), n))
				}
				return p("[" + strings.Join(elems, ",") + "]")
			}
		}
	}
	val := GenJSON(t, *arg)
	isStruct := base.K == "struct" || (base.K == "named" && base.Name != "CustomU" && base.Name != "TextU")
	if isStruct && rapid.IntRange(0, 1).Draw(t, "asarray") == 0 {
		// array form: one element per eligible field, sometimes one too few / too many / wrong type
		names, _ := posNames(arg.Type())
		var elems []string
		bt := arg.Type()
		if bt.Kind() == reflect.Pointer {
			bt = bt.Elem()
		}
		for _, n := range names {
			elems = append(elems, elemFor(t, bt, n))
		}
		switch rapid.IntRange(0, 5).Draw(t, "arrmut") {
		case 0:
			if len(elems) > 0 {
				elems = elems[:len(elems)-1]
			}
		case 1:
			elems = append(elems, "1")
		case 2:
			if len(elems) > 0 {
				elems[rapid.IntRange(0, len(elems)-1).Draw(t, "wrongpos")] = `{"unexpected":[1]}`
			}
		case 3:
			// a null at some position: for most field types a no-op, for a raw
			// message or a self-decoding type it is a value like any other
			if len(elems) > 0 {
				elems[rapid.IntRange(0, len(elems)-1).Draw(t, "nullpos")] = `null`
			}
		}
		return p("[" + strings.Join(elems, ",") + "]")
	}
	if isStruct && strings.HasPrefix(val, "{") && rapid.IntRange(0, 3).Draw(t, "unknown") == 0 {
		// add an unknown key
		if val == "{}" {
			val = `{"Zzz":1}`
		} else {
			val = `{"Zzz":1,` + val[1:]
		}
	}
	if val[0] != '[' && val[0] != '{' && val != "null" {
		// JSON-RPC params must be structured; scalars cannot be sent at all
		return p("[" + val + "]")
	}
	return p(val)
}

// elemFor draws a JSON value for the struct field whose documented key is name.
func elemFor(t *rapid.T, st reflect.Type, name string) string {
	for i := 0; i < st.NumField(); i++ {
		f := st.Field(i)
		tag, _ := f.Tag.Lookup("json")
		n, _, _ := strings.Cut(tag, ",")
		if n == "" {
			n = f.Name
		}
		if n != name || f.PkgPath != "" {
			continue
		}
		switch f.Type.Kind() {
		case reflect.Int, reflect.Int64:
			// (also values float64 cannot hold, and numbers an integer must refuse)
			return rapid.SampledFrom([]string{"1", "0", "7", "7", "9007199254740993", "-9223372036854775807", "5.0", "1e2"}).Draw(t, "ev")
		case reflect.Uint8, reflect.Float64:
			return rapid.SampledFrom([]string{"1", "0", "7"}).Draw(t, "ev")
		case reflect.Interface:
			return rapid.SampledFrom([]string{"null", "1", `{"b":1,"a":2}`}).Draw(t, "ev")
		case reflect.String:
			return `"s"`
		case reflect.Bool:
			return "true"
		case reflect.Slice, reflect.Array:
			if f.Type.Kind() == reflect.Array && f.Type.Len() > 0 {
				return "null"
			}
			return "[]"
		case reflect.Map, reflect.Struct:
			return "{}"
		default:
			return "null"
		}
	}
	return "null"
}

func genCase(t *rapid.T) Case {
	c := Case{}
	shape := rapid.SampledFrom([]string{"ok", "ok", "ok", "ok", "ok", "ok", "ok", "ok", "ok", "ok", "ok", "ok", "nil", "nonfunc", "noparams", "threeparams", "firstnotctx", "firstimplctx", "firstptrctx", "firstwiderctx", "variadic", "noresults", "threeresults", "secondnoterr"}).Draw(t, "shape")
	c.Fn.Shape = shape
	switch rapid.IntRange(0, 5).Draw(t, "argk") {
	case 0:
	case 1:
		c.Fn.Arg = &TypeDesc{K: "request"}
	default:
		a := GenType(t, 0, true)
		if (a.K == "struct" || a.K == "named") && rapid.IntRange(0, 7).Draw(t, "deepptr") == 0 {
			// a pointer to a pointer to a struct: an ordinary argument type for
			// objects, but not one the array mapping is documented for
			inner := a
			p1 := TypeDesc{K: "ptr", Elem: &inner}
			a = TypeDesc{K: "ptr", Elem: &p1}
		}
		c.Fn.Arg = &a
	}
	switch rapid.IntRange(0, 2).Draw(t, "resk") {
	case 0:
		c.Fn.WithErr = true
	case 1:
		r := GenType(t, 1, false)
		c.Fn.Result = &r
	default:
		r := GenType(t, 1, false)
		c.Fn.Result = &r
		c.Fn.WithErr = true
	}
	if c.Fn.Result != nil && rapid.IntRange(0, 5).Draw(t, "errlike") == 0 {
		// a value type (or a pointer to it) that has an Error method of its own
		r := TypeDesc{K: "named", Name: "ErrLike"}
		if rapid.Bool().Draw(t, "errlikeptr") {
			r = TypeDesc{K: "ptr", Elem: &TypeDesc{K: "named", Name: "ErrLike"}}
		}
		c.Fn.Result = &r
	}
	c.Strict = rapid.SampledFrom([]string{"", "", "true", "false"}).Draw(t, "strict")
	c.Array = rapid.SampledFrom([]string{"", "", "true", "false"}).Draw(t, "array")
	c.Later = rapid.IntRange(0, 5).Draw(t, "later") == 0
	c.DeadCtx = rapid.IntRange(0, 5).Draw(t, "deadctx") == 0
	if rapid.IntRange(0, 3).Draw(t, "hist") == 0 {
		for i, n := 0, rapid.IntRange(1, 4).Draw(t, "nhist"); i < n; i++ {
			c.History = append(c.History, rapid.SampledFrom([]string{"wrap", "wrap", "strict:true", "strict:false", "array:true", "array:false"}).Draw(t, "hop"))
		}
	}
	c.Params = genParams(t, c.Fn.Arg)
	c.RetErr = rapid.IntRange(0, 3).Draw(t, "reterr") == 0
	if c.Fn.Result != nil {
		c.RetValue = GenJSON(t, *c.Fn.Result)
	}
	return c
}

var parts = []engine.AnyPart{
	engine.Part[Case]{Name: "triples", Run: run, Gen: genCase,
		Rule: "(function type, options, params) triples: function types from a grammar (no parameter / *jrpc2.Request / scalars, slices, fixed arrays, map[string]T, json.RawMessage, any, pointers, structs made with reflect.StructOf with tagged / untagged / json:\"-\" / omitempty / unexported fields, and 12 hand-declared types (two of them distinct local types of one name) with embedded fields, custom UnmarshalJSON / UnmarshalText, value- and pointer-receiver DisallowUnknownFields; results error / Y / (Y, error); 12 invalid shapes), function values made with reflect.MakeFunc that record their calls, SetStrict x AllowArray in {unset,true,false}, params derived from the type (matching object, matching array, arrays one short / one long / with a wrong element, unknown keys, null, absent, unrelated JSON); oracle = the documented signature schemes for Check and encoding/json applied directly to the declared type after an independently computed array-to-field mapping; non-trivial = struct / pointer / named parameter, or array-form params, or SetStrict(true); distinct = the case"},
}

func TestProp(t *testing.T)   { engine.RunParts(t, "C15", parts) }
func TestReplay(t *testing.T) { engine.ReplayParts(t, "C15", parts) }
