// Package c06 checks property C06: handler concurrency stays within the limit
// and is work-conserving; a call cancelled while waiting for a slot is answered
// with a cancellation error without running.
package c06

import (
	"fmt"
	"testing"

	"pgregory.net/rapid"

	"verif/harness/engine"
	"verif/harness/gen"
	"verif/harness/oracle"
	"verif/harness/sim"
)

var profile = gen.Profile{
	AllowPush: true, // half of the servers are push-enabled (no pushes are made: the limit must not depend on it)
	MinSteps:  4, MaxSteps: 26, Limits: []int{1, 2, 3, 4},
	PNote: 0, PGate: 85, PInvalid: 4, PUnknown: 10, PBatch: 55, MaxBatch: 6,
	PCancel: 12, PBurst: 35, PObey: 30, Builtins: true, Pins: true,
	Outcomes:      []string{"ok", "ok", "err:-32000", "ctxerr"},
	Chans:         []string{"direct", "pipe"},
	PBaseDeadline: 0,
}

func genCase(t *rapid.T) sim.Scenario { return gen.ServerScenario(t, profile) }

func run(t *testing.T, sc sim.Scenario) engine.Verdict {
	return oracle.RunServer(t, sc, []string{"C06/"}, func(f oracle.Facts) bool { return f.MoreThanSlots })
}

// wide: limits above the number of CPUs of any machine the check is likely
// to run on, with more parked handlers than that.
var wide = gen.Profile{
	AllowPush: true, // half of the servers are push-enabled (no pushes are made: the limit must not depend on it)
	MinSteps:  10, MaxSteps: 30, Limits: []int{17, 18, 20, 24, 33},
	PNote: 0, PGate: 96, PInvalid: 2, PUnknown: 4, PBatch: 75, MaxBatch: 9,
	PCancel: 4, PBurst: 35, PObey: 30, Builtins: true, Pins: true, PRelease: 8,
	Outcomes: []string{"ok", "err:-32000"},
	Chans:    []string{"direct", "pipe"},
}

func genWide(t *rapid.T) sim.Scenario { return gen.ServerScenario(t, wide) }

// notes: notifications and failing handlers take and give back slots too.
var notes = gen.Profile{
	AllowPush: true, // half of the servers are push-enabled (no pushes are made: the limit must not depend on it)
	MinSteps:  6, MaxSteps: 28, Limits: []int{1, 2, 3, 4},
	PNote: 35, PGate: 60, PInvalid: 4, PUnknown: 8, PBatch: 45, MaxBatch: 5,
	PCancel: 8, PBurst: 30, PObey: 30, Builtins: true, Pins: true, PRelease: 45,
	Outcomes: []string{"ok", "err:-32000", "err:7", "ctxerr", "bad", "baderr"},
	Chans:    []string{"direct", "pipe"},
}

func genNotes(t *rapid.T) sim.Scenario { return gen.ServerScenario(t, notes) }

func genDeadline(t *rapid.T) sim.Scenario { return gen.DeadlineScenario(t) }

func runDeadline(t *testing.T, sc sim.Scenario) engine.Verdict {
	v := oracle.RunServer(t, sc, []string{"C06/"}, func(f oracle.Facts) bool { return true })
	v.Labels = append(v.Labels, "base-deadline")
	return v
}

var parts = []engine.AnyPart{
	engine.Part[sim.Scenario]{Name: "deadline", Run: runDeadline, Gen: genDeadline,
		Rule: "structured scenarios on a server whose request contexts carry a 50ms deadline (NewContext): all slots filled with parked calls, 1-4 further records of calls and notifications waiting for a slot or behind the barrier, the fake clock advanced by 200ms, fresh requests, slots given back in any order; requests whose context ended while waiting must be answered -32096 (calls) or dropped (notifications) without running and must not hold back later requests; every case is non-trivial by construction; distinct = hash of the scenario"},
	engine.Part[sim.Scenario]{Name: "scenarios", Run: run, Gen: genCase,
		Rule: "rapid-generated scripts with Concurrency 1-4, batches larger and smaller than the limit made mostly of parking handlers, rpc.serverInfo calls mixed in, generated release and CancelRequest orders, hook delays on the invoke sites; a counter at handler entry/exit must never exceed the limit, at every quiescent point running == min(limit, dispatched and unfinished), a built-in call is not answered while all slots are parked, a call cancelled while waiting for a slot is answered -32097 and never enters; non-trivial = more dispatched parking requests than slots at some quiescent point; distinct = hash of the scenario"},
}

// stoplimit: the limit also holds while and after the server stops (retained
// notifications are drained then, cancelled handlers may still be winding down).
func genStop(t *rapid.T) sim.Scenario {
	sc := gen.ShutdownScenario(t)
	sc.Cfg.Concurrency = rapid.SampledFrom([]int{1, 1, 2, 2, 3}).Draw(t, "stoplimit")
	return sc
}

func runStop(t *testing.T, sc sim.Scenario) engine.Verdict {
	h := sim.Run(t, sc)
	if h.BubbleErr != "" {
		return engine.Verdict{Labels: []string{"other-clause:bubble-error"}} // judged by C08
	}
	for _, p := range oracle.LimitSafety(sc, h) {
		return engine.Failf(p.Sig, "%s\nscript:\n%s\nhistory:\n%s", p.Msg, oracle.ScriptText(sc), oracle.HistoryText(h))
	}
	n := 0
	for _, e := range h.Events {
		if e.Kind == "enter" {
			n++
		}
	}
	return engine.Verdict{NonTrivial: n > sc.Cfg.Concurrency, Labels: []string{"shutdown-history"}}
}

func init() {
	parts = append(parts, engine.Part[sim.Scenario]{Name: "stoplimit", Run: runStop, Gen: genStop,
		Rule: "shutdown scripts (Stop / peer close / channel faults at any point, records before and after, parked handlers that ignore cancellation, notifications retained in the queue and drained after the stop, restart) with Concurrency 1-3: on the handler log the number of handlers entered and not exited never exceeds the limit; non-trivial = more handler invocations than slots; distinct = hash of the scenario"})
	parts = append(parts,
		engine.Part[sim.Scenario]{Name: "wide", Run: run, Gen: genWide,
			Rule: "as scenarios, with Concurrency 17-33 and batches of up to 9 parking calls that are rarely released, so that more handlers are parked than the machine has CPUs and the limit is still reached; non-trivial = more dispatched parking requests than slots at some quiescent point; distinct = hash of the scenario"},
		engine.Part[sim.Scenario]{Name: "notes", Run: run, Gen: genNotes,
			Rule: "as scenarios, with notifications and with handlers that fail, return unmarshalable values, errors with broken data or context errors: every way a handler can end must give its slot back (clauses of C01/C03 violated in the same scenario are reported by those checks, not here); non-trivial = more dispatched parking requests than slots at some quiescent point; distinct = hash of the scenario"})
}

// cancelrace: the cancellation clause in the one race that history alone can
// decide (oracle.CancelBeforeAcquire).
func genCancelRace(t *rapid.T) sim.Scenario { return gen.CancelRaceScenario(t) }

func runCancelRace(t *testing.T, sc sim.Scenario) engine.Verdict {
	h := sim.Run(t, sc)
	if h.BubbleErr != "" {
		return engine.Verdict{Labels: []string{"other-clause:bubble-error"}} // judged by C08
	}
	probs, decided := oracle.CancelBeforeAcquire(sc, h)
	for _, p := range probs {
		return engine.Failf(p.Sig, "%s\nscript:\n%s\nhistory:\n%s", p.Msg, oracle.ScriptText(sc), oracle.HistoryText(h))
	}
	if lim := sc.Cfg.Concurrency; h.MaxRunning > lim {
		return engine.Failf("C06/limit-exceeded", "%d handlers were executing at one instant, limit %d\nscript:\n%s", h.MaxRunning, lim, oracle.ScriptText(sc))
	}
	if n, lim, ok := oracle.SlotsUsableAtEnd(sc, h); ok && n != lim {
		return engine.Failf("C06/not-work-conserving", "after every handler had been released, %d parking calls were sent one by one; %d of them are running at the next quiescent point although the limit is %d and nothing else is executing (a slot was not given back)\nscript:\n%s\nhistory:\n%s", lim, n, lim, oracle.ScriptText(sc), oracle.HistoryText(h))
	}
	return engine.Verdict{NonTrivial: decided > 0 || sc.Cfg.Pins[0].Site == "srv.invoke.run", Labels: []string{fmt.Sprintf("cancelled-in-front-of-the-semaphore:%d", decided), "held-at:" + sc.Cfg.Pins[0].Site}}
}

func init() {
	parts = append(parts, engine.Part[sim.Scenario]{Name: "cancelrace", Run: runCancelRace, Gen: genCancelRace,
		Rule: "Concurrency 1-3 with all (or all but one) slots taken by parked calls; one to three further calls are each held by a pin at the hook site in front of the slot semaphore while CancelRequest names them and, in three cases of four, a slot is given back before or after the cancel: a call that arrived at that site before CancelRequest began and went on only after it had returned asks for its slot with a cancelled context and must never run, free slot or not; in a third of the scripts the call is held just behind the semaphore instead (slot taken, handler not yet started) - there it may run, but its slot must come back: at the end, after everything was released, as many parking calls as the limit are sent and all of them must be running at the next quiescent point; non-trivial = at least one call of the script was cancelled in front of the semaphore (decided from the hook trace and the cancel-done event) or held behind it; distinct = hash of the scenario"})
}

func TestProp(t *testing.T)   { engine.RunParts(t, "C06", parts) }
func TestReplay(t *testing.T) { engine.ReplayParts(t, "C06", parts) }
