package c06

import (
	"context"
	"errors"
	"fmt"
	"net/http/httptest"
	"strings"
	"sync"
	"testing"
	"testing/synctest"

	"github.com/creachadair/jrpc2"
	"github.com/creachadair/jrpc2/channel"
	"github.com/creachadair/jrpc2/handler"
	"github.com/creachadair/jrpc2/jhttp"
	"github.com/creachadair/jrpc2/server"
	"pgregory.net/rapid"

	"verif/harness/engine"
)

// Entry: a server that the user does not build with NewServer but through one of
// the constructors that take a *jrpc2.ServerOptions and build the server for
// them. The Concurrency in those options is "the server's Concurrency option"
// just the same: the limit holds and is work-conserving there too.
type Entry struct {
	Kind  string `json:"kind"` // local | loop | getter | bridgeget | bridgepost
	Limit int    `json:"limit"`
	Calls int    `json:"calls"`
}

type oneShot struct {
	mu   sync.Mutex
	ch   channel.Channel
	done chan struct{}
}

func (o *oneShot) Accept(ctx context.Context) (channel.Channel, error) {
	o.mu.Lock()
	ch := o.ch
	o.ch = nil
	o.mu.Unlock()
	if ch != nil {
		return ch, nil
	}
	select {
	case <-ctx.Done():
	case <-o.done:
	}
	return nil, errors.New("accepter closed")
}

func runEntry(t *testing.T, e Entry) (v engine.Verdict) {
	bad := ""
	func() {
		defer func() {
			if p := recover(); p != nil {
				bad = fmt.Sprintf("C06/entry-stuck\x00%v", p)
			}
		}()
		synctest.Test(t, func(t *testing.T) {
			var mu sync.Mutex
			running, peak := 0, 0
			gate := make(chan struct{})
			mux := handler.Map{"hold": func(ctx context.Context, req *jrpc2.Request) (any, error) {
				mu.Lock()
				running++
				if running > peak {
					peak = running
				}
				mu.Unlock()
				<-gate
				mu.Lock()
				running--
				mu.Unlock()
				return "ok", nil
			}}
			opts := &jrpc2.ServerOptions{Concurrency: e.Limit}
			var wg sync.WaitGroup
			var fire func(i int)
			var shut func()
			switch e.Kind {
			case "local":
				loc := server.NewLocal(mux, &server.LocalOptions{Server: opts})
				fire = func(i int) { loc.Client.Call(context.Background(), "hold", nil) }
				shut = func() { loc.Close() }
			case "loop":
				cend, send := channel.Direct()
				acc := &oneShot{ch: send, done: make(chan struct{})}
				ctx, cancel := context.WithCancel(context.Background())
				ldone := make(chan struct{})
				go func() {
					server.Loop(ctx, acc, server.Static(mux), &server.LoopOptions{ServerOptions: opts})
					close(ldone)
				}()
				cli := jrpc2.NewClient(cend, nil)
				fire = func(i int) { cli.Call(context.Background(), "hold", nil) }
				shut = func() { cli.Close(); cancel(); close(acc.done); <-ldone }
			case "getter":
				g := jhttp.NewGetter(mux, &jhttp.GetterOptions{Server: opts})
				fire = func(i int) { g.ServeHTTP(httptest.NewRecorder(), httptest.NewRequest("GET", "/hold", nil)) }
				shut = func() { g.Close() }
			case "bridgeget":
				b := jhttp.NewBridge(mux, &jhttp.BridgeOptions{Server: opts, ParseGETRequest: jhttp.ParseQuery})
				fire = func(i int) { b.ServeHTTP(httptest.NewRecorder(), httptest.NewRequest("GET", "/hold", nil)) }
				shut = func() { b.Close() }
			default:
				b := jhttp.NewBridge(mux, &jhttp.BridgeOptions{Server: opts})
				fire = func(i int) {
					rq := httptest.NewRequest("POST", "/", strings.NewReader(fmt.Sprintf(`{"jsonrpc":"2.0","id":%d,"method":"hold"}`, i+1)))
					rq.Header.Set("Content-Type", "application/json")
					b.ServeHTTP(httptest.NewRecorder(), rq)
				}
				shut = func() { b.Close() }
			}
			for i := 0; i < e.Calls; i++ {
				wg.Add(1)
				go func(i int) { defer wg.Done(); fire(i) }(i)
			}
			for left := e.Calls; left > 0; left-- {
				synctest.Wait()
				mu.Lock()
				now := running
				mu.Unlock()
				want := min(e.Limit, left)
				if now > e.Limit && bad == "" {
					bad = fmt.Sprintf("C06/limit-exceeded\x00%s server with Concurrency %d, %d calls outstanding: %d handlers are executing at once", e.Kind, e.Limit, left, now)
				} else if now < want && bad == "" {
					bad = fmt.Sprintf("C06/not-work-conserving\x00%s server with Concurrency %d, %d calls outstanding and nothing else going on: only %d handlers are executing, %d calls wait", e.Kind, e.Limit, left, now, left-now)
				}
				if now == 0 {
					// nothing will ever take the gate: give up on this case
					close(gate)
					break
				}
				gate <- struct{}{}
			}
			wg.Wait()
			shut()
			synctest.Wait()
		})
	}()
	if bad != "" {
		sig, msg, _ := strings.Cut(bad, "\x00")
		return engine.Failf(sig, "%s", msg)
	}
	return engine.Verdict{NonTrivial: e.Calls > e.Limit, Labels: []string{"entry:" + e.Kind, fmt.Sprintf("more-calls-than-slots:%v", e.Calls > e.Limit)}}
}

func genEntry(t *rapid.T) Entry {
	return Entry{
		Kind:  rapid.SampledFrom([]string{"local", "loop", "getter", "bridgeget", "bridgepost"}).Draw(t, "kind"),
		Limit: rapid.SampledFrom([]int{1, 1, 2, 3, 5, 8, 40}).Draw(t, "limit"),
		Calls: rapid.SampledFrom([]int{1, 2, 3, 4, 6, 9, 24, 50}).Draw(t, "calls"),
	}
}

func init() {
	parts = append(parts, engine.Part[Entry]{Name: "entrypoints", Run: runEntry, Gen: genEntry,
		Rule: "servers built for the user by server.NewLocal, server.Loop, jhttp.NewGetter and jhttp.NewBridge (POST side and GET side) from ServerOptions with Concurrency in {1,2,3,5,8,40}; 1-50 simultaneous calls whose handlers hold until released one at a time, inside a bubble: at every quiescent point exactly min(limit, outstanding calls) handlers execute; non-trivial = more calls than slots; distinct = the case"})
}
