// Package c13 checks property C13: everything the library emits is one-line
// valid JSON-RPC that parses back; ParseRequests is total and exact.
package c13

import (
	"bytes"
	"context"
	"encoding/json"
	"errors"
	"fmt"
	"io"
	"math/big"
	"net/http/httptest"
	"strings"
	"sync"
	"testing"
	"unicode/utf8"

	"github.com/creachadair/jrpc2"
	"github.com/creachadair/jrpc2/handler"
	"github.com/creachadair/jrpc2/jhttp"
	"pgregory.net/rapid"

	"verif/harness/engine"
	"verif/harness/gen"
	"verif/harness/ref/refjson"
	"verif/harness/ref/refrpc"
)

// ---- a channel stub that records what the library sends ---------------------

type tap struct {
	mu     sync.Mutex
	sent   [][]byte
	in     chan []byte
	closed chan struct{}
	once   sync.Once
	got    chan struct{}
}

func newTap() *tap {
	return &tap{in: make(chan []byte, 8), closed: make(chan struct{}), got: make(chan struct{}, 64)}
}
func (t *tap) Send(b []byte) error {
	t.mu.Lock()
	t.sent = append(t.sent, append([]byte(nil), b...))
	t.mu.Unlock()
	t.got <- struct{}{}
	return nil
}
func (t *tap) Recv() ([]byte, error) {
	select {
	case b := <-t.in:
		return b, nil
	case <-t.closed:
		return nil, io.EOF
	}
}
func (t *tap) Close() error { t.once.Do(func() { close(t.closed) }); return nil }
func (t *tap) records() [][]byte {
	t.mu.Lock()
	defer t.mu.Unlock()
	return append([][]byte(nil), t.sent...)
}

// ---- emit cases ---------------------------------------------------------------

// Emit describes one message the library is asked to emit.
type Emit struct {
	Via     string          `json:"via"` // call notify batch response errresponse push callback cbreply bridge marshal
	Method  string          `json:"method"`
	Params  json.RawMessage `json:"params,omitempty"` // the value handed in, as JSON text (may carry insignificant white space)
	Raw     bool            `json:"raw,omitempty"`    // hand it in as json.RawMessage (pre-encoded) instead of a decoded Go value
	ID      string          `json:"id,omitempty"`     // bridge / marshal: id text
	Code    int             `json:"code,omitempty"`
	Message string          `json:"message,omitempty"`
	// Plain (errresponse): the handler fails with an error that is no *jrpc2.Error:
	// "plain" errors.New(Message), "coder" an ErrCoder reporting Code. Its text is
	// the message on the wire, letter for letter.
	Plain string `json:"plain,omitempty"`
	// Logger: the server has an RPCLogger that takes the parameters and the
	// result as json.RawMessage (documented to be copies) and overwrites them.
	Logger bool `json:"logger,omitempty"`
}

// scribbler is an RPCLogger that "redacts" its own copies in place.
type scribbler struct{}

func (scribbler) LogRequest(ctx context.Context, req *jrpc2.Request) {
	var raw json.RawMessage
	req.UnmarshalParams(&raw)
	for i := range raw {
		raw[i] = 'X'
	}
}

func (scribbler) LogResponse(ctx context.Context, rsp *jrpc2.Response) {
	var raw json.RawMessage
	rsp.UnmarshalResult(&raw)
	for i := range raw {
		raw[i] = 'X'
	}
}

func toValue(e Emit) any {
	if len(e.Params) == 0 {
		return nil
	}
	if e.Raw {
		return json.RawMessage(e.Params)
	}
	var v any
	dec := json.NewDecoder(bytes.NewReader(e.Params))
	dec.UseNumber()
	if dec.Decode(&v) != nil {
		return nil
	}
	return v
}

// numEqual-aware JSON equality.
func jsonEq(a, b []byte) bool {
	var x, y any
	da := json.NewDecoder(bytes.NewReader(a))
	da.UseNumber()
	db := json.NewDecoder(bytes.NewReader(b))
	db.UseNumber()
	if da.Decode(&x) != nil || db.Decode(&y) != nil {
		return false
	}
	return deepEq(x, y)
}

func deepEq(x, y any) bool {
	switch a := x.(type) {
	case map[string]any:
		b, ok := y.(map[string]any)
		if !ok || len(a) != len(b) {
			return false
		}
		for k, v := range a {
			w, ok := b[k]
			if !ok || !deepEq(v, w) {
				return false
			}
		}
		return true
	case []any:
		b, ok := y.([]any)
		if !ok || len(a) != len(b) {
			return false
		}
		for i := range a {
			if !deepEq(a[i], b[i]) {
				return false
			}
		}
		return true
	case json.Number:
		b, ok := y.(json.Number)
		if !ok {
			return false
		}
		if a == b {
			return true
		}
		ra, ok1 := new(big.Rat).SetString(string(a))
		rb, ok2 := new(big.Rat).SetString(string(b))
		return ok1 && ok2 && len(a) < 400 && len(b) < 400 && ra.Cmp(rb) == 0
	default:
		return x == y
	}
}

// checkWire: the universal conditions on every emitted record.
func checkWire(rec []byte) string {
	if !utf8.Valid(rec) {
		return "not valid UTF-8"
	}
	for _, c := range rec {
		if c < 0x20 {
			return fmt.Sprintf("contains control byte 0x%02x (not a single line)", c)
		}
	}
	if !refjson.Valid(rec) || !json.Valid(rec) {
		return "not valid JSON"
	}
	return ""
}

type msg struct {
	V      string
	ID     []byte
	Method *string
	Params []byte
	Result []byte
	Error  []byte
}

func decodeMsg(obj []byte) (msg, string) {
	var m msg
	ms, ok := refjson.Members(obj)
	if !ok {
		return m, "not an object"
	}
	seen := map[string]bool{}
	for _, kv := range ms {
		if seen[kv.Key] {
			return m, "duplicate member " + kv.Key
		}
		seen[kv.Key] = true
		switch kv.Key {
		case "jsonrpc":
			m.V, _ = refjson.DecodeString(kv.Value)
		case "id":
			m.ID = kv.Value
		case "method":
			s, _ := refjson.DecodeString(kv.Value)
			m.Method = &s
		case "params":
			m.Params = kv.Value
		case "result":
			m.Result = kv.Value
		case "error":
			m.Error = kv.Value
		default:
			return m, "unexpected member " + kv.Key
		}
	}
	if m.V != "2.0" {
		return m, `"jsonrpc" is not "2.0"`
	}
	return m, ""
}

func runEmit(_ *testing.T, e Emit) engine.Verdict {
	fail := func(sig, f string, a ...any) engine.Verdict {
		return engine.Failf("C13/"+sig, "%s (case %+v)", fmt.Sprintf(f, a...), e)
	}
	wantParams := []byte(e.Params)
	var rec []byte
	var wantID string
	var wantIDs []string
	switch e.Via {
	case "call", "notify", "batch":
		tp := newTap()
		cli := jrpc2.NewClient(tp, nil)
		ctx, cancel := context.WithCancel(context.Background())
		done := make(chan error, 1)
		go func() {
			switch e.Via {
			case "call":
				_, err := cli.Call(ctx, e.Method, toValue(e))
				done <- err
			case "notify":
				done <- cli.Notify(ctx, e.Method, toValue(e))
			default:
				_, err := cli.Batch(ctx, []jrpc2.Spec{{Method: e.Method, Params: toValue(e)}, {Method: e.Method, Params: toValue(e), Notify: true}})
				done <- err
			}
		}()
		var err error
		select {
		case <-tp.got:
			cancel()
			err = <-done
		case err = <-done:
			cancel()
		}
		cli.Close()
		recs := tp.records()
		if len(recs) == 0 {
			// refused before transmission: admissible only for an empty method name or non-structured params
			if e.Method == "" || (len(e.Params) > 0 && e.Params[0] != '[' && e.Params[0] != '{' && string(bytes.TrimSpace(e.Params)) != "null") {
				return engine.Verdict{Labels: []string{"refused:" + e.Via}}
			}
			return fail("client-refused", "the client transmitted nothing: %v", err)
		}
		rec = recs[0]
	case "response", "errresponse", "push", "callback":
		tp := newTap()
		var h jrpc2.Handler = func(ctx context.Context, req *jrpc2.Request) (any, error) {
			if e.Via == "errresponse" && e.Plain == "plain" {
				return nil, errors.New(e.Message)
			}
			if e.Via == "errresponse" && e.Plain == "coder" {
				return nil, codedErr{code: jrpc2.Code(e.Code), text: e.Message}
			}
			if e.Via == "errresponse" {
				er := &jrpc2.Error{Code: jrpc2.Code(e.Code), Message: e.Message}
				if e.Raw && len(e.Params) > 0 {
					// pre-encoded data put into the field by hand, white space and all
					er.Data = append(json.RawMessage(nil), e.Params...)
					return nil, er
				}
				if v := toValue(e); v != nil {
					return nil, er.WithData(v)
				}
				return nil, er
			}
			return toValue(e), nil
		}
		sopts := &jrpc2.ServerOptions{AllowPush: true}
		if e.Logger {
			sopts.RPCLog = scribbler{}
		}
		srv := jrpc2.NewServer(handler.Map{"m": h}, sopts).Start(tp)
		switch e.Via {
		case "response", "errresponse":
			wantID = e.ID
			tp.in <- []byte(fmt.Sprintf(`{"jsonrpc":"2.0","id":%s,"method":"m"}`, e.ID))
			<-tp.got
		case "push":
			if err := srv.Notify(context.Background(), e.Method, toValue(e)); err != nil {
				srv.Stop()
				tp.Close()
				srv.Wait()
				return engine.Verdict{Labels: []string{"refused:push"}}
			}
		case "callback":
			ctx, cancel := context.WithCancel(context.Background())
			go func() { srv.Callback(ctx, e.Method, toValue(e)) }()
			<-tp.got
			cancel()
		}
		srv.Stop()
		tp.Close()
		srv.Wait()
		recs := tp.records()
		if len(recs) == 0 {
			return fail("nothing-emitted", "the server emitted nothing")
		}
		rec = recs[0]
	case "cbreply":
		tp := newTap()
		cli := jrpc2.NewClient(tp, &jrpc2.ClientOptions{OnCallback: func(ctx context.Context, req *jrpc2.Request) (any, error) {
			if e.Code != 0 {
				er := &jrpc2.Error{Code: jrpc2.Code(e.Code), Message: e.Message}
				if e.Logger {
					// (for this route the flag means: error data that are no JSON at all;
					// the reply is still a well-formed error with that code and message)
					er.Data = json.RawMessage(`{not json`)
				}
				return nil, er
			}
			return toValue(e), nil
		}})
		wantID = e.ID
		tp.in <- []byte(fmt.Sprintf(`{"jsonrpc":"2.0","id":%s,"method":"cb"}`, e.ID))
		<-tp.got
		cli.Close()
		rec = tp.records()[0]
	case "bridgeinvalid":
		// a request the bridge turns down itself (wrong version): the error reply
		// is written by the bridge and bears the caller's id all the same
		b := jhttp.NewBridge(handler.Map{"m": func(ctx context.Context, req *jrpc2.Request) (any, error) { return 1, nil }}, nil)
		defer b.Close()
		wantID = e.ID
		e.Code = -32600
		body := fmt.Sprintf(`{"jsonrpc":"1.0","id":%s,"method":"m"}`, e.ID)
		req := httptest.NewRequest("POST", "/", strings.NewReader(body))
		req.Header.Set("Content-Type", "application/json")
		w := httptest.NewRecorder()
		b.ServeHTTP(w, req)
		if w.Code != 200 {
			return fail("bridge-status", "bridge answered %d %q to %s", w.Code, w.Body.String(), body)
		}
		rec = w.Body.Bytes()
	case "bridge", "bridgebatch":
		b := jhttp.NewBridge(handler.Map{"note": func(ctx context.Context, req *jrpc2.Request) (any, error) { return nil, nil },
			"m": func(ctx context.Context, req *jrpc2.Request) (any, error) {
				if e.Code != 0 {
					return nil, &jrpc2.Error{Code: jrpc2.Code(e.Code), Message: e.Message}
				}
				return toValue(e), nil
			}}, nil)
		defer b.Close()
		wantID = e.ID
		body := fmt.Sprintf(`{"jsonrpc":"2.0","id":%s,"method":"m"}`, e.ID)
		if e.Via == "bridgebatch" {
			// calls interleaved with notifications: each reply bears its own call's id
			wantIDs = []string{e.ID, `"second"`}
			body = fmt.Sprintf(`[{"jsonrpc":"2.0","method":"note"},{"jsonrpc":"2.0","id":%s,"method":"m"},{"jsonrpc":"2.0","method":"note"},{"jsonrpc":"2.0","id":"second","method":"m"}]`, e.ID)
		}
		req := httptest.NewRequest("POST", "/", strings.NewReader(body))
		req.Header.Set("Content-Type", "application/json")
		w := httptest.NewRecorder()
		b.ServeHTTP(w, req)
		if w.Code != 200 {
			return fail("bridge-status", "bridge answered %d %q to %s", w.Code, w.Body.String(), body)
		}
		rec = w.Body.Bytes()
	}
	// universal conditions
	if why := checkWire(rec); why != "" {
		return fail("not-one-line-json", "emitted record %s: %s", engine.Q(rec), why)
	}
	items := [][]byte{rec}
	if es, ok := refjson.Elements(rec); ok {
		items = es
	}
	if e.Via == "bridgebatch" && len(items) != 2 {
		return fail("batch-shape", "bridge reply to two calls and two notifications is %s", engine.Q(rec))
	}
	if e.Via == "batch" && len(items) != 2 {
		return fail("batch-shape", "batch of two emitted as %s", engine.Q(rec))
	}
	for itemIdx, it := range items {
		if e.Via == "bridgebatch" {
			wantID = wantIDs[itemIdx]
		}
		m, why := decodeMsg(it)
		if why != "" {
			return fail("not-jsonrpc", "emitted %s: %s", engine.Q(it), why)
		}
		switch e.Via {
		case "call", "notify", "batch", "push", "callback":
			if m.Method == nil || *m.Method != e.Method {
				return fail("method-differs", "method on the wire is %q, handed in %q", deref(m.Method), e.Method)
			}
			if len(wantParams) == 0 || string(bytes.TrimSpace(wantParams)) == "null" {
				if len(m.Params) != 0 && string(m.Params) != "null" {
					return fail("params-invented", "no params handed in, wire has %s", m.Params)
				}
			} else if !jsonEq(m.Params, wantParams) {
				return fail("params-differ", "params on the wire %s are not JSON-equal to %s", engine.Q(m.Params), engine.Q(wantParams))
			}
			// the library's own parser recovers the same values
			prs, err := jrpc2.ParseRequests(it)
			if err != nil || len(prs) != 1 || prs[0].Error != nil || prs[0].Method != e.Method || prs[0].ID != string(m.ID) {
				return fail("own-parser-disagrees", "ParseRequests(%s) = %+v, %v", engine.Q(it), prs, err)
			}
			if len(m.Params) != 0 && !jsonEq(prs[0].Params, m.Params) {
				return fail("own-parser-disagrees", "ParseRequests params %s differ from the wire %s", prs[0].Params, m.Params)
			}
		case "response", "cbreply", "bridge", "bridgebatch":
			if !refrpc.IDEqual(string(m.ID), wantID) {
				return fail("id-differs", "id on the wire is %s, the request's id is %s", m.ID, wantID)
			}
			if e.Code != 0 {
				if resp, err := refrpc.ParseResponse(it); err != nil || !resp.IsError || resp.Code != e.Code || resp.Message != e.Message {
					return fail("error-differs", "error on the wire %s, handler returned code %d message %q (%v)", engine.Q(it), e.Code, e.Message, err)
				}
			} else if len(m.Result) == 0 || !jsonEq(m.Result, orNull(wantParams)) {
				return fail("result-differs", "result on the wire %s is not JSON-equal to %s", engine.Q(m.Result), engine.Q(orNull(wantParams)))
			}
		case "errresponse":
			resp, err := refrpc.ParseResponse(it)
			if e.Plain != "" {
				wantCode := e.Code
				if e.Plain == "plain" {
					wantCode = int(jrpc2.SystemError)
				}
				if err != nil || !resp.IsError || resp.Code != wantCode || resp.Message != e.Message {
					return fail("error-differs", "error on the wire %s, handler returned a %s error with text %q (code %d) (%v)", engine.Q(it), e.Plain, e.Message, wantCode, err)
				}
				break
			}
			if err != nil || !resp.IsError || resp.Code != e.Code || resp.Message != e.Message {
				return fail("error-differs", "error on the wire %s, handler returned code %d message %q (%v)", engine.Q(it), e.Code, e.Message, err)
			}
			if len(wantParams) != 0 && string(bytes.TrimSpace(wantParams)) != "null" && !jsonEq(resp.Data, wantParams) {
				return fail("error-data-differs", "error data on the wire %s is not JSON-equal to %s", engine.Q(resp.Data), engine.Q(wantParams))
			}
		}
	}
	nt := strings.ContainsFunc(e.Method+e.Message, func(r rune) bool {
		return !(r >= 'a' && r <= 'z' || r >= 'A' && r <= 'Z' || r >= '0' && r <= '9' || r == '.' || r == '_')
	}) || (e.Raw && bytes.ContainsAny(e.Params, " \n\t\r")) || bytes.ContainsAny(e.Params, "\\<>&") || !isASCII(e.Params)
	return engine.Verdict{NonTrivial: nt, Labels: []string{"via:" + e.Via}}
}

func isASCII(b []byte) bool {
	for _, c := range b {
		if c >= 0x80 {
			return false
		}
	}
	return true
}

func orNull(b []byte) []byte {
	if len(b) == 0 {
		return []byte("null")
	}
	return b
}

func deref(s *string) string {
	if s == nil {
		return "<absent>"
	}
	return *s
}

var runes = []rune{'a', 'Z', '0', '.', '_', '%', 'd', '"', '\\', '/', '\n', '\r', '\t', 0, 0x7f, '<', '>', '&', ' ', ' ', 'é', '😀', ' ', ' ', '�', '\u0085'}

type codedErr struct {
	code jrpc2.Code
	text string
}

func (c codedErr) Error() string       { return c.text }
func (c codedErr) ErrCode() jrpc2.Code { return c.code }

func genText(t *rapid.T, label string, min int) string {
	n := rapid.IntRange(min, 6).Draw(t, label+"len")
	var sb strings.Builder
	for i := 0; i < n; i++ {
		sb.WriteRune(rapid.SampledFrom(runes).Draw(t, label))
	}
	return sb.String()
}

func genJSON(t *rapid.T, depth int, ws bool) string {
	sp := func() string {
		if !ws {
			return ""
		}
		return rapid.SampledFrom([]string{"", "", " ", "\n", "\t\r\n "}).Draw(t, "ws")
	}
	switch rapid.IntRange(0, 8).Draw(t, "vk") {
	case 0:
		return "null"
	case 1:
		return rapid.SampledFrom([]string{"true", "false"}).Draw(t, "b")
	case 2:
		return rapid.SampledFrom([]string{"0", "-0", "1", "-1", "1.5", "1e3", "1E-2", "12345678901234567890", "0.1", "1e308", "-1.7976931348623157e308", "5e-324", "9007199254740993", "2147483648"}).Draw(t, "n")
	case 3, 4:
		b, _ := json.Marshal(genText(t, "s", 0))
		return string(b)
	case 5, 6:
		if depth > 2 {
			return "[]"
		}
		n := rapid.IntRange(0, 3).Draw(t, "alen")
		var xs []string
		for i := 0; i < n; i++ {
			xs = append(xs, sp()+genJSON(t, depth+1, ws)+sp())
		}
		return "[" + strings.Join(xs, ",") + "]"
	default:
		if depth > 2 {
			return "{}"
		}
		n := rapid.IntRange(0, 3).Draw(t, "olen")
		var xs []string
		used := map[string]bool{}
		for i := 0; i < n; i++ {
			k := genText(t, "k", 0)
			if used[k] {
				continue
			}
			used[k] = true
			kb, _ := json.Marshal(k)
			xs = append(xs, sp()+string(kb)+sp()+":"+sp()+genJSON(t, depth+1, ws)+sp())
		}
		return "{" + strings.Join(xs, ",") + "}"
	}
}

func genEmit(t *rapid.T) Emit {
	e := Emit{Via: rapid.SampledFrom([]string{"call", "notify", "batch", "response", "errresponse", "push", "callback", "cbreply", "bridge", "bridgebatch", "bridgeinvalid"}).Draw(t, "via")}
	e.Method = genText(t, "m", 1)
	e.Raw = rapid.Bool().Draw(t, "raw")
	structured := e.Via == "call" || e.Via == "notify" || e.Via == "batch" || e.Via == "push" || e.Via == "callback"
	if rapid.IntRange(0, 5).Draw(t, "noparams") != 0 {
		v := genJSON(t, 0, e.Raw)
		if structured && v[0] != '[' && v[0] != '{' {
			v = "[" + v + "]"
		}
		if e.Raw {
			v = rapid.SampledFrom([]string{"", " ", "\n"}).Draw(t, "lead") + v + rapid.SampledFrom([]string{"", " ", "\n"}).Draw(t, "trail")
		}
		e.Params = json.RawMessage(v)
	}
	e.ID = rapid.SampledFrom([]string{"1", "0", "-0", "1e3", "1.5", `""`, `"1"`, `"a\nb"`, `"😀"`, "12345678901234567890", `"` + strings.Repeat("x", 300) + `"`,
		`"100%"`, `"%s"`, `"50%% off"`, `"a%vb%[2]d"`}).Draw(t, "id")
	if e.Via == "errresponse" || ((e.Via == "cbreply" || e.Via == "bridge" || e.Via == "bridgebatch") && rapid.Bool().Draw(t, "iserr")) {
		e.Code = rapid.SampledFrom([]int{1, -1, -32000, -32099, 2147483647, -2147483648, -32603, 7}).Draw(t, "code")
		if e.Via == "errresponse" && rapid.IntRange(0, 4).Draw(t, "codezero") == 0 {
			e.Code = 0 // an application code like any other: the member "code" is mandatory all the same
		}
		e.Message = genText(t, "msg", 1)
		if rapid.IntRange(0, 7).Draw(t, "nomsg") == 0 {
			e.Message = "" // an error without message text: the member is written all the same (F16) and reads back empty
		}
		if e.Via == "errresponse" && e.Code != -32099 && e.Code != 0 {
			e.Plain = rapid.SampledFrom([]string{"", "", "plain", "coder"}).Draw(t, "plain")
		}
	}
	e.Logger = (e.Via == "response" || e.Via == "errresponse" || (e.Via == "cbreply" && e.Code != 0)) && rapid.IntRange(0, 2).Draw(t, "logger") == 0
	return e
}

// ---- ParseRequests -----------------------------------------------------------------

// Parse is one input for ParseRequests.
type Parse struct {
	Input engine.Bytes `json:"input"`
}

func runParse(_ *testing.T, p Parse) (v engine.Verdict) {
	in := []byte(p.Input)
	defer func() {
		if r := recover(); r != nil {
			v = engine.Failf("C13/parserequests-panic", "ParseRequests(%s) panicked: %v", engine.Q(in), r)
		}
	}()
	prs, err := jrpc2.ParseRequests(in)
	valid := refjson.Valid(in)
	if (err != nil) == valid {
		return engine.Failf("C13/parserequests-top-level-error", "ParseRequests(%s): error=%v but json validity=%v", engine.Q(in), err, valid)
	}
	if !valid {
		return engine.Verdict{NonTrivial: true, Labels: []string{"invalid-json"}}
	}
	exp := refrpc.Classify(refrpc.Config{Builtin: false, Resolve: func(string) bool { return true }}, in)
	var members []refrpc.Member
	if exp.Top == "members" {
		members = exp.Members
	}
	if len(prs) != len(members) {
		return engine.Failf("C13/parserequests-entry-count", "ParseRequests(%s) returned %d entries for %d members", engine.Q(in), len(prs), len(members))
	}
	nt := exp.Batch
	var labels []string
	for i, m := range members {
		pr := prs[i]
		labels = append(labels, "member:"+m.Class.String())
		if m.DontCare != "" {
			labels = append(labels, "dontcare")
			continue
		}
		structurallyInvalid := m.Class == refrpc.NonObject || m.Class == refrpc.Invalid
		// duplicates of ids inside a batch are found by the server at dispatch, not by the parser
		dupOnly := false
		if m.Class == refrpc.Invalid && len(m.Defects) == 1 && m.Defects[0] == "id duplicated within the record" {
			dupOnly = true
		}
		switch {
		case dupOnly:
		case structurallyInvalid && pr.Error == nil:
			return engine.Failf("C13/invalid-member-not-flagged", "ParseRequests(%s): member #%d %s has defects %v but is not flagged", engine.Q(in), i, m.Raw, m.Defects)
		case !structurallyInvalid && pr.Error != nil:
			return engine.Failf("C13/valid-member-flagged", "ParseRequests(%s): member #%d %s is structurally valid but flagged %v", engine.Q(in), i, m.Raw, pr.Error)
		}
		if pr.Error != nil && !dupOnly {
			if c := int(pr.Error.Code); c != -32700 && c != -32600 {
				return engine.Failf("C13/flag-code", "ParseRequests(%s): member #%d flagged with code %d", engine.Q(in), i, c)
			}
			nt = true
		}
		if pr.Error == nil && (m.Class == refrpc.Call || m.Class == refrpc.Notification) {
			if pr.Method != m.Method {
				return engine.Failf("C13/parsed-method-differs", "member #%d: method %q, want %q", i, pr.Method, m.Method)
			}
			if pr.ID != m.IDText {
				return engine.Failf("C13/parsed-id-differs", "member #%d: id %q, want %q", i, pr.ID, m.IDText)
			}
			if len(m.Params) != 0 && !bytes.Equal(pr.Params, m.Params) {
				return engine.Failf("C13/parsed-params-differ", "member #%d: params %s, want %s", i, pr.Params, m.Params)
			}
		}
		// ToRequest (documented): nil for a flagged entry, else an equivalent Request
		switch rq := pr.ToRequest(); {
		case pr.Error != nil && rq != nil:
			return engine.Failf("C13/torequest-for-flagged-entry", "member #%d is flagged (%v) but ToRequest returned a request", i, pr.Error)
		case pr.Error == nil && rq == nil:
			return engine.Failf("C13/torequest-nil", "member #%d is not flagged but ToRequest returned nil", i)
		case pr.Error == nil && (m.Class == refrpc.Call || m.Class == refrpc.Notification):
			// (IsNotification of the converted request is not compared: for an entry
			// without id it reports false at the pinned commit - ToRequest keeps an
			// empty, non-nil id - which contradicts "equivalent" in its doc comment
			// but is outside what C13 states; see DESIGN 12.3d.)
			if rq.Method() != pr.Method || rq.ID() != pr.ID || (len(pr.Params) != 0 && rq.ParamString() != string(pr.Params)) {
				return engine.Failf("C13/torequest-differs", "member #%d: ToRequest gives method %q id %q params %s, the entry has %q %q %s", i, rq.Method(), rq.ID(), rq.ParamString(), pr.Method, pr.ID, pr.Params)
			}
		}
		if m.Class != refrpc.Call {
			nt = true
		}
	}
	return engine.Verdict{NonTrivial: nt, Labels: labels}
}

func enumProduct(env engine.Env, yield func(Parse) bool) {
	for n := 0; n < gen.ProductSize(); n++ {
		if env.Mine(n) && !yield(Parse{Input: engine.Bytes(gen.NthMember(n))}) {
			return
		}
	}
}

func genParse(t *rapid.T) Parse {
	if rapid.IntRange(0, 3).Draw(t, "k") == 0 {
		n := rapid.IntRange(1, 3).Draw(t, "n")
		var ms []string
		for i := 0; i < n; i++ {
			ms = append(ms, gen.NthMember(rapid.IntRange(0, gen.ProductSize()-1).Draw(t, "m")))
		}
		// insignificant white space (all four JSON kinds) around and inside the array
		ws := func() string {
			return rapid.SampledFrom([]string{"", "", " ", "\n", "\r", "\t", "\r\n", " \t\r\n"}).Draw(t, "ws")
		}
		return Parse{Input: engine.Bytes(ws() + "[" + ws() + strings.Join(ms, ws()+","+ws()) + ws() + "]" + ws())}
	}
	if rapid.IntRange(0, 5).Draw(t, "padded") == 0 {
		// JSON white space - and characters that only other standards call white
		// space (VT, FF, NEL, NBSP, BOM): with those the input is no JSON at all
		ws := rapid.SampledFrom([]string{" ", "\n", "\r", "\t", "\r\n", "\v", "\f", "\u0085", "\u00a0", "\ufeff", " \v"}).Draw(t, "ws")
		switch rapid.IntRange(0, 2).Draw(t, "side") {
		case 0:
			return Parse{Input: engine.Bytes(ws + gen.InboundRecord(t))}
		case 1:
			return Parse{Input: engine.Bytes(gen.InboundRecord(t) + ws)}
		}
		return Parse{Input: engine.Bytes(ws + gen.InboundRecord(t) + ws)}
	}
	return Parse{Input: engine.Bytes(gen.InboundRecord(t))}
}

var parts = []engine.AnyPart{
	engine.Part[Emit]{Name: "emit", Run: runEmit, Gen: genEmit,
		Rule: "messages emitted through Client.Call/Notify/Batch, server responses (value and *Error with data), Server.Notify/Callback, the client's callback reply and bridge bodies, for method names and messages over an alphabet with quotes, backslash, C0 controls, DEL, < > &, U+2028/2029, NEL, astral runes, ids incl. -0 / 1e3 / long strings, generated nested params/results incl. extreme numbers, handed in as decoded values or as pre-encoded json.RawMessage with arbitrary insignificant white space; every captured record must be valid UTF-8 without control bytes, valid JSON, carry jsonrpc 2.0 and parse back (independent decoder and the library's own ParseRequests) to the same id / method / JSON-equal payload; non-trivial = a character outside [A-Za-z0-9._] in method/message, non-ASCII or <>&\\ in the payload, or raw pre-encoded JSON with interior white space; distinct = the case"},
	engine.Part[Parse]{Name: "parseproduct", Run: runParse, Enum: enumProduct,
		Rule:           "ParseRequests on EVERY member of the field-variant product (30240 objects): never panics, top-level error iff not valid JSON, one entry per member, flagged iff the reference classifier finds a structural defect, code in {-32700,-32600}; non-trivial = not a plain valid call",
		EnumExhaustive: "the complete product of request-object field variants"},
	engine.Part[Parse]{Name: "parserandom", Run: runParse, Gen: genParse,
		Rule: "ParseRequests on arrays sampled from the product, grammar-generated near-valid objects, arbitrary JSON values, byte mutations of valid requests and deep nesting; oracle as for parseproduct"},
}

func TestProp(t *testing.T)   { engine.RunParts(t, "C13", parts) }
func TestReplay(t *testing.T) { engine.ReplayParts(t, "C13", parts) }
