package c13

import (
	"bytes"
	"context"
	"encoding/json"
	"errors"
	"fmt"
	"io"
	"strings"
	"sync"
	"testing"
	"time"

	"github.com/creachadair/jrpc2"
	"github.com/creachadair/jrpc2/channel"
	"github.com/creachadair/jrpc2/handler"
	"pgregory.net/rapid"

	"verif/harness/engine"
	"verif/harness/ref/refjson"
)

// ConcEmit: several goroutines issue batches (and single calls) on one client
// at once; every record the client hands to its channel must be one of those
// messages, whole, and must not change while Send is in progress.
type ConcEmit struct {
	Workers int `json:"workers"`
	Rounds  int `json:"rounds"`
	MaxSize int `json:"max_size"`
}

type spyChan struct {
	channel.Channel
	mu  sync.Mutex
	bad string
	n   int
}

func (s *spyChan) fail(f string, a ...any) error {
	s.mu.Lock()
	if s.bad == "" {
		s.bad = fmt.Sprintf(f, a...)
	}
	s.mu.Unlock()
	return errors.New("record refused by the observer")
}

func (s *spyChan) Send(b []byte) error {
	cp := append([]byte(nil), b...)
	if why := checkWire(cp); why != "" {
		return s.fail("the client passed %s to Send: %s", engine.Q(clipB(cp)), why)
	}
	items := [][]byte{cp}
	if es, ok := refjson.Elements(cp); ok {
		items = es
	}
	owner := ""
	for _, it := range items {
		var m struct {
			Method string `json:"method"`
			Params struct {
				W, R, N int
				Pad     string
			} `json:"params"`
		}
		if err := json.Unmarshal(it, &m); err != nil || m.Method != "echo" {
			return s.fail("the client passed %s to Send: member %s is not one of the requests issued (%v)", engine.Q(clipB(cp)), engine.Q(clipB(it)), err)
		}
		o := fmt.Sprintf("%d/%d/%d", m.Params.W, m.Params.R, m.Params.N)
		if owner != "" && o != owner {
			return s.fail("the client passed %s to Send: it mixes members of two batches (%s and %s)", engine.Q(clipB(cp)), owner, o)
		}
		owner = o
		if m.Params.N != len(items) {
			return s.fail("the client passed %s to Send: a batch of %d members was issued, the record has %d", engine.Q(clipB(cp)), m.Params.N, len(items))
		}
	}
	s.mu.Lock()
	s.n++
	s.mu.Unlock()
	err := s.Channel.Send(b)
	if !bytes.Equal(b, cp) {
		return s.fail("the record passed to Send changed while Send was in progress: %s became %s", engine.Q(clipB(cp)), engine.Q(clipB(b)))
	}
	return err
}

func clipB(b []byte) []byte {
	if len(b) > 300 {
		return append(append([]byte(nil), b[:300]...), "..."...)
	}
	return b
}

func runConcEmit(_ *testing.T, c ConcEmit) engine.Verdict {
	cpipe, spipe := channel.Direct()
	srv := jrpc2.NewServer(handler.Map{"echo": func(ctx context.Context, req *jrpc2.Request) (any, error) { return 1, nil }}, &jrpc2.ServerOptions{Concurrency: 8}).Start(spipe)
	spy := &spyChan{Channel: cpipe}
	cli := jrpc2.NewClient(spy, nil)
	var wg sync.WaitGroup
	for w := 0; w < c.Workers; w++ {
		wg.Add(1)
		go func(w int) {
			defer wg.Done()
			for r := 0; r < c.Rounds; r++ {
				n := 1 + (w*7+r*3)%c.MaxSize
				var specs []jrpc2.Spec
				for j := 0; j < n; j++ {
					specs = append(specs, jrpc2.Spec{Method: "echo", Params: map[string]any{"W": w, "R": r, "N": n, "Pad": string(bytes.Repeat([]byte{'p'}, (w*13+r*5+j)%97))}})
				}
				// (a generous real-time bound: an answer normally takes microseconds; a
				// batch that is never answered only ends this goroutine - what is judged
				// is what the observer saw)
				ctx, cancel := context.WithTimeout(context.Background(), 3*time.Second)
				_, err := cli.Batch(ctx, specs)
				cancel()
				if err != nil {
					return // the observer refused a record, the client stopped, or no answer came
				}
			}
		}(w)
	}
	wg.Wait()
	cli.Close()
	srv.Stop()
	srv.Wait()
	if spy.bad != "" {
		return engine.Failf("C13/not-one-line-json", "%d goroutines issuing batches on one client: %s", c.Workers, spy.bad)
	}
	return engine.Verdict{NonTrivial: c.Workers > 1, Labels: []string{"concurrent-batches"}, Counts: map[string]int64{"records_observed": int64(spy.n)}}
}

func genConcEmit(t *rapid.T) ConcEmit {
	return ConcEmit{Workers: rapid.IntRange(2, 8).Draw(t, "workers"), Rounds: rapid.IntRange(10, 120).Draw(t, "rounds"), MaxSize: rapid.IntRange(2, 6).Draw(t, "maxsize")}
}

func init() {
	parts = append(parts, engine.Part[ConcEmit]{Name: "concurrent", Run: runConcEmit, Gen: genConcEmit,
		Rule: "2-8 goroutines issue batches of 1-6 calls with paddings of different length on one Client at once (real scheduler); an observer on the channel checks every record at the moment it is passed to Send: valid one-line JSON, all members from one issued batch, member count as issued, and unchanged when Send returns; non-trivial = at least two goroutines; distinct = the case"})
}

// ConcServer: many handlers of one server finish at the same moment; what the
// server writes goes through a header framing (whose Send builds every frame in
// one shared buffer - safe for one sender at a time, which is all the Channel
// contract promises) into a pipe, and the peer decodes the frames again.
type ConcServer struct {
	Calls  int `json:"calls"`
	Rounds int `json:"rounds"`
	Pad    int `json:"pad"`
}

func runConcServer(_ *testing.T, c ConcServer) engine.Verdict {
	for round := 0; round < c.Rounds; round++ {
		cr, sw := io.Pipe() // server -> peer
		sr, cw := io.Pipe() // peer -> server
		srvCh := channel.Header("")(sr, sw)
		peer := channel.Header("")(cr, cw)
		var entered sync.WaitGroup
		entered.Add(c.Calls)
		release := make(chan struct{})
		srv := jrpc2.NewServer(handler.Map{"work": func(ctx context.Context, req *jrpc2.Request) (any, error) {
			var p struct{ N int }
			req.UnmarshalParams(&p)
			entered.Done()
			<-release
			return map[string]any{"n": p.N, "pad": strings.Repeat("r", (p.N*37+round)%(c.Pad+1))}, nil
		}}, &jrpc2.ServerOptions{Concurrency: c.Calls}).Start(srvCh)
		go func() {
			for i := 0; i < c.Calls; i++ {
				peer.Send([]byte(fmt.Sprintf(`{"jsonrpc":"2.0","id":%d,"method":"work","params":{"N":%d}}`, i+1, i)))
			}
		}()
		entered.Wait()
		close(release)
		got := map[int]bool{}
		bad := ""
		done := make(chan struct{})
		go func() {
			defer close(done)
			for len(got) < c.Calls {
				rec, err := peer.Recv()
				if err != nil {
					bad = fmt.Sprintf("after %d of %d replies the peer's framing fails: %v", len(got), c.Calls, err)
					return
				}
				var m struct {
					V      string `json:"jsonrpc"`
					ID     int    `json:"id"`
					Result struct {
						N   int
						Pad string
					} `json:"result"`
				}
				if msg := oneLineJSON(rec); msg != "" {
					bad = fmt.Sprintf("record %s: %s", engine.Q(clipB(rec)), msg)
					return
				}
				if err := json.Unmarshal(rec, &m); err != nil || m.V != "2.0" || m.ID != m.Result.N+1 || got[m.ID] ||
					m.Result.Pad != strings.Repeat("r", (m.Result.N*37+round)%(c.Pad+1)) {
					bad = fmt.Sprintf("record %s is not the reply of one of the %d calls (%v, seen before: %v)", engine.Q(clipB(rec)), c.Calls, err, got[m.ID])
					return
				}
				got[m.ID] = true
			}
		}()
		select {
		case <-done:
		case <-time.After(20 * time.Second):
			// (generous: the replies normally arrive within a millisecond; a torn
			// frame leaves the reader waiting for bytes that never come)
			bad = fmt.Sprintf("only %d of %d replies could be decoded from what the server wrote", len(got), c.Calls)
		}
		srv.Stop()
		cw.Close()
		sw.Close()
		cr.Close()
		sr.Close()
		srv.Wait()
		<-done
		if bad != "" {
			return engine.Failf("C13/not-one-line-json", "%d handlers of one server return at the same moment, replies framed by channel.Header into a pipe: %s", c.Calls, bad)
		}
	}
	return engine.Verdict{NonTrivial: c.Calls > 1, Labels: []string{"concurrent-replies"}, Counts: map[string]int64{"rounds": int64(c.Rounds)}}
}

// oneLineJSON is the universal condition of C13 on one emitted record.
func oneLineJSON(rec []byte) string {
	if !refjson.Valid(rec) {
		return "not valid JSON"
	}
	if bytes.ContainsAny(rec, "\n\r") {
		return "contains a line break"
	}
	return ""
}

func genConcServer(t *rapid.T) ConcServer {
	return ConcServer{Calls: rapid.IntRange(2, 16).Draw(t, "calls"), Rounds: rapid.IntRange(1, 6).Draw(t, "rounds"), Pad: rapid.SampledFrom([]int{0, 7, 200, 5000}).Draw(t, "pad")}
}

func init() {
	parts = append(parts, engine.Part[ConcServer]{Name: "concserver", Run: runConcServer, Gen: genConcServer,
		Rule: "2-16 calls to one server whose handlers all return at the same moment (real scheduler), 1-6 rounds; the server's channel is channel.Header over a pipe, the peer decodes the frames: every reply is valid one-line JSON-RPC, belongs to one of the calls and arrives once; non-trivial = at least two calls; distinct = the case"})
}
