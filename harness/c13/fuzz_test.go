package c13

import (
	"testing"

	"verif/harness/engine"
)

// FuzzParseRequests: coverage-guided search over inputs of ParseRequests with
// the reference-classifier oracle.
func FuzzParseRequests(f *testing.F) {
	for _, s := range []string{
		`{"jsonrpc":"2.0","id":1,"method":"m","params":[1]}`, `[{"jsonrpc":"2.0","method":"n"},{"jsonrpc":"1.0","id":2}]`, `[]`, ` [ ] `, `{`, `nul`, `5`, `"s"`,
		`{"jsonrpc":"2.0","id":[1],"method":"m"}`, `{"jsonrpc":"2.0","id":1,"method":"m","result":1}`, `{"jsonrpc":"2.0","id":1,"error":{"code":1.5,"message":"m"}}`,
		`{"jsonrpc":"2.0","id":1,"method":"m","id":2}`, `{"jsonrpc":"2.0","Method":"m"}`, "{\"jsonrpc\":\"2.0\",\"method\":\"\xff\"}", `{"jsonrpc":"2.0","method":"m","params":null}`,
	} {
		f.Add([]byte(s))
	}
	part := engine.Part[Parse]{Name: "fuzz", Run: runParse}
	f.Fuzz(func(t *testing.T, data []byte) {
		if len(data) > 1<<14 {
			return
		}
		engine.RunOne(t, "C13", part, Parse{Input: engine.Bytes(data)})
	})
}
