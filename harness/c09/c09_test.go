// Package c09 checks property C09: server push (Notify/Callback) delivery,
// matching, timeout and shutdown semantics.
package c09

import (
	"strings"
	"testing"

	"pgregory.net/rapid"

	"verif/harness/engine"
	"verif/harness/gen"
	"verif/harness/oracle"
	"verif/harness/sim"
)

func genCase(t *rapid.T) sim.Scenario { return gen.PushScenario(t) }

func run(t *testing.T, sc sim.Scenario) engine.Verdict {
	h := sim.Run(t, sc)
	probs := oracle.PushCheck(sc, h)
	if h.BubbleErr != "" {
		probs = append(probs, oracle.Problem{Sig: "C09/goroutines-left-or-deadlock", Msg: h.BubbleErr})
	}
	// Replies the peer sends must provoke no message: every response object the
	// server emits must answer a call the peer actually made (counted per id text).
	stopped := false
	for _, s := range sc.Steps {
		if s.Op == "stop" || s.Op == "peerclose" {
			stopped = true
		}
	}
	if sc.Cfg.AllowPush {
		probs = append(probs, oracle.UnsolicitedResponses(h)...)
	}
	for _, p := range probs {
		if strings.HasPrefix(p.Sig, "C09/") {
			return engine.Failf(p.Sig, "%s\nscript:\n%s\nhistory:\n%s", p.Msg, oracle.ScriptText(sc), oracle.HistoryText(h))
		}
	}
	// classification
	var nCallbacks, nReplies, late, dup, unknown, raced, handlerCB, collide int
	seenReply := map[string]int{}
	for i, s := range sc.Steps {
		switch s.Op {
		case "push":
			if s.Push == "callback" {
				nCallbacks++
			}
		case "cbreply":
			nReplies++
			key := s.Push + string(rune('0'+s.K))
			seenReply[key]++
			if seenReply[key] > 1 {
				dup++
			}
			if s.K == 77 {
				unknown++
			}
			if s.Burst || (i > 0 && sc.Steps[i-1].Burst) {
				raced++
			}
		}
	}
	for _, e := range h.Events {
		if e.Kind == "cbret" {
			handlerCB++
		}
		if e.Kind == "cbreply" && strings.HasPrefix(e.ID, "9") {
			late++
		}
		if e.Kind == "sending" && strings.Contains(e.Data, `"method":"ret"`) && strings.Contains(e.Data, `"id":1,`) {
			collide++
		}
	}
	v := engine.Verdict{NonTrivial: sc.Cfg.AllowPush && (nCallbacks+handlerCB >= 2 && nReplies > 0 || dup > 0 || unknown > 0 || late > 0 || raced > 0)}
	lab := func(b bool, s string) {
		if b {
			v.Labels = append(v.Labels, s)
		}
	}
	lab(!sc.Cfg.AllowPush, "push-disabled")
	lab(nCallbacks >= 2, "two-or-more-callbacks")
	lab(dup > 0, "duplicate-reply")
	lab(unknown > 0 || late > 0, "unsolicited-or-late-reply")
	lab(raced > 0, "reply-raced")
	lab(handlerCB > 0, "callback-from-handler")
	lab(stopped, "stop")
	lab(collide > 0, "client-id-collides")
	return v
}

var parts = []engine.AnyPart{
	engine.Part[sim.Scenario]{Name: "scenarios", Run: run, Gen: genCase,
		Rule: "rapid-generated push workloads: Notify/Callback from outside (cancellable / fake-clock deadline contexts) and from inside parked call and notification handlers, peer replies in any order, duplicated, for ids that do not exist, results and errors, the peer's own calls with ids colliding with callback ids, clock advances, Stop / peer close racing; each Callback must return exactly once with the first reply sent for its id, its context's error, or an error after the stop, never another callback's payload; unsolicited, late and duplicate replies provoke no outbound message; non-trivial = push enabled and (two or more callbacks with replies, or a duplicate / unsolicited / late reply, or a reply racing in a burst); distinct = hash of the scenario"},
}

func TestProp(t *testing.T)   { engine.RunParts(t, "C09", parts) }
func TestReplay(t *testing.T) { engine.ReplayParts(t, "C09", parts) }
