package c16

import (
	"context"
	"fmt"
	"testing"

	"github.com/creachadair/jrpc2"
	"github.com/creachadair/jrpc2/handler"

	"verif/harness/engine"
)

// SameName: positional handlers registered in one process for functions whose
// argument types are different types that happen to print alike (two
// function-local types called arg): each handler decodes into its own type.
type SameName struct {
	Order int `json:"order"` // which of the two is registered and called first
}

func posA() jrpc2.Handler {
	type arg struct{ X int }
	return handler.NewPos(func(_ context.Context, a arg) (string, error) { return fmt.Sprint("A:", a.X), nil }, "a")
}

func posB() jrpc2.Handler {
	type arg struct{ Y string }
	return handler.NewPos(func(_ context.Context, a arg) (string, error) { return "B:" + a.Y, nil }, "a")
}

func runSameName(_ *testing.T, c SameName) (v engine.Verdict) {
	defer func() {
		if p := recover(); p != nil {
			v = engine.Failf("C16/wrapper-panics", "two positional handlers whose argument types print alike: %v", p)
		}
	}()
	type reg struct {
		mk     func() jrpc2.Handler
		params string
		want   string
	}
	regs := []reg{{posA, `{"a":{"X":4}}`, "A:4"}, {posB, `[{"Y":"s"}]`, "B:s"}}
	if c.Order == 1 {
		regs[0], regs[1] = regs[1], regs[0]
	}
	for round := 0; round < 2; round++ {
		for _, r := range regs {
			p := r.params
			got, err := r.mk()(context.Background(), makeRequest(&p))
			if err != nil || got != r.want {
				return engine.Failf("C16/wrong-result", "two positional handlers whose argument types are distinct types that print alike (function-local types named arg): params %s gave %v, %v - want %q", r.params, got, err, r.want)
			}
		}
	}
	return engine.Verdict{NonTrivial: true, Labels: []string{"types-that-print-alike"}}
}

func init() {
	parts = append(parts, engine.Part[SameName]{Name: "samename", Run: runSameName,
		Enum: func(env engine.Env, yield func(SameName) bool) {
			for o := 0; o < 2; o++ {
				if env.Mine(o+1) && !yield(SameName{Order: o}) {
					return
				}
			}
		},
		Rule:           "two positional handlers registered in one process for functions whose single argument types are different function-local struct types with the same printed name, in both registration orders, each called with an object and with an array, twice: every call decodes into its own function's type and returns that function's result; every case is non-trivial; distinct = the case",
		EnumExhaustive: "both registration orders"})
}
