// Package c16 checks property C16: handler.Positional / NewPos, Args and Obj.
package c16

import (
	"bytes"
	"context"
	"encoding/json"
	"errors"
	"fmt"
	"reflect"
	"strings"
	"sync"
	"testing"

	"github.com/creachadair/jrpc2"
	"github.com/creachadair/jrpc2/handler"
	"pgregory.net/rapid"

	"verif/harness/c15"
	"verif/harness/engine"
	"verif/harness/ref/refjson"
)

var (
	ctxType = reflect.TypeOf((*context.Context)(nil)).Elem()
	errType = reflect.TypeOf((*error)(nil)).Elem()
)

// PosCase: a positional function with its names, one params value.
type PosCase struct {
	Args     []c15.TypeDesc `json:"args"`
	Names    []string       `json:"names"`
	Variadic bool           `json:"variadic,omitempty"`
	Result   *c15.TypeDesc  `json:"result,omitempty"`
	WithErr  bool           `json:"with_err,omitempty"`
	Params   *string        `json:"params"`
	RetErr   bool           `json:"ret_err,omitempty"`
	Workers  int            `json:"workers,omitempty"` // >0: concurrent calls with per-call distinct params (Params ignored)
	// Later: after the handler under test has been made, the same FuncInfo is
	// reconfigured (SetStrict(false), AllowArray(false)) and wrapped again: the
	// handler made first keeps what it was made with.
	Later bool `json:"later,omitempty"`
	// Prev: parameters of a request the same handler served before (its outcome
	// is not judged): every request is decoded on its own, nothing is left over.
	Prev *string `json:"prev,omitempty"`
}

func makeRequest(params *string) *jrpc2.Request {
	text := `{"jsonrpc":"2.0","id":1,"method":"m"}`
	if params != nil {
		text = `{"jsonrpc":"2.0","id":1,"method":"m","params":` + *params + `}`
	}
	prs, err := jrpc2.ParseRequests([]byte(text))
	if err != nil || len(prs) != 1 || prs[0].Error != nil {
		return nil
	}
	return prs[0].ToRequest()
}

// decodeBoth decodes raw into a fresh value of type t leniently and strictly.
func decodeBoth(t reflect.Type, raw []byte) (v reflect.Value, ok, agree bool) {
	a := reflect.New(t)
	errA := json.Unmarshal(raw, a.Interface())
	b := reflect.New(t)
	dec := json.NewDecoder(bytes.NewReader(raw))
	dec.DisallowUnknownFields()
	errB := dec.Decode(b.Interface())
	return a.Elem(), errA == nil, (errA == nil) == (errB == nil)
}

// refPositional: the documented behaviour, element by element.
func refPositional(types []reflect.Type, names []string, params []byte) (args []reflect.Value, ok bool, dontcare string) {
	n := len(types)
	zero := func() []reflect.Value {
		out := make([]reflect.Value, n)
		for i, t := range types {
			out[i] = reflect.Zero(t)
		}
		return out
	}
	if len(params) == 0 {
		return nil, false, "absent or null params for a positional function"
	}
	p := bytes.TrimSpace(params)
	switch p[0] {
	case '[':
		elems, _ := refjson.Elements(p)
		if len(elems) != n {
			return nil, false, ""
		}
		out := zero()
		for i, e := range elems {
			v, ok, agree := decodeBoth(types[i], e)
			if !agree {
				return nil, false, "unknown key nested inside a struct-typed argument"
			}
			if !ok {
				return nil, false, ""
			}
			out[i] = v
		}
		return out, true, ""
	case '{':
		ms, _ := refjson.Members(p)
		out := zero()
		seen := map[string]bool{}
		for _, m := range ms {
			if seen[m.Key] {
				return nil, false, "duplicate keys in params"
			}
			seen[m.Key] = true
			idx := -1
			for i, name := range names {
				if name == m.Key {
					idx = i
				} else if strings.EqualFold(name, m.Key) {
					return nil, false, "key differing from a name only by case"
				}
			}
			if idx < 0 {
				return nil, false, ""
			}
			v, ok, agree := decodeBoth(types[idx], m.Value)
			if !agree {
				return nil, false, "unknown key nested inside a struct-typed argument"
			}
			if !ok {
				return nil, false, ""
			}
			out[idx] = v
		}
		return out, true, ""
	}
	return nil, false, ""
}

func runPos(_ *testing.T, c PosCase) engine.Verdict {
	n := len(c.Args)
	in := []reflect.Type{ctxType}
	var types []reflect.Type
	for _, a := range c.Args {
		types = append(types, a.Type())
	}
	in = append(in, types...)
	variadic := c.Variadic && n > 0 && types[n-1].Kind() == reflect.Slice
	var out []reflect.Type
	if c.Result != nil {
		out = append(out, c.Result.Type())
	}
	if c.WithErr || c.Result == nil {
		out = append(out, errType)
	}
	ft := reflect.FuncOf(in, out, variadic)
	retErr := errors.New("function failed")
	var mu sync.Mutex
	var calls [][]reflect.Value
	fv := reflect.MakeFunc(ft, func(args []reflect.Value) []reflect.Value {
		mu.Lock()
		calls = append(calls, append([]reflect.Value(nil), args[1:]...))
		mu.Unlock()
		outs := make([]reflect.Value, len(out))
		for i := range outs {
			outs[i] = reflect.Zero(out[i])
		}
		if c.RetErr && len(out) > 0 && out[len(out)-1] == errType {
			outs[len(out)-1] = reflect.ValueOf(&retErr).Elem()
		}
		return outs
	})
	var fi *handler.FuncInfo
	var err error
	if p := func() (p any) {
		defer func() { p = recover() }()
		fi, err = handler.Positional(fv.Interface(), c.Names...)
		return nil
	}(); p != nil {
		return engine.Failf("C16/positional-panics", "Positional panicked: %v (%+v)", p, c)
	}
	wantAccept := !variadic && len(c.Names) == n
	if n == 0 {
		wantAccept = len(c.Names) == 0 || true // func(ctx) is handed to Check; names are not looked at
	}
	if (err == nil) != wantAccept {
		return engine.Failf("C16/positional-acceptance", "Positional(%s, names %q) err=%v, want accept=%v", ft, c.Names, err, wantAccept)
	}
	if err != nil || n == 0 {
		return engine.Verdict{NonTrivial: err != nil, Labels: []string{"rejected-or-nullary"}}
	}
	h := fi.Wrap()
	if c.Later {
		_ = fi.SetStrict(false).AllowArray(false).Wrap()
	}
	if c.Workers > 0 {
		return runConcurrent(c, h, types, &mu, &calls)
	}
	req := makeRequest(c.Params)
	if req == nil {
		return engine.Verdict{Labels: []string{"skipped:params-not-structured"}}
	}
	var res any
	var herr error
	if p := func() (p any) {
		defer func() { p = recover() }()
		if c.Prev != nil {
			if preq := makeRequest(c.Prev); preq != nil {
				h(context.Background(), preq)
				mu.Lock()
				calls = nil
				mu.Unlock()
			}
		}
		res, herr = h(context.Background(), req)
		return nil
	}(); p != nil {
		return engine.Failf("C16/wrapper-panics", "the positional handler panicked: %v (%+v)", p, c)
	}
	var params []byte
	if c.Params != nil && *c.Params != "null" {
		params = []byte(*c.Params)
	}
	want, ok, dc := refPositional(types, c.Names, params)
	if dc != "" {
		return engine.Verdict{Labels: []string{"dontcare:" + dc}}
	}
	labels := []string{fmt.Sprintf("arity:%d", n)}
	if !ok {
		if len(calls) != 0 {
			return engine.Failf("C16/called-with-bad-params", "params %s are not acceptable for %s with names %q, but the function was called with %s", params, ft, c.Names, showAll(calls[0]))
		}
		if herr == nil || jrpc2.ErrorCode(herr) != jrpc2.InvalidParams {
			return engine.Failf("C16/wrong-error", "params %s for %s names %q: want InvalidParams, got result %v err %v", params, ft, c.Names, res, herr)
		}
		labels = append(labels, "rejected-params")
	} else {
		if len(calls) != 1 {
			return engine.Failf("C16/call-count", "params %s are acceptable for %s names %q but the function was called %d times (err %v)", params, ft, c.Names, len(calls), herr)
		}
		for i := range want {
			if !reflect.DeepEqual(calls[0][i].Interface(), want[i].Interface()) {
				return engine.Failf("C16/argument-differs", "params %s: argument %d is %s, element-wise encoding/json gives %s", params, i, show(calls[0][i]), show(want[i]))
			}
		}
		if c.RetErr && len(out) > 0 && out[len(out)-1] == errType {
			if herr != retErr {
				return engine.Failf("C16/error-not-passed-through", "function returned %v, wrapper returned %v", retErr, herr)
			}
		} else if herr != nil {
			return engine.Failf("C16/spurious-error", "wrapper returned %v", herr)
		}
	}
	nt := false
	if len(params) > 0 {
		switch params[0] {
		case '[':
			els, _ := refjson.Elements(params)
			nt = n >= 2 && len(els) != n || bytes.Contains(params, []byte("null"))
		case '{':
			ms, _ := refjson.Members(params)
			nt = len(ms) != n || !ok
		}
	}
	return engine.Verdict{NonTrivial: nt, Labels: labels}
}

func showAll(vs []reflect.Value) string {
	var xs []string
	for _, v := range vs {
		xs = append(xs, show(v))
	}
	return "(" + strings.Join(xs, ", ") + ")"
}

func show(v reflect.Value) string {
	b, err := json.Marshal(v.Interface())
	if err != nil {
		return fmt.Sprintf("%#v", v.Interface())
	}
	return fmt.Sprintf("%s (%s)", b, v.Type())
}

// runConcurrent: overlapping calls of one positional handler; each call must see its own arguments.
func runConcurrent(c PosCase, h jrpc2.Handler, types []reflect.Type, mu *sync.Mutex, calls *[][]reflect.Value) engine.Verdict {
	// only integer first arguments are used to tell calls apart
	if types[0].Kind() != reflect.Int {
		return engine.Verdict{Labels: []string{"skipped:concurrent-needs-int-first"}}
	}
	const per = 200
	var wg sync.WaitGroup
	var bad sync.Map
	for w := 0; w < c.Workers; w++ {
		wg.Add(1)
		go func(w int) {
			defer wg.Done()
			for i := 0; i < per; i++ {
				tag := w*per + i + 1
				elems := []string{fmt.Sprint(tag)}
				for j := 1; j < len(types); j++ {
					if types[j].Kind() == reflect.Int {
						elems = append(elems, fmt.Sprint(tag))
					} else {
						elems = append(elems, "null")
					}
				}
				p := "[" + strings.Join(elems, ",") + "]"
				if _, err := h(context.Background(), makeRequest(&p)); err != nil && !c.RetErr {
					bad.Store(tag, err.Error())
				}
			}
		}(w)
	}
	wg.Wait()
	mu.Lock()
	defer mu.Unlock()
	seen := map[int]int{}
	for _, args := range *calls {
		tag := int(args[0].Int())
		seen[tag]++
		for j := 1; j < len(args); j++ {
			if args[j].Kind() == reflect.Int && int(args[j].Int()) != tag {
				return engine.Failf("C16/arguments-mixed-between-calls", "a call received arguments of two different requests: first=%d, argument %d=%d", tag, j, args[j].Int())
			}
		}
	}
	for tag := 1; tag <= c.Workers*per; tag++ {
		if seen[tag] != 1 {
			return engine.Failf("C16/arguments-mixed-between-calls", "request with tag %d was delivered to the function %d times (some other call got its arguments)", tag, seen[tag])
		}
	}
	var firstBad string
	bad.Range(func(k, v any) bool { firstBad = fmt.Sprint(k, ": ", v); return false })
	if firstBad != "" {
		return engine.Failf("C16/concurrent-call-failed", "concurrent call failed: %s", firstBad)
	}
	return engine.Verdict{NonTrivial: true, Labels: []string{"concurrent"}}
}

func genNames(t *rapid.T, n int) []string {
	pool := []string{"a", "b", "c", "first", "second", "x1", "Val", "n", "q", "zeta"}
	perm := rapid.Permutation(pool).Draw(t, "names")
	return perm[:n]
}

func genPos(t *rapid.T) PosCase {
	c := PosCase{}
	n := rapid.SampledFrom([]int{0, 1, 1, 2, 2, 2, 3, 3, 4, 5, 6}).Draw(t, "arity")
	for i := 0; i < n; i++ {
		c.Args = append(c.Args, c15.GenType(t, 1, i == 0 && rapid.Bool().Draw(t, "structarg")))
	}
	c.Names = genNames(t, n)
	c.Later = rapid.IntRange(0, 4).Draw(t, "later") == 0
	switch rapid.IntRange(0, 23).Draw(t, "namecount") {
	case 0:
		if n > 0 {
			c.Names = c.Names[:n-1]
		}
	case 1:
		c.Names = append(c.Names, "extra")
	case 2:
		c.Variadic = true
	}
	switch rapid.IntRange(0, 2).Draw(t, "resk") {
	case 0:
		c.WithErr = true
	case 1:
		r := c15.GenType(t, 1, false)
		c.Result = &r
	default:
		r := c15.GenType(t, 1, false)
		c.Result = &r
		c.WithErr = true
	}
	c.RetErr = rapid.IntRange(0, 3).Draw(t, "reterr") == 0
	p := func(s string) *string { return &s }
	var elems []string
	for _, a := range c.Args {
		if rapid.IntRange(0, 5).Draw(t, "nullelem") == 0 {
			elems = append(elems, "null")
		} else {
			elems = append(elems, c15.GenJSON(t, a))
		}
	}
	if len(elems) > 0 && rapid.IntRange(0, 3).Draw(t, "prev") == 0 {
		// an earlier request: every position given, one of them perhaps wrongly typed
		pe := make([]string, len(elems))
		for i, a := range c.Args {
			pe[i] = c15.GenJSON(t, a)
		}
		if rapid.Bool().Draw(t, "prevbad") {
			pe[len(pe)-1] = `{"zz":[1]}`
		}
		c.Prev = p("[" + strings.Join(pe, ",") + "]")
	}
	switch rapid.IntRange(0, 9).Draw(t, "pk") {
	case 0:
		c.Params = nil
	case 1:
		c.Params = p("null")
	case 2:
		c.Params = p("[]")
	case 3: // one short
		if len(elems) > 0 {
			c.Params = p("[" + strings.Join(elems[:len(elems)-1], ",") + "]")
		} else {
			c.Params = p("[1]")
		}
	case 4: // one long
		c.Params = p("[" + strings.Join(append(elems, "1"), ",") + "]")
	case 5: // wrong element type somewhere
		if len(elems) > 0 {
			elems[rapid.IntRange(0, len(elems)-1).Draw(t, "wrong")] = rapid.SampledFrom([]string{`{"zz":[1]}`, `"str"`, `[[1]]`, `1.5`, `5.0`, `1e2`, `18446744073709551616`}).Draw(t, "wv")
		}
		c.Params = p("[" + strings.Join(elems, ",") + "]")
	case 6, 7: // object over a subset / superset of the names
		var kv []string
		for i := range c.Args {
			if i < len(c.Names) && rapid.IntRange(0, 3).Draw(t, "keep") != 0 {
				kv = append(kv, fmt.Sprintf("%q:%s", c.Names[i], elems[i]))
			}
		}
		if rapid.IntRange(0, 3).Draw(t, "unknownkey") == 0 {
			kv = append(kv, `"nosuchname":1`)
		}
		c.Params = p("{" + strings.Join(kv, ",") + "}")
	default:
		c.Params = p("[" + strings.Join(elems, ",") + "]")
	}
	return c
}

func genConcurrent(t *rapid.T) PosCase {
	n := rapid.IntRange(1, 4).Draw(t, "arity")
	c := PosCase{Workers: rapid.IntRange(2, 8).Draw(t, "workers"), WithErr: true}
	for i := 0; i < n; i++ {
		k := "int"
		if i > 0 && rapid.Bool().Draw(t, "other") {
			k = rapid.SampledFrom([]string{"string", "any", "bool"}).Draw(t, "ok")
		}
		c.Args = append(c.Args, c15.TypeDesc{K: k})
	}
	c.Names = genNames(t, n)
	return c
}

// ---- Args and Obj ----------------------------------------------------------------

// ArgsCase exercises handler.Args (positional targets) or handler.Obj (keyed targets).
type ArgsCase struct {
	Kind  string         `json:"kind"` // args | obj | marshal
	Types []c15.TypeDesc `json:"types"`
	Nil   []bool         `json:"nil,omitempty"` // args: nil slots
	Keys  []string       `json:"keys,omitempty"`
	Prior []string       `json:"prior,omitempty"` // JSON of the values the targets hold before decoding
	Input string         `json:"input"`
	// Special (marshal): a slot holding a value of a kind with encoding rules of
	// its own: rawnil rawempty rawtext ptrnil marshaler
	Special []string `json:"special,omitempty"`
}

type selfMarshaler struct{ s string }

func (m selfMarshaler) MarshalJSON() ([]byte, error) { return json.Marshal("<" + m.s + ">") }

func specialValue(kind string) (any, bool) {
	switch kind {
	case "rawnil":
		return json.RawMessage(nil), true
	case "rawempty":
		return json.RawMessage{}, true
	case "rawtext":
		return json.RawMessage(` {"a": [1, 2]} `), true
	case "ptrnil":
		return (*int)(nil), true
	case "marshaler":
		return selfMarshaler{"m"}, true
	}
	return nil, false
}

func runArgs(_ *testing.T, c ArgsCase) (v engine.Verdict) {
	defer func() {
		if p := recover(); p != nil {
			v = engine.Failf("C16/args-obj-panic", "%s: panicked: %v (%+v)", c.Kind, p, c)
		}
	}()
	n := len(c.Types)
	targets := make([]reflect.Value, n)
	priors := make([]any, n)
	for i, td := range c.Types {
		targets[i] = reflect.New(td.Type())
		if i < len(c.Prior) && c.Prior[i] != "" {
			json.Unmarshal([]byte(c.Prior[i]), targets[i].Interface())
		}
		priors[i] = reflect.ValueOf(deepCopy(targets[i].Elem().Interface())).Interface()
	}
	in := []byte(c.Input)
	switch c.Kind {
	case "marshal":
		a := make(handler.Args, n)
		for i := range a {
			if sv, ok := specialValue(at(c.Special, i)); ok {
				a[i] = sv
			} else if i < len(c.Nil) && c.Nil[i] {
				a[i] = nil
			} else {
				a[i] = targets[i].Elem().Interface()
			}
		}
		got, err := json.Marshal(a)
		if _, rerr := json.Marshal([]any(a)); rerr != nil {
			// a slot that encoding/json itself cannot encode (an empty RawMessage)
			if err == nil {
				return engine.Failf("C16/args-marshal", "Args with a slot that cannot be encoded (%v) marshalled to %s", rerr, got)
			}
			return engine.Verdict{NonTrivial: true, Labels: []string{"marshal", "marshal:unencodable-slot"}}
		}
		if err != nil {
			return engine.Failf("C16/args-marshal", "Args.MarshalJSON failed: %v", err)
		}
		elems, ok := refjson.Elements(got)
		if !ok || len(elems) != n {
			return engine.Failf("C16/args-marshal", "Args of %d slots marshalled to %s", n, got)
		}
		for i, e := range elems {
			want, _ := json.Marshal(a[i])
			if !refjson.Equal(e, want) {
				return engine.Failf("C16/args-marshal", "slot %d marshalled to %s, json.Marshal gives %s", i, e, want)
			}
		}
		return engine.Verdict{NonTrivial: n >= 2, Labels: []string{"marshal"}}
	case "args":
		a := make(handler.Args, n)
		for i := range a {
			if i < len(c.Nil) && c.Nil[i] {
				a[i] = nil
			} else {
				a[i] = targets[i].Interface()
			}
		}
		err := json.Unmarshal(in, &a)
		// reference: an array of exactly n elements each decodable into its non-nil slot
		elems, isArr := refjson.Elements(in)
		wantOK := isArr && len(elems) == n
		var want []reflect.Value
		if wantOK {
			for i, e := range elems {
				if a[i] == nil {
					want = append(want, reflect.Value{})
					continue
				}
				w := reflect.New(c.Types[i].Type())
				if i < len(c.Prior) && c.Prior[i] != "" {
					json.Unmarshal([]byte(c.Prior[i]), w.Interface())
				}
				if json.Unmarshal(e, w.Interface()) != nil {
					wantOK = false
				}
				want = append(want, w.Elem())
			}
		}
		if !json.Valid(in) {
			return engine.Verdict{Labels: []string{"skipped:invalid-json"}}
		}
		if strings.TrimSpace(c.Input) == "null" {
			return engine.Verdict{Labels: []string{"dontcare:null-for-args"}}
		}
		if (err == nil) != wantOK {
			return engine.Failf("C16/args-acceptance", "Args(%d slots).UnmarshalJSON(%s): err=%v, want success=%v", n, in, err, wantOK)
		}
		if err == nil {
			for i := range a {
				if a[i] == nil {
					if !reflect.DeepEqual(targets[i].Elem().Interface(), priors[i]) {
						return engine.Failf("C16/args-nil-slot-touched", "slot %d is nil in Args but its variable changed", i)
					}
					continue
				}
				if !reflect.DeepEqual(targets[i].Elem().Interface(), want[i].Interface()) {
					return engine.Failf("C16/args-value", "slot %d decoded to %s, json.Unmarshal gives %s", i, show(targets[i].Elem()), show(want[i]))
				}
			}
		}
		nils := 0
		for _, b := range c.Nil {
			if b {
				nils++
			}
		}
		return engine.Verdict{NonTrivial: (n >= 2 && isArr && len(elems) != n) || nils > 0, Labels: []string{"args"}}
	case "obj":
		o := handler.Obj{}
		for i, k := range c.Keys {
			o[k] = targets[i].Interface()
		}
		err := json.Unmarshal(in, &o)
		if !json.Valid(in) {
			return engine.Verdict{Labels: []string{"skipped:invalid-json"}}
		}
		ms, isObj := refjson.Members(in)
		if !isObj {
			if err == nil && strings.TrimSpace(c.Input) != "null" {
				return engine.Failf("C16/obj-accepts-non-object", "Obj.UnmarshalJSON(%s) succeeded", in)
			}
			return engine.Verdict{NonTrivial: true, Labels: []string{"obj-nonobject"}}
		}
		present := map[string][]byte{}
		dup := false
		for _, m := range ms {
			if _, ok := present[m.Key]; ok {
				dup = true
			}
			present[m.Key] = m.Value
		}
		if dup {
			return engine.Verdict{Labels: []string{"dontcare:duplicate-keys"}}
		}
		wantOK := true
		want := make([]reflect.Value, n)
		for i, k := range c.Keys {
			w := reflect.New(c.Types[i].Type())
			if i < len(c.Prior) && c.Prior[i] != "" {
				json.Unmarshal([]byte(c.Prior[i]), w.Interface())
			}
			if raw, ok := present[k]; ok {
				if json.Unmarshal(raw, w.Interface()) != nil {
					wantOK = false
				}
			}
			want[i] = w.Elem()
		}
		if (err == nil) != wantOK {
			return engine.Failf("C16/obj-acceptance", "Obj%v.UnmarshalJSON(%s): err=%v, want success=%v", c.Keys, in, err, wantOK)
		}
		missing := 0
		for i, k := range c.Keys {
			if _, ok := present[k]; !ok {
				missing++
				if !reflect.DeepEqual(targets[i].Elem().Interface(), priors[i]) {
					return engine.Failf("C16/obj-absent-key-touched", "key %q is absent from %s but its target changed from %v to %s", k, in, priors[i], show(targets[i].Elem()))
				}
			} else if err == nil && !reflect.DeepEqual(targets[i].Elem().Interface(), want[i].Interface()) {
				return engine.Failf("C16/obj-value", "key %q decoded to %s, json.Unmarshal gives %s", k, show(targets[i].Elem()), show(want[i]))
			}
		}
		return engine.Verdict{NonTrivial: missing > 0 || len(present) > len(c.Keys), Labels: []string{"obj"}}
	}
	return engine.Verdict{}
}

func deepCopy(v any) any {
	b, err := json.Marshal(v)
	if err != nil {
		return v
	}
	out := reflect.New(reflect.TypeOf(v))
	if json.Unmarshal(b, out.Interface()) != nil {
		return v
	}
	// keep nil-ness of maps/slices as the original
	if reflect.DeepEqual(out.Elem().Interface(), v) {
		return out.Elem().Interface()
	}
	return v
}

func at(xs []string, i int) string {
	if i < len(xs) {
		return xs[i]
	}
	return ""
}

func genArgs(t *rapid.T) ArgsCase {
	c := ArgsCase{Kind: rapid.SampledFrom([]string{"args", "args", "obj", "obj", "marshal"}).Draw(t, "kind")}
	n := rapid.IntRange(0, 6).Draw(t, "n")
	keys := rapid.Permutation([]string{"a", "b", "c", "dd", "E", "f1"}).Draw(t, "keys")
	var elems []string
	for i := 0; i < n; i++ {
		td := c15.GenType(t, 1, false)
		if td.K == "raw" || td.K == "any" || td.K == "ptr" {
			td = c15.TypeDesc{K: "int"}
		}
		c.Types = append(c.Types, td)
		c.Nil = append(c.Nil, c.Kind != "obj" && rapid.IntRange(0, 4).Draw(t, "nilslot") == 0)
		c.Keys = append(c.Keys, keys[i])
		if c.Kind == "marshal" {
			c.Special = append(c.Special, rapid.SampledFrom([]string{"", "", "", "rawnil", "rawempty", "rawtext", "ptrnil", "marshaler"}).Draw(t, "special"))
		}
		c.Prior = append(c.Prior, c15.GenJSON(t, td))
		elems = append(elems, c15.GenJSON(t, td))
	}
	switch c.Kind {
	case "args", "marshal":
		switch rapid.IntRange(0, 6).Draw(t, "ik") {
		case 0:
			if len(elems) > 0 {
				elems = elems[:len(elems)-1]
			}
		case 1:
			elems = append(elems, "1")
		case 2:
			if len(elems) > 0 {
				elems[rapid.IntRange(0, len(elems)-1).Draw(t, "wrong")] = `{"zz":1}`
			}
		case 3:
			c.Input = rapid.SampledFrom([]string{`{}`, `null`, `5`, `"x"`}).Draw(t, "nonarr")
			return c
		}
		c.Input = "[" + strings.Join(elems, ",") + "]"
	case "obj":
		var kv []string
		for i := range c.Types {
			if rapid.IntRange(0, 2).Draw(t, "present") != 0 {
				kv = append(kv, fmt.Sprintf("%q:%s", c.Keys[i], elems[i]))
			} else if rapid.IntRange(0, 2).Draw(t, "casevariant") == 0 {
				// a member whose name differs from the key in letter case only: another
				// name, so the key is absent (Obj keys are map keys, not struct fields)
				k := strings.ToUpper(c.Keys[i])
				if k == c.Keys[i] {
					k = strings.ToLower(k)
				}
				kv = append(kv, fmt.Sprintf("%q:%s", k, rapid.SampledFrom([]string{elems[i], `{"zz":1}`, `"str"`}).Draw(t, "cv")))
			}
		}
		if rapid.IntRange(0, 3).Draw(t, "extra") == 0 {
			kv = append(kv, `"unrelated":[1,2]`)
		}
		if rapid.IntRange(0, 9).Draw(t, "nonobj") == 0 {
			c.Input = rapid.SampledFrom([]string{`[]`, `5`, `"x"`, `[{"a":1}]`}).Draw(t, "nonobjv")
			return c
		}
		c.Input = "{" + strings.Join(kv, ",") + "}"
	}
	return c
}

var parts = []engine.AnyPart{
	engine.Part[PosCase]{Name: "positional", Run: runPos, Gen: genPos,
		Rule: "functions func(ctx, X1..Xn) of arity 0-6 over the C15 type grammar with n names (also one name short / one too many / variadic for the rejection side), results error / Y / (Y, error); params: arrays of length n-1, n, n+1 and 0, nulls at any position, wrong element types, objects over subsets and supersets of the names, null and absent; oracle = element-wise encoding/json (array: exactly n elements, element i into Xi; object: keys among the names, missing names zero) independent of the synthetic-struct implementation; non-trivial = n >= 2 with array length != n, or an object with a missing / unknown key, or a null element; distinct = the case"},
	engine.Part[PosCase]{Name: "concurrent", Run: runPos, Gen: genConcurrent,
		Rule: "2-8 goroutines x 200 overlapping calls of ONE positional handler, every request tagged with a distinct integer in each integer argument: every call must receive exactly its own request's arguments; non-trivial by construction"},
	engine.Part[ArgsCase]{Name: "argsobj", Run: runArgs, Gen: genArgs,
		Rule: "handler.Args with 0-6 typed targets and nil slots decoding arrays of length n-1 / n / n+1, wrong element types and non-arrays, and marshalling back; handler.Obj with 0-6 keyed targets decoding objects over subsets / supersets of the keys (also members that differ from a key in letter case only) and non-objects, targets holding prior values; oracle = element-wise json.Unmarshal, untouched targets compared with their prior value; non-trivial = length mismatch, nil slot, missing or extra key; distinct = the case"},
}

func TestProp(t *testing.T)   { engine.RunParts(t, "C16", parts) }
func TestReplay(t *testing.T) { engine.ReplayParts(t, "C16", parts) }
