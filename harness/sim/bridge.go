package sim

import (
	"context"
	"encoding/json"
	"fmt"
	"net/http/httptest"
	"sort"
	"strconv"
	"strings"
	"sync"
	"sync/atomic"
	"testing"
	"testing/synctest"

	"github.com/creachadair/jrpc2"
	"github.com/creachadair/jrpc2/jhttp"

	"verif/harness/engine"
)

// BStep is one step of a bridge scenario.
type BStep struct {
	Op     string       `json:"op"`          // http | release
	K      int          `json:"k,omitempty"` // http: request serial; release: nonce
	Method string       `json:"method,omitempty"`
	CType  string       `json:"ctype,omitempty"`
	Body   engine.Bytes `json:"body,omitempty"`
	Out    string       `json:"out,omitempty"`
	Burst  bool         `json:"burst,omitempty"`
	// Chunked: the POST declares no length (Transfer-Encoding: chunked, what an
	// HTTP client does for a body of unknown size).
	Chunked bool `json:"chunked,omitempty"`
}

func (s BStep) String() string {
	b := ""
	if s.Burst {
		b = "~"
	}
	if s.Op == "http" {
		ch := ""
		if s.Chunked {
			ch = " (chunked)"
		}
		return fmt.Sprintf("%shttp #%d %s %q%s %s", b, s.K, s.Method, s.CType, ch, s.Body)
	}
	return fmt.Sprintf("%srelease k=%d %s", b, s.K, s.Out)
}

// BScenario is a bridge configuration plus script.
type BScenario struct {
	Concurrency int     `json:"concurrency,omitempty"`
	AllowPush   bool    `json:"allow_push,omitempty"` // the bridge's server is push-enabled (nothing pushes: callers see no difference)
	GetHook     bool    `json:"get_hook,omitempty"`   // BridgeOptions.ParseGETRequest is set (GET goes to a Getter); there is still no ParseRequest hook, so everything else is gated as before
	Salt        uint64  `json:"salt,omitempty"`
	Pins        []Pin   `json:"pins,omitempty"`
	NoHooks     bool    `json:"no_hooks,omitempty"`
	Steps       []BStep `json:"steps"`
}

// BEvent is one entry of a bridge history.
type BEvent struct {
	Seq    int    `json:"seq"`
	Step   int    `json:"step"`
	Kind   string `json:"kind"` // http-start http-ret enter exit quiesce
	K      int    `json:"k,omitempty"`
	Inv    int    `json:"inv,omitempty"`
	Status int    `json:"status,omitempty"`
	Body   string `json:"body,omitempty"`
	Method string `json:"method,omitempty"`
	ID     string `json:"id,omitempty"`
	Note   bool   `json:"note,omitempty"`
	Params string `json:"params,omitempty"`
	Ret    string `json:"ret,omitempty"`
	CType  string `json:"ctype,omitempty"`
	Parked []int  `json:"parked,omitempty"`
}

// BHistory is what a bridge scenario produced.
type BHistory struct {
	Events    []BEvent
	BubbleErr string
}

// RunBridge executes the scenario in a bubble, driving Bridge.ServeHTTP in-process.
func RunBridge(t *testing.T, sc BScenario) (h *BHistory) {
	h = &BHistory{}
	defer func() {
		if p := recover(); p != nil {
			h.BubbleErr = fmt.Sprint(p)
		}
	}()
	// Both ends of the inner connection are library code here: a reader that
	// sleeps between two Recv calls would leave the peer blocked in Send under
	// its mutex while further senders wait for that mutex, which the bubble
	// does not count as durably blocked. No delays at the reader sites.
	sched := &Sched{Salt: sc.Salt, Pins: sc.Pins, Off: sc.NoHooks, Skip: map[string]bool{"srv.read.recv": true, "cli.accept.recv": true}}
	sched.Install()
	defer sched.Remove()
	var mu sync.Mutex
	var events []BEvent
	step := 0
	log := func(e BEvent) {
		mu.Lock()
		e.Seq = len(events)
		e.Step = step
		events = append(events, e)
		mu.Unlock()
	}
	defer func() {
		mu.Lock()
		h.Events = append([]BEvent(nil), events...)
		mu.Unlock()
	}()
	synctest.Test(t, func(t *testing.T) {
		gates := map[int]chan string{}
		parked := map[int]bool{}
		gate := func(k int) chan string {
			mu.Lock()
			defer mu.Unlock()
			if gates[k] == nil {
				gates[k] = make(chan string, 4)
			}
			return gates[k]
		}
		drain := make(chan struct{})
		var invs atomic.Int32
		assign := assignFunc(func(ctx context.Context, method string) jrpc2.Handler {
			if !Known[method] {
				return nil
			}
			return func(ctx context.Context, req *jrpc2.Request) (any, error) {
				p := decodeParams(req)
				inv := int(invs.Add(1))
				mu.Lock()
				parked[p.K] = true
				mu.Unlock()
				log(BEvent{Kind: "enter", K: p.K, Inv: inv, Method: method, ID: req.ID(), Note: req.IsNotification(), Params: req.ParamString()})
				ret := "ok"
				defer func() {
					mu.Lock()
					delete(parked, p.K)
					mu.Unlock()
					log(BEvent{Kind: "exit", K: p.K, Inv: inv, Method: method, Ret: ret})
				}()
				tok := Token{K: p.K, Inv: inv}
				switch method {
				case "ret", "svc.ret", "rpcret":
					return tok, nil
				case "err":
					ret = fmt.Sprintf("err:%d", p.C)
					return nil, jrpc2.Errorf(jrpc2.Code(p.C), "handler error %d", p.K).WithData(tok)
				}
				select {
				case o := <-gate(p.K):
					if o == "baderr" {
						// an *Error whose Data are not valid JSON: still an error response with that code
						ret = "baderr"
						return nil, &jrpc2.Error{Code: 7, Message: fmt.Sprintf("handler error %d", p.K), Data: json.RawMessage(`{"k":`)}
					}
					if strings.HasPrefix(o, "err:") {
						c, _ := strconv.Atoi(o[4:])
						ret = o
						return nil, jrpc2.Errorf(jrpc2.Code(c), "handler error %d", p.K).WithData(tok)
					}
				case <-drain:
				}
				return tok, nil
			}
		})
		bopts := &jhttp.BridgeOptions{Server: &jrpc2.ServerOptions{Concurrency: sc.Concurrency, AllowPush: sc.AllowPush}}
		if sc.GetHook {
			bopts.ParseGETRequest = jhttp.ParseQuery
		}
		b := jhttp.NewBridge(assign, bopts)
		settle := func() {
			sched.Settle()
			mu.Lock()
			var ps []int
			for k := range parked {
				ps = append(ps, k)
			}
			mu.Unlock()
			sort.Ints(ps)
			log(BEvent{Kind: "quiesce", Parked: ps})
		}
		var wg sync.WaitGroup
		settle()
		for i, st := range sc.Steps {
			mu.Lock()
			step = i
			mu.Unlock()
			switch st.Op {
			case "http":
				method := st.Method
				if method == "" {
					method = "POST"
				}
				req := httptest.NewRequest(method, "/", strings.NewReader(string(st.Body)))
				if st.Chunked {
					req.ContentLength = -1
					req.TransferEncoding = []string{"chunked"}
				}
				if st.CType != "-" {
					ct := st.CType
					if ct == "" {
						ct = "application/json"
					}
					req.Header.Set("Content-Type", ct)
				}
				log(BEvent{Kind: "http-start", K: st.K, Method: method, CType: st.CType, Body: string(st.Body)})
				wg.Add(1)
				go func(k int) {
					defer wg.Done()
					rec := httptest.NewRecorder()
					b.ServeHTTP(rec, req)
					log(BEvent{Kind: "http-ret", K: k, Status: rec.Code, Body: rec.Body.String(), CType: rec.Header().Get("Content-Type")})
				}(st.K)
			case "release":
				out := st.Out
				if out == "" {
					out = "ok"
				}
				select {
				case gate(st.K) <- out:
				default:
				}
			}
			if !st.Burst {
				settle()
			}
		}
		mu.Lock()
		step = len(sc.Steps)
		mu.Unlock()
		close(drain)
		settle()
		wg.Wait()
		b.Close()
		settle()
	})
	return h
}
