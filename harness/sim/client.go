package sim

import (
	"context"
	"encoding/json"
	"errors"
	"fmt"
	"runtime"
	"strings"
	"sync"
	"sync/atomic"
	"testing"
	"testing/synctest"
	"time"

	"github.com/creachadair/jrpc2"
	"github.com/creachadair/jrpc2/channel"

	"verif/harness/engine"
)

// CConfig fixes the client-side scenario parameters.
type CConfig struct {
	Chan    string  `json:"chan,omitempty"` // direct | pipe
	Salt    uint64  `json:"salt,omitempty"`
	Pins    []Pin   `json:"pins,omitempty"`
	NoHooks bool    `json:"no_hooks,omitempty"`
	Yield   int     `json:"yield,omitempty"`
	Faults  []Fault `json:"faults,omitempty"`
	// NoHandlers: the client has neither OnNotify nor OnCallback, so requests
	// from the peer have nowhere to go (and must still never complete a call).
	NoHandlers bool `json:"no_handlers,omitempty"`
	// OnlyHandler: "notify" - the client has OnNotify and no OnCallback;
	// "callback" - the other way round. What it has no handler for is dropped.
	OnlyHandler string `json:"only_handler,omitempty"`
	// LogYield: the client has a Logger that gives up the processor this many
	// times per line (the client logs under its mutex; whatever it logs outside
	// it becomes a wider window).
	LogYield int `json:"log_yield,omitempty"`
	// HookCalls: the OnCancel hook tells the peer (a Notify with a fresh context,
	// the use its documentation names) and the OnStop hook asks IsStopped.
	HookCalls bool `json:"hook_calls,omitempty"`
	// HookClose: the first OnCancel hook closes the client (a caller that gives
	// up on the connection when a request is cancelled).
	HookClose bool `json:"hook_close,omitempty"`
}

// ReplyItem is one member of a record the scripted peer sends.
type ReplyItem struct {
	Kind string `json:"kind"`         // result error unknown nullid nonobject both neither strid fltid note callback garbage
	Op   int    `json:"op,omitempty"` // which client operation it answers
	I    int    `json:"i,omitempty"`  // which entry of that operation (batch index)
	N    int    `json:"n,omitempty"`  // payload discriminator
}

// CStep is one step of a client-side script.
type CStep struct {
	Op    string       `json:"op"` // call callresult batch notify ctxcancel advance reply raw cbrelease close peerclose
	K     int          `json:"k,omitempty"`
	Ctx   string       `json:"ctx,omitempty"` // bg | cancel | deadline
	D     int          `json:"d,omitempty"`
	Specs []bool       `json:"specs,omitempty"` // batch: true = notification
	Items []ReplyItem  `json:"items,omitempty"`
	Array bool         `json:"array,omitempty"`
	Raw   engine.Bytes `json:"raw,omitempty"`
	Burst bool         `json:"burst,omitempty"`
	// BadParams: the operation is given parameters the client must refuse
	// ("chan": cannot be marshalled; "scalar": not an array or object) - it fails
	// at once, transmits nothing and leaves the client usable.
	BadParams string `json:"bad_params,omitempty"`
	// NoSpecs: a Batch without specs ("nil" slice or "empty" non-nil slice).
	NoSpecs string `json:"no_specs,omitempty"`
	// Lead (reply): insignificant white space the peer writes in front of the record.
	Lead string `json:"lead,omitempty"`
	// Relabel (call): once the call has returned a response, relabel it with the
	// id of a request that is still pending (Response.SetID, as a proxy would).
	Relabel bool `json:"relabel,omitempty"`
	// After: ctxcancel takes effect this many fake nanoseconds later.
	After int `json:"after,omitempty"`
}

func (s CStep) String() string {
	b := ""
	if s.Burst {
		b = "~"
	}
	switch s.Op {
	case "call", "callresult", "notify":
		return fmt.Sprintf("%s%s #%d ctx=%s d=%d %s", b, s.Op, s.K, s.Ctx, s.D, s.BadParams)
	case "batch":
		return fmt.Sprintf("%sbatch #%d specs(notify)=%v%s ctx=%s d=%d", b, s.K, s.Specs, s.NoSpecs, s.Ctx, s.D)
	case "reply":
		return fmt.Sprintf("%sreply array=%v %+v", b, s.Array, s.Items)
	case "raw":
		return fmt.Sprintf("%sraw %s", b, engine.Q(s.Raw))
	case "ctxcancel", "cbrelease":
		if s.After > 0 {
			return fmt.Sprintf("%s%s #%d after %dns", b, s.Op, s.K, s.After)
		}
		return fmt.Sprintf("%s%s #%d", b, s.Op, s.K)
	case "advance":
		return fmt.Sprintf("%sadvance %dms", b, s.D)
	}
	return b + s.Op
}

// CScenario is a client-side configuration plus script.
type CScenario struct {
	Cfg   CConfig `json:"cfg"`
	Steps []CStep `json:"steps"`
}

// CEvent is one entry of a client-side history.
type CEvent struct {
	Seq     int      `json:"seq"`
	T       int64    `json:"t,omitempty"`
	Step    int      `json:"step"`
	Kind    string   `json:"kind"`
	K       int      `json:"k,omitempty"`
	I       int      `json:"i,omitempty"`
	ID      string   `json:"id,omitempty"`
	Class   string   `json:"class,omitempty"` // outcome class: result rpcerror canceled deadline error
	Code    int      `json:"code,omitempty"`
	Data    string   `json:"data,omitempty"`
	Err     string   `json:"err,omitempty"`
	Pending []string `json:"pending,omitempty"`
	Stopped bool     `json:"stopped,omitempty"`
}

// CHistory is everything observed while running a client scenario.
type CHistory struct {
	Events     []CEvent
	BubbleErr  string
	Overlaps   []string
	CliSent    [][]byte
	CloseCalls int
	NSend      int
	Sites      map[string]int
}

type cworld struct {
	cfg   CConfig
	sched *Sched
	cli   *jrpc2.Client
	t0    time.Time

	mu      sync.Mutex
	events  []CEvent
	step    int
	cancels map[int]context.CancelFunc
	cbGates map[string]chan struct{}
	reqs    map[string]string // "op/i" -> id text seen on the wire
	drain   chan struct{}

	peer     channel.Channel
	peerOnce sync.Once
	peerQ    chan []byte
	ops      sync.WaitGroup
	nextCB   atomic.Int32
}

func (w *cworld) log(e CEvent) {
	w.mu.Lock()
	e.Seq = len(w.events)
	e.T = int64(time.Since(w.t0))
	e.Step = w.step
	w.events = append(w.events, e)
	w.mu.Unlock()
}

func classify(err error) (class string, code int, data string) {
	switch {
	case err == nil:
		return "result", 0, ""
	case err == context.Canceled:
		return "canceled", 0, ""
	case err == context.DeadlineExceeded:
		return "deadline", 0, ""
	}
	var je *jrpc2.Error
	if errors.As(err, &je) {
		b, _ := json.Marshal(je)
		return "rpcerror", int(je.Code), string(b)
	}
	return "error", 0, err.Error()
}

var errOwnReason = errors.New("the caller's own reason")

func (w *cworld) ctxFor(st CStep) (context.Context, context.CancelFunc) {
	var ctx context.Context
	var cancel context.CancelFunc
	// every third operation uses a context that carries a cause of the caller's
	// own: the operation must still end with the context's error, not the cause
	withCause := st.K%3 == 0
	switch {
	case st.Ctx == "deadline" && withCause:
		ctx, cancel = context.WithTimeoutCause(context.Background(), time.Duration(st.D)*time.Millisecond, errOwnReason)
	case st.Ctx == "deadline":
		ctx, cancel = context.WithTimeout(context.Background(), time.Duration(st.D)*time.Millisecond)
	case withCause:
		c, cc := context.WithCancelCause(context.Background())
		ctx, cancel = c, func() { cc(errOwnReason) }
	default:
		ctx, cancel = context.WithCancel(context.Background())
	}
	w.mu.Lock()
	w.cancels[st.K] = cancel
	w.mu.Unlock()
	return ctx, cancel
}

// peer side: remember which id the client put on each request.
func (w *cworld) noteRequest(rec []byte) {
	var one struct {
		ID     json.RawMessage `json:"id"`
		Method string          `json:"method"`
		Params struct {
			Op int `json:"op"`
			I  int `json:"i"`
		} `json:"params"`
	}
	var raws []json.RawMessage
	if len(rec) > 0 && rec[0] == '[' {
		json.Unmarshal(rec, &raws)
	} else {
		raws = []json.RawMessage{rec}
	}
	for _, r := range raws {
		one.ID = nil
		one.Method = ""
		if json.Unmarshal(r, &one) != nil || one.Method == "" {
			continue
		}
		if len(one.ID) != 0 {
			w.mu.Lock()
			w.reqs[fmt.Sprintf("%d/%d", one.Params.Op, one.Params.I)] = string(one.ID)
			w.mu.Unlock()
		}
	}
}

// MethodName varies the method name of the k-th operation: most are plain,
// some carry characters an encoder has to escape (control bytes, DEL, quotes,
// a non-BMP rune) - legal in a method name and invisible to the scripts, which
// identify requests by their parameters.
func MethodName(base string, k int) string {
	switch k % 7 {
	case 2:
		return base + "\x01\x7f"
	case 4:
		return base + "\"\\<\U000e0001"
	case 6:
		return base + "\v\a é"
	}
	return base
}

func badParams(kind string, good any) any {
	switch kind {
	case "chan":
		return make(chan int)
	case "scalar":
		return 5
	}
	return good
}

func (w *cworld) idOf(op, i int) string {
	w.mu.Lock()
	defer w.mu.Unlock()
	return w.reqs[fmt.Sprintf("%d/%d", op, i)]
}

// Payload is the result value the peer sends for (op, i, n).
func Payload(op, i, n int) string { return fmt.Sprintf(`{"op":%d,"i":%d,"n":%d}`, op, i, n) }

func (w *cworld) render(it ReplyItem) string {
	id := w.idOf(it.Op, it.I)
	known := id != ""
	if !known {
		id = fmt.Sprint(7000 + it.Op*10 + it.I)
	}
	res := Payload(it.Op, it.I, it.N)
	switch it.Kind {
	case "result":
		return fmt.Sprintf(`{"jsonrpc":"2.0","id":%s,"result":%s}`, id, res)
	case "resultnullerr":
		// a peer that always writes both members: a null error is no error object
		return fmt.Sprintf(`{"jsonrpc":"2.0","id":%s,"result":%s,"error":null}`, id, res)
	case "error":
		return fmt.Sprintf(`{"jsonrpc":"2.0","id":%s,"error":{"code":%d,"message":"peer error %d","data":%s}}`, id, -31000-it.N, it.N, res)
	case "unknown":
		return fmt.Sprintf(`{"jsonrpc":"2.0","id":%d,"result":%s}`, 5000+it.N, res)
	case "nullid":
		return fmt.Sprintf(`{"jsonrpc":"2.0","id":null,"result":%s}`, res)
	case "nonobject":
		return fmt.Sprint(it.N)
	case "both":
		return fmt.Sprintf(`{"jsonrpc":"2.0","id":%s,"result":%s,"error":{"code":1,"message":"both"}}`, id, res)
	case "neither":
		return fmt.Sprintf(`{"jsonrpc":"2.0","id":%s}`, id)
	case "strid":
		return fmt.Sprintf(`{"jsonrpc":"2.0","id":"%s","result":%s}`, strings.Trim(id, `"`), res)
	case "fltid":
		return fmt.Sprintf(`{"jsonrpc":"2.0","id":%s.0,"result":%s}`, id, res)
	case "badversion":
		return fmt.Sprintf(`{"jsonrpc":"1.0","id":%s,"result":%s}`, id, res)
	case "extrafield":
		return fmt.Sprintf(`{"jsonrpc":"2.0","id":%s,"result":%s,"bogus":true}`, id, res)
	case "note":
		return fmt.Sprintf(`{"jsonrpc":"2.0","method":"snote","params":{"n":%d}}`, it.N)
	case "callback":
		return fmt.Sprintf(`{"jsonrpc":"2.0","id":"cb%d","method":"scall","params":{"n":%d}}`, it.N, it.N)
	case "sameidreq":
		// a request from the peer that happens to carry the id of one of the
		// client's own calls (a server numbers its callbacks 1, 2, 3 ... too)
		return fmt.Sprintf(`{"jsonrpc":"2.0","id":%s,"method":"scall","params":{"n":%d}}`, id, it.N)
	case "sameidreqscalar":
		// the same, malformed in one of the ways a request can be: it is still a
		// request, never an answer to the client's call
		return fmt.Sprintf(`{"jsonrpc":"2.0","id":%s,"method":"scall","params":%d}`, id, it.N)
	case "sameidreqnover":
		return fmt.Sprintf(`{"id":%s,"method":"scall","params":{"n":%d}}`, id, it.N)
	case "sameidreqextra":
		return fmt.Sprintf(`{"jsonrpc":"2.0","id":%s,"method":"scall","params":{"n":%d},"bogus":true}`, id, it.N)
	case "sameidnote":
		return fmt.Sprintf(`{"jsonrpc":"2.0","id":%s,"method":"snote"}`, id)
	}
	return "null"
}

func (w *cworld) exec(i int, st CStep) {
	w.mu.Lock()
	w.step = i
	w.mu.Unlock()
	switch st.Op {
	case "call", "callresult":
		ctx, cancel := w.ctxFor(st)
		w.log(CEvent{Kind: "op-start", K: st.K, Data: st.Op})
		w.ops.Add(1)
		go func() {
			defer w.ops.Done()
			defer cancel()
			var params any = map[string]int{"op": st.K, "i": 0}
			params = badParams(st.BadParams, params)
			if st.Op == "callresult" {
				var out json.RawMessage
				err := w.cli.CallResult(ctx, MethodName("m", st.K), params, &out)
				class, code, data := classify(err)
				if err == nil {
					data = string(out)
				}
				w.log(CEvent{Kind: "op-ret", K: st.K, Class: class, Code: code, Data: data})
				return
			}
			rsp, err := w.cli.Call(ctx, MethodName("m", st.K), params)
			class, code, data := classify(err)
			e := CEvent{Kind: "op-ret", K: st.K, Class: class, Code: code, Data: data}
			if rsp != nil {
				e.Data, e.ID = rsp.ResultString(), rsp.ID()
			}
			w.log(e)
			if rsp != nil && st.Relabel {
				// what a proxy does with a finished response (Response.SetID): give
				// it the id its own caller used - here the id of a call that is
				// still pending on this client, which must not notice
				if pend, _ := jrpc2.VerifClientSnapshot(w.cli); len(pend) > 0 {
					rsp.SetID(pend[0])
					w.log(CEvent{Kind: "relabel", K: st.K, ID: pend[0]})
				}
			}
		}()
	case "notify":
		ctx, cancel := w.ctxFor(st)
		w.log(CEvent{Kind: "op-start", K: st.K, Data: "notify"})
		w.ops.Add(1)
		go func() {
			defer w.ops.Done()
			defer cancel()
			err := w.cli.Notify(ctx, MethodName("n", st.K), badParams(st.BadParams, map[string]int{"op": st.K, "i": 0}))
			class, code, data := classify(err)
			w.log(CEvent{Kind: "op-ret", K: st.K, Class: class, Code: code, Data: data})
		}()
	case "batch":
		ctx, cancel := w.ctxFor(st)
		w.log(CEvent{Kind: "op-start", K: st.K, Data: "batch"})
		w.ops.Add(1)
		go func() {
			defer w.ops.Done()
			defer cancel()
			var specs []jrpc2.Spec
			if st.NoSpecs == "empty" {
				specs = []jrpc2.Spec{}
			}
			for j, note := range st.Specs {
				specs = append(specs, jrpc2.Spec{Method: MethodName("m", st.K+j), Params: map[string]int{"op": st.K, "i": j}, Notify: note})
			}
			if st.BadParams != "" && len(specs) > 0 {
				j := len(specs) / 2
				specs[j].Params = badParams(st.BadParams, specs[j].Params)
			}
			rsps, err := w.cli.Batch(ctx, specs)
			class, code, data := classify(err)
			if err != nil {
				w.log(CEvent{Kind: "op-ret", K: st.K, Class: class, Code: code, Data: data})
				return
			}
			for j, r := range rsps {
				e := CEvent{Kind: "batch-rsp", K: st.K, I: j, ID: r.ID()}
				if re := r.Error(); re != nil {
					b, _ := json.Marshal(re)
					e.Class, e.Code, e.Data = "rpcerror", int(re.Code), string(b)
				} else {
					e.Class, e.Data = "result", r.ResultString()
				}
				w.log(e)
			}
			w.log(CEvent{Kind: "op-ret", K: st.K, Class: "result", Code: len(rsps)})
		}()
	case "ctxcancel":
		w.mu.Lock()
		c := w.cancels[st.K]
		w.mu.Unlock()
		if st.After > 0 {
			// later on the fake clock, so that it can fall between the steps
			// of a delivery that is under way
			w.ops.Add(1)
			go func() {
				defer w.ops.Done()
				w.sched.Sleep(time.Duration(st.After))
				w.log(CEvent{Kind: "ctxcancel", K: st.K})
				if c != nil {
					c()
				}
			}()
			break
		}
		w.log(CEvent{Kind: "ctxcancel", K: st.K})
		if c != nil {
			c()
		}
	case "advance":
		w.log(CEvent{Kind: "advance", K: st.D})
		time.Sleep(time.Duration(st.D) * time.Millisecond)
	case "reply":
		var parts []string
		for _, it := range st.Items {
			parts = append(parts, w.render(it))
		}
		rec := strings.Join(parts, ",")
		if st.Array || len(parts) != 1 {
			rec = "[" + rec + "]"
		}
		rec = st.Lead + rec
		w.log(CEvent{Kind: "peer-queue", Data: rec})
		w.peerQ <- []byte(rec)
	case "raw":
		w.log(CEvent{Kind: "peer-queue", Data: string(st.Raw)})
		w.peerQ <- append([]byte(nil), st.Raw...)
	case "cbrelease":
		w.mu.Lock()
		g := w.cbGates[fmt.Sprintf("cb%d", st.K)]
		if g == nil {
			g = make(chan struct{}, 1)
			w.cbGates[fmt.Sprintf("cb%d", st.K)] = g
		}
		w.mu.Unlock()
		w.log(CEvent{Kind: "cbrelease", K: st.K})
		select {
		case g <- struct{}{}:
		default:
		}
	case "close":
		w.log(CEvent{Kind: "close"})
		go func() {
			err := w.cli.Close()
			w.log(CEvent{Kind: "closeret", Err: errStr(err)})
		}()
	case "peerclose":
		w.log(CEvent{Kind: "peerclose"})
		go w.peerOnce.Do(func() { w.peer.Close() })
	}
	if !st.Burst {
		w.settle()
	}
}

func (w *cworld) settle() {
	w.sched.Settle()
	pend, stopped := jrpc2.VerifClientSnapshot(w.cli)
	w.log(CEvent{Kind: "quiesce", Pending: pend, Stopped: stopped})
}

// RunClient executes a client-side scenario in a fresh bubble.
func RunClient(t *testing.T, sc CScenario) (h *CHistory) {
	h = &CHistory{}
	defer func() {
		if p := recover(); p != nil {
			h.BubbleErr = fmt.Sprint(p)
		}
	}()
	sched := &Sched{Salt: sc.Cfg.Salt, Pins: sc.Cfg.Pins, Off: sc.Cfg.NoHooks}
	sched.Install()
	defer sched.Remove()
	var w *cworld
	var cc *Chan
	defer func() {
		if w != nil {
			w.mu.Lock()
			h.Events = append([]CEvent(nil), w.events...)
			w.mu.Unlock()
			h.Overlaps = cc.Overlaps()
			h.CliSent = cc.SentRecords()
			h.NSend, _, h.CloseCalls = cc.Counts()
			h.Sites = sched.Sites()
		}
	}()
	synctest.Test(t, func(t *testing.T) {
		w = &cworld{cfg: sc.Cfg, sched: sched, t0: time.Now(), cancels: map[int]context.CancelFunc{}, cbGates: map[string]chan struct{}{},
			reqs: map[string]string{}, drain: make(chan struct{}), peerQ: make(chan []byte, 4096)}
		var cliEnd, peerEnd channel.Channel
		if sc.Cfg.Chan == "pipe" {
			cliEnd, peerEnd = Pipe()
		} else {
			cliEnd, peerEnd = channel.Direct()
		}
		w.peer = peerEnd
		cc = Wrap("cli", &onceCloser{Channel: cliEnd}, sc.Cfg.Yield, sc.Cfg.Faults)
		cc.ReuseRecv = sc.Cfg.Chan == "reuse" // a direct channel whose Recv hands out one buffer again and again
		cc.LogSends = true
		cc.onEvent = func(kind string, data []byte, err error) {
			w.log(CEvent{Kind: kind, Data: string(data), Err: errStr(err)})
		}
		// Peer writer and reader.
		go func() {
			dead := false
			for rec := range w.peerQ {
				if dead {
					continue
				}
				w.log(CEvent{Kind: "peer-sending", Data: string(rec)})
				if err := peerEnd.Send(rec); err != nil {
					w.log(CEvent{Kind: "peer-sendfail", Err: errStr(err)})
					dead = true
				}
			}
		}()
		go func() {
			for {
				b, err := peerEnd.Recv()
				if err != nil {
					w.log(CEvent{Kind: "peer-eof", Err: errStr(err)})
					w.peerOnce.Do(func() { peerEnd.Close() })
					return
				}
				w.noteRequest(b)
				w.log(CEvent{Kind: "peer-recv", Data: string(b)})
			}
		}()
		var hookClosed atomic.Bool
		opts := &jrpc2.ClientOptions{
			OnNotify: func(req *jrpc2.Request) {
				w.log(CEvent{Kind: "onnotify", Data: req.ParamString()})
			},
			OnCallback: func(ctx context.Context, req *jrpc2.Request) (any, error) {
				id := strings.Trim(req.ID(), `"`)
				n := w.nextCB.Add(1)
				w.log(CEvent{Kind: "oncb-enter", ID: id, K: int(n), Data: req.ParamString()})
				w.mu.Lock()
				g := w.cbGates[id]
				if g == nil {
					g = make(chan struct{}, 1)
					w.cbGates[id] = g
				}
				w.mu.Unlock()
				if strings.HasSuffix(id, "3") || strings.HasSuffix(id, "6") || strings.HasSuffix(id, "9") {
					// this handler only gives up when released or when its context ends
					// (the client cancels callback contexts when it stops)
					select {
					case <-g:
					case <-ctx.Done():
					}
				} else {
					select {
					case <-g:
					case <-w.drain:
					}
				}
				w.log(CEvent{Kind: "oncb-exit", ID: id, K: int(n), Err: errStr(ctx.Err())})
				var num int
				fmt.Sscanf(strings.TrimLeft(id, "cb"), "%d", &num)
				switch {
				case num%4 == 2:
					// an *Error whose Data are not valid JSON
					return nil, &jrpc2.Error{Code: 7, Message: "callback error " + id, Data: json.RawMessage(`{"cb":`)}
				case num%4 == 0:
					return make(chan int), nil // cannot be marshalled
				case num%8 == 5:
					return nil, jrpc2.Errorf(7, "callback error %s", id)
				case num%8 == 3:
					panic("callback handler panics " + id) // the client must turn it into an error reply
				}
				return map[string]string{"cb": id}, nil
			},
			OnCancel: func(cli *jrpc2.Client, rsp *jrpc2.Response) {
				w.log(CEvent{Kind: "oncancel", ID: rsp.ID()})
				if sc.Cfg.HookClose && hookClosed.CompareAndSwap(false, true) {
					w.log(CEvent{Kind: "close"})
					err := cli.Close()
					w.log(CEvent{Kind: "closeret", Err: errStr(err)})
					return
				}
				if sc.Cfg.HookCalls {
					nerr := cli.Notify(context.Background(), "hook.cancelled", []string{rsp.ID()})
					w.log(CEvent{Kind: "hook-notify", ID: rsp.ID(), Err: errStr(nerr)})
				}
			},
			OnStop: func(cli *jrpc2.Client, err error) {
				if sc.Cfg.HookCalls {
					w.log(CEvent{Kind: "isstopped", Class: "in-onstop", Data: fmt.Sprint(cli.IsStopped())})
				}
				class := "error"
				switch {
				case err == nil:
					class = "nil"
				case errors.Is(err, ErrInjected):
					class = "injected"
				case err.Error() == "EOF":
					class = "eof"
				case strings.Contains(err.Error(), "client has been stopped"):
					class = "closed"
				case channel.IsErrClosing(err):
					class = "chanclosed"
				case strings.Contains(err.Error(), "invalid request value"):
					class = "parse"
				}
				w.log(CEvent{Kind: "onstop", Class: class, Err: err.Error()})
			},
		}
		if n := sc.Cfg.LogYield; n > 0 {
			opts.Logger = func(string) {
				for i := 0; i < n; i++ {
					runtime.Gosched()
				}
			}
		}
		if sc.Cfg.NoHandlers {
			opts.OnNotify, opts.OnCallback = nil, nil
		}
		switch sc.Cfg.OnlyHandler {
		case "notify":
			opts.OnCallback = nil
		case "callback":
			opts.OnNotify = nil
		}
		w.cli = jrpc2.NewClient(cc, opts)
		w.settle()
		for i, st := range sc.Steps {
			w.exec(i, st)
		}
		w.mu.Lock()
		w.step = len(sc.Steps)
		w.mu.Unlock()
		w.log(CEvent{Kind: "isstopped", Class: "before-epilogue", Data: fmt.Sprint(w.cli.IsStopped())})
		w.log(CEvent{Kind: "epilogue"})
		close(w.drain)
		w.settle()
		// Close the client (if the script has not): every pending operation must return.
		done := make(chan struct{})
		go func() {
			err := w.cli.Close()
			w.log(CEvent{Kind: "closeret", Err: errStr(err), Data: "epilogue"})
			close(done)
		}()
		w.settle()
		w.peerOnce.Do(func() { peerEnd.Close() })
		close(w.peerQ)
		w.settle()
		w.mu.Lock()
		for _, c := range w.cancels {
			c()
		}
		w.mu.Unlock()
		w.settle()
		w.log(CEvent{Kind: "isstopped", Class: "at-end", Data: fmt.Sprint(w.cli.IsStopped())})
	})
	return h
}
