// Package sim is the scenario engine (DESIGN.md E1/E4): it runs a generated
// script of external events against a real jrpc2 Server or Client inside a
// testing/synctest bubble and records the history the oracles judge.
package sim

import (
	"bytes"
	"errors"
	"fmt"
	"io"
	"net"
	"runtime"
	"sync"
	"sync/atomic"

	"github.com/creachadair/jrpc2/channel"
)

// Pipe returns two connected in-memory channels whose Close, unlike
// channel.Direct's, also unblocks a pending Recv on the same end (like a
// socket). Both must be created inside the bubble that uses them.
func Pipe() (a, b channel.Channel) {
	ab, ba := make(chan []byte), make(chan []byte)
	ac, bc := make(chan struct{}), make(chan struct{})
	return &pipeEnd{out: ab, in: ba, closed: ac, peerClosed: bc}, &pipeEnd{out: ba, in: ab, closed: bc, peerClosed: ac}
}

type pipeEnd struct {
	out        chan<- []byte
	in         <-chan []byte
	closed     chan struct{}
	peerClosed <-chan struct{}
	once       sync.Once
}

func (p *pipeEnd) Send(msg []byte) error {
	select {
	case <-p.closed:
		return fmt.Errorf("send: %w", channel.ErrClosed)
	default:
	}
	select {
	case p.out <- msg:
		return nil
	case <-p.closed:
		return fmt.Errorf("send: %w", channel.ErrClosed)
	case <-p.peerClosed:
		return errors.New("send: broken pipe")
	}
}

func (p *pipeEnd) Recv() ([]byte, error) {
	select {
	case <-p.closed:
		return nil, fmt.Errorf("recv: %w", channel.ErrClosed)
	default:
	}
	select {
	case m := <-p.in:
		return m, nil
	case <-p.closed:
		return nil, fmt.Errorf("recv: %w", channel.ErrClosed)
	case <-p.peerClosed:
		return nil, io.EOF
	}
}

func (p *pipeEnd) Close() error {
	p.once.Do(func() { close(p.closed) })
	return nil
}

// Fault is one injected channel fault.
type Fault struct {
	Op   string `json:"op"`             // "send" or "recv"
	At   int    `json:"at"`             // 1-based index of the operation on this wrapper
	Kind string `json:"kind,omitempty"` // recv: "err" (nil, err), "data+eof" (data, io.EOF), "data+err" (data, err); send: "err"
}

// ErrInjected is the error returned by injected faults.
var ErrInjected = errors.New("injected channel failure")

// Chan is the instrumented, fault-injecting wrapper (E4) put around the
// channel that is handed to the library.
type Chan struct {
	Name     string
	inner    channel.Channel
	Yield    int  // Gosched calls between entry and exit of each operation
	LogSends bool // report every Send entry through onEvent
	// Fragile makes Send behave like the library's own stream framings, which
	// assemble each frame in one buffer shared by all Send calls and then write
	// it out (slowly): the channel contract allows that, because at most one
	// Send may be in progress.  Two overlapping Sends then transmit one message
	// twice and lose the other.
	Fragile bool
	// ReuseRecv makes Recv behave like the library's header framings, which
	// hand out a slice of one receive buffer: the bytes of a record are
	// overwritten when the next Recv begins.
	ReuseRecv bool
	// LineLike makes Send refuse a message that contains a line feed, writing
	// nothing, as channel.Line is documented to do.
	LineLike bool
	rframe   []byte
	frame     []byte

	sendIn, recvIn, closeIn atomic.Int32
	nSend, nRecv, nClose    atomic.Int32

	mu       sync.Mutex
	overlaps []string
	Sent     [][]byte
	faults   []Fault
	onEvent  func(kind string, data []byte, err error)
}

// RecvInProgress reports whether a Recv call has been entered and has not returned.
func (c *Chan) RecvInProgress() bool { return c.recvIn.Load() > 0 }

// Wrap wraps inner.
func Wrap(name string, inner channel.Channel, yield int, faults []Fault) *Chan {
	return &Chan{Name: name, inner: inner, Yield: yield, faults: faults}
}

func (c *Chan) note(s string) {
	c.mu.Lock()
	c.overlaps = append(c.overlaps, s)
	c.mu.Unlock()
}

func (c *Chan) yield() {
	for i := 0; i < c.Yield; i++ {
		runtime.Gosched()
	}
}

func (c *Chan) fault(op string, n int) string {
	for _, f := range c.faults {
		if f.Op == op && f.At == n {
			if f.Kind == "" {
				return "err"
			}
			return f.Kind
		}
	}
	return ""
}

// VerifKey identifies the channel to hook sites that have no better key.
func (c *Chan) VerifKey() string { return c.Name }

func (c *Chan) Send(msg []byte) error {
	if n := c.sendIn.Add(1); n > 1 {
		c.note("two Send calls in progress")
	}
	if c.closeIn.Load() > 0 {
		c.note("Send entered while Close in progress")
	}
	defer c.sendIn.Add(-1)
	if c.LineLike && bytes.IndexByte(msg, '\n') >= 0 {
		return errors.New("message contains split byte")
	}
	k := int(c.nSend.Add(1))
	cp := append([]byte(nil), msg...)
	if c.LogSends && c.onEvent != nil {
		c.onEvent("chan-send", cp, nil)
	}
	c.mu.Lock()
	c.Sent = append(c.Sent, cp)
	c.mu.Unlock()
	c.yield()
	if c.fault("send", k) != "" {
		if c.onEvent != nil {
			c.onEvent("sendfault", cp, ErrInjected)
		}
		return ErrInjected
	}
	if c.Fragile {
		c.mu.Lock()
		c.frame = append(c.frame[:0], msg...)
		c.mu.Unlock()
		// No fake-time sleep here: a sound server calls Send with its mutex held,
		// and goroutines waiting for a mutex are not durably blocked, so the
		// bubble's clock could never advance.
		for i := 0; i < 4; i++ {
			runtime.Gosched()
		}
		c.mu.Lock()
		msg = append([]byte(nil), c.frame...)
		c.mu.Unlock()
	}
	err := c.inner.Send(msg)
	c.yield()
	if c.closeIn.Load() > 0 {
		c.note("Close entered while Send in progress")
	}
	return err
}

func (c *Chan) Recv() ([]byte, error) {
	if n := c.recvIn.Add(1); n > 1 {
		c.note("two Recv calls in progress")
	}
	defer c.recvIn.Add(-1)
	k := int(c.nRecv.Add(1))
	c.yield()
	switch c.fault("recv", k) {
	case "netclosed", "chanclosed":
		// the transport was shut down underneath: Recv reports a "closed" error
		err := fmt.Errorf("recv: %w", net.ErrClosed)
		if c.fault("recv", k) == "chanclosed" {
			err = fmt.Errorf("recv: %w", channel.ErrClosed)
		}
		if c.onEvent != nil {
			c.onEvent("recvfault", nil, err)
		}
		return nil, err
	case "wrapeof":
		// a transport's own failure that wraps io.EOF ("unexpected EOF in frame
		// header"): a failure of the channel, not the peer hanging up
		err := fmt.Errorf("%w: read frame header: %w", ErrInjected, io.EOF)
		if c.onEvent != nil {
			c.onEvent("recvfault", nil, err)
		}
		return nil, err
	case "err":
		if c.onEvent != nil {
			c.onEvent("recvfault", nil, ErrInjected)
		}
		return nil, ErrInjected
	case "data+eof":
		d, err := c.inner.Recv()
		if err == nil {
			err = io.EOF
		}
		if c.onEvent != nil {
			c.onEvent("recvfault", d, err)
		}
		return d, err
	case "data+err":
		d, err := c.inner.Recv()
		if err == nil {
			err = ErrInjected
		}
		if c.onEvent != nil {
			c.onEvent("recvfault", d, err)
		}
		return d, err
	}
	if c.ReuseRecv {
		// (the previous record's memory is gone as soon as Recv is entered)
		for i := range c.rframe {
			c.rframe[i] = 'x'
		}
	}
	d, err := c.inner.Recv()
	c.yield()
	if c.ReuseRecv && err == nil {
		c.rframe = append(c.rframe[:0], d...)
		d = c.rframe
	}
	return d, err
}

func (c *Chan) Close() error {
	if n := c.closeIn.Add(1); n > 1 {
		c.note("two Close calls in progress")
	}
	if c.sendIn.Load() > 0 {
		c.note("Close entered while Send in progress")
	}
	defer c.closeIn.Add(-1)
	k := int(c.nClose.Add(1))
	c.yield()
	err := c.inner.Close()
	c.yield()
	if err == nil && c.fault("close", k) != "" {
		// the transport is closed, but not without complaint (a final flush that fails)
		return ErrInjected
	}
	return err
}

// Overlaps returns the contract violations observed so far.
func (c *Chan) Overlaps() []string {
	c.mu.Lock()
	defer c.mu.Unlock()
	return append([]string(nil), c.overlaps...)
}

// Counts returns the number of Send, Recv and Close calls so far.
func (c *Chan) Counts() (send, recv, closes int) {
	return int(c.nSend.Load()), int(c.nRecv.Load()), int(c.nClose.Load())
}

// SentRecords returns copies of the records passed to Send.
func (c *Chan) SentRecords() [][]byte {
	c.mu.Lock()
	defer c.mu.Unlock()
	return append([][]byte(nil), c.Sent...)
}
