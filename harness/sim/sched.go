package sim

import (
	"fmt"
	"hash/fnv"
	"sync"
	"sync/atomic"
	"testing/synctest"
	"time"

	"github.com/creachadair/jrpc2"
	"github.com/creachadair/jrpc2/jhttp"
	"github.com/creachadair/jrpc2/server"
)

// Pin overrides the delay of one (site, key) visit.
type Pin struct {
	Site  string `json:"site"`
	Key   string `json:"key,omitempty"` // "" = any key at that site
	Delay int    `json:"delay"`         // fake nanoseconds
}

// Sched implements the hook scheduler: inside a bubble every visit of a hook
// site sleeps on the fake clock for a delay that is a pure function of
// (salt, site, key), so the order in which racing goroutines resume is chosen
// by the generator, not by the Go scheduler.
type Sched struct {
	Salt uint64
	Pins []Pin
	Off  bool
	Skip map[string]bool // sites at which no delay is inserted
	// Trace, if set, is told when a goroutine arrives at a site ("arrive") and
	// when it goes on after its delay ("resume").
	Trace    func(site, key, phase string)
	sleepers atomic.Int32
	visits   atomic.Int64
	mu       sync.Mutex
	sites    map[string]int
}

func mix(salt uint64, site, key string) uint64 {
	h := fnv.New64a()
	fmt.Fprintf(h, "%d|%s|%s", salt, site, key)
	x := h.Sum64()
	x ^= x >> 33
	x *= 0xff51afd7ed558ccd
	x ^= x >> 33
	return x
}

// Delay returns the delay of a visit.
func (s *Sched) Delay(site, key string) time.Duration {
	for _, p := range s.Pins {
		if p.Site == site && (p.Key == "" || p.Key == key) {
			return time.Duration(p.Delay)
		}
	}
	return time.Duration(1 + mix(s.Salt, site, key)%9973)
}

func (s *Sched) hook(site, key string) {
	if s.Off || s.Skip[site] {
		return
	}
	s.visits.Add(1)
	s.mu.Lock()
	if s.sites == nil {
		s.sites = map[string]int{}
	}
	s.sites[site]++
	s.mu.Unlock()
	if s.Trace != nil {
		s.Trace(site, key, "arrive")
	}
	s.sleepers.Add(1)
	time.Sleep(s.Delay(site, key))
	s.sleepers.Add(-1)
	if s.Trace != nil {
		s.Trace(site, key, "resume")
	}
}

// Sleep lets the calling goroutine sleep on the fake clock like a hook visit
// does (Settle waits for it).
func (s *Sched) Sleep(d time.Duration) {
	s.sleepers.Add(1)
	time.Sleep(d)
	s.sleepers.Add(-1)
}

// Install makes s the process-wide hook of the library; Remove undoes it.
func (s *Sched) Install() {
	jrpc2.SetVerifHook(s.hook)
	jhttp.SetVerifHook(s.hook)
	server.SetVerifHook(s.hook)
}

// Remove uninstalls the hooks.
func (s *Sched) Remove() {
	jrpc2.SetVerifHook(nil)
	jhttp.SetVerifHook(nil)
	server.SetVerifHook(nil)
}

// Settle waits for quiescence: it lets one quantum of fake time pass (far
// above any sum of hook delays, far below the units used for deadlines) and
// then waits until every goroutine of the bubble is durably blocked, repeating
// while hook sleepers remain.
func (s *Sched) Settle() {
	for i := 0; i < 200; i++ {
		time.Sleep(Quantum)
		synctest.Wait()
		if s.sleepers.Load() == 0 {
			return
		}
	}
}

// Quantum is the fake time one settle lets pass.
const Quantum = time.Millisecond

// Sites returns how often each hook site was visited.
func (s *Sched) Sites() map[string]int {
	s.mu.Lock()
	defer s.mu.Unlock()
	out := map[string]int{}
	for k, v := range s.sites {
		out[k] = v
	}
	return out
}
