package sim

import (
	"context"
	"encoding/json"
	"errors"
	"fmt"
	"os"
	"runtime"
	"sort"
	"strconv"
	"strings"
	"sync"
	"sync/atomic"
	"testing"
	"testing/synctest"
	"time"

	"github.com/creachadair/jrpc2"
	"github.com/creachadair/jrpc2/channel"

	"verif/harness/engine"
)

// Config fixes the server options and the schedule parameters of a scenario.
type Config struct {
	Concurrency    int     `json:"concurrency,omitempty"` // 0 = library default
	AllowPush      bool    `json:"allow_push,omitempty"`
	DisableBuiltin bool    `json:"disable_builtin,omitempty"`
	Chan           string  `json:"chan,omitempty"` // "direct" (Close does not unblock Recv), "pipe" (it does) or "fragile" (pipe whose Send shares one frame buffer)
	Salt           uint64  `json:"salt,omitempty"`
	Pins           []Pin   `json:"pins,omitempty"`
	NoHooks        bool    `json:"no_hooks,omitempty"`
	Yield          int     `json:"yield,omitempty"`
	Faults         []Fault `json:"faults,omitempty"`
	LogYield       int     `json:"log_yield,omitempty"` // the server has a Logger that yields the processor this many times per line
	BaseDeadlineMs int     `json:"base_deadline_ms,omitempty"`
	// OwnBase: ServerOptions.NewContext hands every request a base context of
	// its own that the request's handler can end (release outcome "endbase");
	// nobody else's context may notice.
	OwnBase bool `json:"own_base,omitempty"`
}

// Step is one external event of a scenario script.
type Step struct {
	Op    string       `json:"op"` // send release cancel stop peerclose push pushcancel advance waitstatus restart
	Rec   engine.Bytes `json:"rec,omitempty"`
	K     int          `json:"k,omitempty"`   // release: nonce; push/pushcancel: push serial
	Out   string       `json:"out,omitempty"` // release outcome: ok | err:<code> | ctxerr | bad
	ID    string       `json:"id,omitempty"`  // cancel: request id text
	Push  string       `json:"push,omitempty"`
	D     int          `json:"d,omitempty"`     // advance: ms; push: deadline ms (0 = none)
	Burst bool         `json:"burst,omitempty"` // do not settle after this step: it races with the next one
	After int          `json:"after,omitempty"` // release / cancel / pushcancel: takes effect this many fake nanoseconds later (only useful inside a burst)
}

func (s Step) String() string {
	b := ""
	if s.Burst {
		b = "~"
	}
	switch s.Op {
	case "send":
		return b + "send " + string(s.Rec)
	case "release":
		if s.After > 0 {
			return fmt.Sprintf("%srelease k=%d %s after %dns", b, s.K, s.Out, s.After)
		}
		return fmt.Sprintf("%srelease k=%d %s", b, s.K, s.Out)
	case "cancel":
		if s.After > 0 {
			return fmt.Sprintf("%scancel %s after %dns", b, s.ID, s.After)
		}
		return b + "cancel " + s.ID
	case "push":
		return fmt.Sprintf("%spush %s #%d d=%d", b, s.Push, s.K, s.D)
	case "cbreply":
		return fmt.Sprintf("%scbreply %s #%d %s n=%d", b, s.Push, s.K, s.Out, s.D)
	case "pushcancel":
		if s.After > 0 {
			return fmt.Sprintf("%spushcancel #%d after %dns", b, s.K, s.After)
		}
		return fmt.Sprintf("%spushcancel #%d", b, s.K)
	case "advance":
		return fmt.Sprintf("%sadvance %dms", b, s.D)
	}
	return b + s.Op
}

// Scenario is a configuration plus a script.
type Scenario struct {
	Cfg   Config `json:"cfg"`
	Steps []Step `json:"steps"`
}

// Snapshot is the server state observed at a quiescent point.
type Snapshot struct {
	Reserved  []string `json:"reserved,omitempty"`
	Callbacks []string `json:"callbacks,omitempty"`
	Queued    int      `json:"queued,omitempty"`
	Running   bool     `json:"running,omitempty"`
	Parked    []int    `json:"parked,omitempty"` // nonces of handler invocations entered and not exited
	InHandler int      `json:"in_handler,omitempty"`
}

// Event is one entry of the recorded history.
type Event struct {
	Seq    int       `json:"seq"`
	T      int64     `json:"t,omitempty"` // fake nanoseconds since the start of the bubble
	Step   int       `json:"step"`
	Kind   string    `json:"kind"`
	Conn   int       `json:"conn,omitempty"`
	K      int       `json:"k,omitempty"`
	Inv    int       `json:"inv,omitempty"`
	Method string    `json:"method,omitempty"`
	ID     string    `json:"id,omitempty"`
	Note   bool      `json:"note,omitempty"`
	Err    string    `json:"err,omitempty"`
	Ret    string    `json:"ret,omitempty"`
	Data   string    `json:"data,omitempty"`
	Snap   *Snapshot `json:"snap,omitempty"`
	Flag   string    `json:"flag,omitempty"`
}

// History is everything observed while running a scenario.
type History struct {
	Events     []Event
	BubbleErr  string // deadlock / leaked goroutines at the end of the bubble
	Overlaps   []string
	SrvSent    [][]byte // records the server passed to Send (all connections)
	CloseCalls []int    // number of Close calls the library made on each connection's channel
	Sites      map[string]int
	Active0    int64 // servers_active before and after
	Active1    int64
	MaxRunning int
}

// Known lists the method names the world's assigner resolves.
var Known = map[string]bool{"rpc.": true, "ret": true, "gate": true, "err": true, "raw": true, "cbgate": true, "notegate": true, "svc.ret": true, "rpc.user": true, "rpcret": true}

type world struct {
	t     *testing.T
	t0    time.Time
	cfg   Config
	sched *Sched
	leadK int
	srv   *jrpc2.Server

	mu      sync.Mutex
	events  []Event
	step    int
	conn    int
	gates   map[int]chan string
	parked  map[int]bool
	pushCtx map[int]context.CancelFunc

	drain      chan struct{}
	invs       atomic.Int32
	running    atomic.Int32
	maxRunning atomic.Int32

	peer      channel.Channel
	peerOnce  *sync.Once
	peerQ     chan []byte
	srvChans  []*Chan
	statusSet map[int]bool
	pushWG    sync.WaitGroup
}

func (w *world) log(e Event) {
	w.mu.Lock()
	e.Seq = len(w.events)
	e.T = int64(time.Since(w.t0))
	e.Step = w.step
	if e.Conn == 0 {
		e.Conn = w.conn
	}
	w.events = append(w.events, e)
	w.mu.Unlock()
}

func errStr(err error) string {
	if err == nil {
		return ""
	}
	switch {
	case errors.Is(err, context.Canceled):
		return "canceled"
	case errors.Is(err, context.DeadlineExceeded):
		return "deadline"
	}
	return err.Error()
}

func (w *world) gate(k int) chan string {
	w.mu.Lock()
	defer w.mu.Unlock()
	g := w.gates[k]
	if g == nil {
		g = make(chan string, 4)
		w.gates[k] = g
	}
	return g
}

type params struct {
	K     int    `json:"k"`
	Obey  bool   `json:"obey"`
	C     int    `json:"c"`
	Raw   string `json:"raw"`   // method "raw": the pre-encoded result the handler returns
	NoMsg bool   `json:"nomsg"` // method "err": the error has a code and no message text
}

func decodeParams(req *jrpc2.Request) params {
	p := params{K: -1}
	if !req.HasParams() {
		return p
	}
	s := req.ParamString()
	if strings.HasPrefix(strings.TrimSpace(s), "[") {
		var arr []json.RawMessage
		if json.Unmarshal([]byte(s), &arr) == nil && len(arr) > 0 {
			if n, err := strconv.Atoi(string(arr[0])); err == nil {
				p.K = n
			}
		}
		return p
	}
	var q params
	q.K = -1
	if json.Unmarshal([]byte(s), &q) == nil {
		return q
	}
	return p
}

// Token is what a handler invocation returns: it identifies the invocation.
type Token struct {
	K   int `json:"k"`
	Inv int `json:"inv"`
}

func (w *world) assign(ctx context.Context, method string) jrpc2.Handler {
	if !Known[method] {
		return nil
	}
	return func(ctx context.Context, req *jrpc2.Request) (result any, err error) {
		p := decodeParams(req)
		inv := int(w.invs.Add(1))
		n := w.running.Add(1)
		for {
			m := w.maxRunning.Load()
			if n <= m || w.maxRunning.CompareAndSwap(m, n) {
				break
			}
		}
		w.mu.Lock()
		w.parked[p.K] = true
		w.mu.Unlock()
		flag := ""
		if jrpc2.ServerFromContext(ctx) != w.srv {
			flag = "wrong-server-in-context"
		}
		if ir := jrpc2.InboundRequest(ctx); ir == nil || ir.Method() != req.Method() || ir.ID() != req.ID() {
			flag += " wrong-inbound-request"
		}
		w.log(Event{Kind: "enter", K: p.K, Inv: inv, Method: method, ID: req.ID(), Note: req.IsNotification(), Err: errStr(ctx.Err()), Flag: flag})
		ret := "ok"
		defer func() {
			w.mu.Lock()
			delete(w.parked, p.K)
			w.mu.Unlock()
			w.log(Event{Kind: "exit", K: p.K, Inv: inv, Method: method, ID: req.ID(), Note: req.IsNotification(), Err: errStr(ctx.Err()), Ret: ret})
			w.running.Add(-1)
		}()
		tok := Token{K: p.K, Inv: inv}
		switch method {
		case "ret", "svc.ret", "rpc.user", "rpc.", "rpcret": // ("rpcret": a name that merely begins like the reserved prefix)
			return tok, nil
		case "err":
			if p.NoMsg {
				// a handler may leave the message empty: the reply is an error object all the same
				ret = fmt.Sprintf("errnomsg:%d", p.C)
				return nil, &jrpc2.Error{Code: jrpc2.Code(p.C)}
			}
			ret = fmt.Sprintf("err:%d", p.C)
			return nil, jrpc2.Errorf(jrpc2.Code(p.C), "handler error %d", p.K)
		case "raw":
			// a pre-encoded result: valid text is the result, anything else
			// cannot be marshalled and is answered with an error
			if len(p.Raw) == 0 || !json.Valid([]byte(p.Raw)) {
				ret = "bad"
			} else {
				ret = "raw:" + p.Raw
			}
			return json.RawMessage(p.Raw), nil
		case "cbgate":
			rsp, cerr := w.srv.Callback(ctx, "cb", map[string]int{"k": p.K})
			e := Event{Kind: "cbret", K: p.K, Inv: inv, Err: errStr(cerr)}
			if rsp != nil {
				e.Data = rsp.ResultString()
			}
			w.log(e)
		case "notegate":
			nerr := w.srv.Notify(ctx, "note", map[string]int{"k": p.K})
			w.log(Event{Kind: "noteret", K: p.K, Inv: inv, Err: errStr(nerr)})
		}
		g := w.gate(p.K)
		done := ctx.Done()
		for {
			select {
			case o := <-g:
				switch {
				case o == "ok":
					return tok, nil
				case strings.HasPrefix(o, "err:"):
					c, _ := strconv.Atoi(o[4:])
					ret = o
					return nil, jrpc2.Errorf(jrpc2.Code(c), "handler error %d", p.K).WithData(tok)
				case o == "ctxerr":
					if ce := ctx.Err(); ce != nil {
						ret = "ctxerr:" + errStr(ce)
						return nil, fmt.Errorf("wrapped: %w", ce)
					}
					ret = "err:-32001"
					return nil, jrpc2.Errorf(-32001, "handler error %d", p.K).WithData(tok)
				case o == "endbase":
					// ends the base context NewContext made for this very request
					if c, ok := ctx.Value(ownBaseKey{}).(context.CancelFunc); ok {
						c()
					}
					return tok, nil
				case o == "bad":
					ret = "bad"
					return make(chan int), nil
				case o == "baderr":
					// an *Error whose Data are not valid JSON: the reply must still be an error response
					ret = "bad"
					return nil, &jrpc2.Error{Code: 7, Message: fmt.Sprintf("handler error %d", p.K), Data: json.RawMessage(`{"k":`)}
				case o == "emptyraw":
					// an empty pre-encoded result cannot be marshalled either: an error response
					ret = "bad"
					return json.RawMessage{}, nil
				case o == "badraw":
					// a pre-encoded result that is not valid JSON: cannot be marshalled either
					ret = "bad"
					return json.RawMessage(`{"ok":}`), nil
				}
				return tok, nil
			case <-w.drain:
				return tok, nil
			case <-done:
				w.log(Event{Kind: "ctxdone", K: p.K, Inv: inv, Err: errStr(ctx.Err())})
				if p.Obey {
					ret = "ctxerr:" + errStr(ctx.Err())
					return nil, ctx.Err()
				}
				done = nil
			}
		}
	}
}

type ownBaseKey struct{}

var errBaseCause = errors.New("the embedder's own reason")

type assignFunc func(ctx context.Context, method string) jrpc2.Handler

func (f assignFunc) Assign(ctx context.Context, method string) jrpc2.Handler { return f(ctx, method) }

func (w *world) connect() {
	w.conn++
	var cli, srv channel.Channel
	if w.cfg.Chan == "pipe" || w.cfg.Chan == "fragile" {
		cli, srv = Pipe()
	} else {
		cli, srv = channel.Direct()
	}
	var faults []Fault
	if w.conn == 1 {
		faults = w.cfg.Faults
	}
	sc := Wrap(fmt.Sprintf("srv%d", w.conn), &onceCloser{Channel: srv}, w.cfg.Yield, faults)
	sc.Fragile = w.cfg.Chan == "fragile"
	sc.ReuseRecv = w.cfg.Chan == "fragile" // one buffer for frames going out, one for records coming in
	sc.LineLike = w.cfg.Chan == "fragile"  // and, like channel.Line, no line feeds inside a message
	conn := w.conn
	sc.onEvent = func(kind string, data []byte, err error) {
		w.log(Event{Kind: kind, Conn: conn, Data: string(data), Err: errStr(err)})
	}
	w.srvChans = append(w.srvChans, sc)
	w.peer = cli
	once := new(sync.Once)
	w.peerOnce = once
	q := make(chan []byte, 4096)
	w.peerQ = q
	// Peer writer: sends queued records in order; a record counts as received
	// by the server when Send returns.
	go func() {
		dead := false
		for rec := range q {
			if dead {
				continue
			}
			w.log(Event{Kind: "sending", Conn: conn, Data: string(rec)})
			err := cli.Send(rec)
			w.log(Event{Kind: "sent", Conn: conn, Data: string(rec), Err: errStr(err)})
			if err != nil {
				dead = true
			}
		}
	}()
	// Peer reader: keeps reading until the server closes; then closes its own end.
	go func() {
		for {
			b, err := cli.Recv()
			if err != nil {
				w.log(Event{Kind: "peereof", Conn: conn, Err: errStr(err)})
				once.Do(func() { cli.Close() })
				return
			}
			w.log(Event{Kind: "wire", Conn: conn, Data: string(b)})
		}
	}()
	w.srv.Start(sc)
}

// onceCloser protects the process from a second Close on a channel.Direct end
// (which would panic); the wrapper around it still counts every Close call.
type onceCloser struct {
	channel.Channel
	once sync.Once
}

func (o *onceCloser) Close() error {
	var err error
	o.once.Do(func() { err = o.Channel.Close() })
	return err
}

func (w *world) snapshot() *Snapshot {
	res, cbs, q, running := jrpc2.VerifServerSnapshot(w.srv)
	s := &Snapshot{Reserved: res, Callbacks: cbs, Queued: q, Running: running, InHandler: int(w.running.Load())}
	w.mu.Lock()
	for k := range w.parked {
		s.Parked = append(s.Parked, k)
	}
	w.mu.Unlock()
	sort.Ints(s.Parked)
	return s
}

func (w *world) settle() {
	w.sched.Settle()
	w.log(Event{Kind: "quiesce", Snap: w.snapshot()})
}

func (w *world) waitStatus() {
	w.mu.Lock()
	if w.statusSet[w.conn] {
		w.mu.Unlock()
		return
	}
	w.statusSet[w.conn] = true
	conn := w.conn
	w.mu.Unlock()
	go func() {
		st := w.srv.WaitStatus()
		flag := ""
		if st.Stopped {
			flag = "stopped"
		}
		if st.Closed {
			flag += "closed"
		}
		w.log(Event{Kind: "status", Conn: conn, Flag: flag, Err: errStr(st.Err)})
	}()
}

// callbackID finds on the wire the id the server gave to a callback request.
func (w *world) callbackID(kind string, k int) string {
	w.mu.Lock()
	defer w.mu.Unlock()
	want := fmt.Sprintf(`"params":{"p":%d}`, k)
	if kind == "handler" {
		want = fmt.Sprintf(`"params":{"k":%d}`, k)
	}
	for i := len(w.events) - 1; i >= 0; i-- {
		e := w.events[i]
		if e.Kind != "wire" || e.Conn != w.conn || !strings.Contains(e.Data, want) || !strings.Contains(e.Data, `"method"`) {
			continue
		}
		var m struct {
			ID json.RawMessage `json:"id"`
		}
		if json.Unmarshal([]byte(e.Data), &m) == nil && len(m.ID) > 0 {
			return string(m.ID)
		}
	}
	return ""
}

func (w *world) hasStatus(conn int) bool {
	w.mu.Lock()
	defer w.mu.Unlock()
	for _, e := range w.events {
		if e.Kind == "status" && e.Conn == conn {
			return true
		}
	}
	return false
}

func (w *world) exec(i int, st Step) {
	w.mu.Lock()
	w.step = i
	w.mu.Unlock()
	switch st.Op {
	case "send":
		w.log(Event{Kind: "queue", Data: string(st.Rec)})
		w.peerQ <- append([]byte(nil), st.Rec...)
	case "release":
		out := st.Out
		if out == "" {
			out = "ok"
		}
		rel := func() {
			w.log(Event{Kind: "release", K: st.K, Ret: st.Out})
			select {
			case w.gate(st.K) <- out:
			default:
			}
		}
		if st.After > 0 {
			go func() {
				w.sched.Sleep(time.Duration(st.After))
				rel()
			}()
		} else {
			rel()
		}
	case "cancel":
		go func() {
			if st.After > 0 {
				w.sched.Sleep(time.Duration(st.After))
			}
			w.log(Event{Kind: "cancel", ID: st.ID})
			w.srv.CancelRequest(st.ID)
			w.log(Event{Kind: "cancel-done", ID: st.ID})
		}()
	case "stop":
		w.log(Event{Kind: "stop"})
		go w.srv.Stop()
	case "peerclose":
		w.log(Event{Kind: "peerclose"})
		once, cli := w.peerOnce, w.peer
		go once.Do(func() { cli.Close() })
	case "push":
		ctx, cancel := context.WithCancel(context.Background())
		if st.K%3 == 0 {
			// every third push uses a context with a cause of the caller's own
			c, cc := context.WithCancelCause(context.Background())
			ctx, cancel = c, func() { cc(errBaseCause) }
		}
		if st.D > 0 && st.K%3 == 0 {
			ctx, cancel = context.WithTimeoutCause(context.Background(), time.Duration(st.D)*time.Millisecond, errBaseCause)
		} else if st.D > 0 {
			ctx, cancel = context.WithTimeout(context.Background(), time.Duration(st.D)*time.Millisecond)
		} else if st.D == -2 {
			// a context that has already ended: the request goes out all the same
			// (a handler telling its client that it was cancelled does this)
			cancel()
		} else if st.D < 0 {
			// a context that can never end: only a reply or the end of the
			// connection completes the push
			ctx, cancel = context.Background(), func() {}
		}
		w.mu.Lock()
		w.pushCtx[st.K] = cancel
		w.mu.Unlock()
		w.log(Event{Kind: "push", K: st.K, Method: st.Push})
		w.pushWG.Add(1)
		go func() {
			defer w.pushWG.Done()
			defer cancel()
			var params any = map[string]int{"p": st.K}
			if st.Out == "badparams" {
				params = map[string]any{"p": st.K, "x": make(chan int)} // cannot be marshalled
			} else if st.Out == "bigparams" {
				// parameters whose encoding is a few hundred bytes long, numbers mostly
				pad := make([]int, 60)
				for i := range pad {
					pad[i] = 100001 + i*st.K
				}
				params = map[string]any{"p": st.K, "pad": pad}
			} else if st.Out == "rawparams" {
				// parameters the caller has encoded already, the way an indenting encoder writes them
				params = json.RawMessage(fmt.Sprintf("{\n\t\"p\": %d\n}\n", st.K))
			}
			if st.Push == "notify" {
				err := w.srv.Notify(ctx, MethodName("pnote", st.K), params)
				e := Event{Kind: "pushret", K: st.K, Method: "notify", Err: errStr(err)}
				if err == jrpc2.ErrPushUnsupported {
					e.Flag = "unsupported"
				} else if err == jrpc2.ErrConnClosed {
					e.Flag = "connclosed"
				} else if err != nil {
					e.Flag = "othererr"
				}
				w.log(e)
				return
			}
			rsp, err := w.srv.Callback(ctx, MethodName("pcall", st.K), params)
			e := Event{Kind: "pushret", K: st.K, Method: "callback", Err: errStr(err)}
			if err == jrpc2.ErrPushUnsupported {
				e.Flag = "unsupported"
			} else if err == jrpc2.ErrConnClosed {
				e.Flag = "connclosed"
			} else if err == context.Canceled {
				e.Flag = "ctx-canceled"
			} else if err == context.DeadlineExceeded {
				e.Flag = "ctx-deadline"
			} else if je, ok := err.(*jrpc2.Error); ok {
				e.Flag = "rpcerror"
				b, _ := json.Marshal(je)
				e.Data = string(b)
			} else if err != nil {
				e.Flag = "othererr"
			}
			if rsp != nil {
				e.Data = rsp.ResultString()
				e.ID = rsp.ID()
			}
			w.log(e)
		}()
	case "pushcancel":
		w.mu.Lock()
		c := w.pushCtx[st.K]
		w.mu.Unlock()
		if st.After > 0 {
			// later on the fake clock: it can fall between the arrival of a reply
			// and the moment the waiting Callback acts on it
			go func() {
				w.sched.Sleep(time.Duration(st.After))
				w.log(Event{Kind: "pushcancel", K: st.K})
				if c != nil {
					c()
				}
			}()
			break
		}
		w.log(Event{Kind: "pushcancel", K: st.K})
		if c != nil {
			c()
		}
	case "cbreply":
		// The peer answers the callback issued by push #K (Push=="push") or by
		// the handler with nonce K (Push=="handler"): the id is looked up on the wire.
		id := w.callbackID(st.Push, st.K)
		if id == "" {
			id = fmt.Sprint(9000 + st.K)
		}
		var rec string
		if st.ID == "quoted" {
			// the digits of the callback's id as a JSON string: another id, one the
			// server never issued - an unsolicited reply
			id = strconv.Quote(id)
		}
		switch st.Out {
		case "error":
			rec = fmt.Sprintf(`{"jsonrpc":"2.0","id":%s,"error":{"code":-32050,"message":"peer says no %d","data":{"p":%d}}}`, id, st.D, st.K)
		default:
			rec = fmt.Sprintf(`{"jsonrpc":"2.0","id":%s,"result":{"p":%d,"n":%d}}`, id, st.K, st.D)
		}
		if st.ID == "lead" {
			// the peer answers inside a batch that leads with a call of its own
			w.leadK++
			rec = fmt.Sprintf(`[{"jsonrpc":"2.0","id":"lead%d","method":"ret","params":{"k":%d}},%s]`, w.leadK, 700000+w.leadK, rec)
		}
		w.log(Event{Kind: "cbreply", K: st.K, ID: id, Method: st.Push, Data: rec})
		w.log(Event{Kind: "queue", Data: rec})
		w.peerQ <- []byte(rec)
	case "advance":
		w.log(Event{Kind: "advance", K: st.D})
		time.Sleep(time.Duration(st.D) * time.Millisecond)
	case "waitstatus":
		w.waitStatus()
	case "restartnow":
		// Wait for the end of the stopping server in this very step and start it
		// again at once, so that whatever the old connection left running
		// (callback waiters, handlers) overlaps the new one.  Only generated after
		// a stop or peerclose step.
		if !w.hasStatus(w.conn) {
			w.mu.Lock()
			already := w.statusSet[w.conn]
			w.statusSet[w.conn] = true
			conn := w.conn
			w.mu.Unlock()
			if !already {
				go func() {
					st := w.srv.WaitStatus()
					flag := ""
					if st.Stopped {
						flag = "stopped"
					}
					if st.Closed {
						flag += "closed"
					}
					w.log(Event{Kind: "status", Conn: conn, Flag: flag, Err: errStr(st.Err)})
				}()
			}
			// WaitStatus waits for every handler (also for the retained
			// notifications that only start now): let parked ones go as they
			// appear, and let the fake clock advance in the smallest steps.
			for i := 0; i < 5000 && !w.hasStatus(conn); i++ {
				synctest.Wait()
				if w.hasStatus(conn) {
					break
				}
				w.mu.Lock()
				var ks []int
				for k, on := range w.parked {
					if on {
						ks = append(ks, k)
					}
				}
				w.mu.Unlock()
				sort.Ints(ks)
				for _, k := range ks {
					w.log(Event{Kind: "release", K: k, Ret: "ok"})
					select {
					case w.gate(k) <- "ok":
					default:
					}
				}
				if len(ks) == 0 {
					time.Sleep(time.Microsecond)
				}
			}
		}
		fallthrough
	case "restart":
		if w.hasStatus(w.conn) {
			w.log(Event{Kind: "restart"})
			once, cli := w.peerOnce, w.peer
			once.Do(func() { cli.Close() })
			close(w.peerQ)
			w.connect()
		} else {
			w.log(Event{Kind: "restart-skipped"})
		}
	}
	if !st.Burst {
		w.settle()
	}
}

// Run executes the scenario in a fresh bubble and returns its history.
func Run(t *testing.T, sc Scenario) (h *History) {
	h = &History{}
	defer func() {
		if p := recover(); p != nil {
			h.BubbleErr = fmt.Sprint(p)
			if os.Getenv("VERIF_DEBUG") != "" {
				buf := make([]byte, 1<<20)
				fmt.Printf("goroutines at bubble failure:\n%s\n", buf[:runtime.Stack(buf, true)])
			}
		}
	}()
	sched := &Sched{Salt: sc.Cfg.Salt, Pins: sc.Cfg.Pins, Off: sc.Cfg.NoHooks}
	sched.Install()
	defer sched.Remove()
	var w *world
	defer func() {
		if w != nil {
			w.mu.Lock()
			h.Events = append([]Event(nil), w.events...)
			w.mu.Unlock()
			for _, c := range w.srvChans {
				h.Overlaps = append(h.Overlaps, c.Overlaps()...)
				h.SrvSent = append(h.SrvSent, c.SentRecords()...)
				_, _, nc := c.Counts()
				h.CloseCalls = append(h.CloseCalls, nc)
			}
			h.MaxRunning = int(w.maxRunning.Load())
			h.Sites = sched.Sites()
		}
	}()
	synctest.Test(t, func(t *testing.T) {
		w = &world{t: t, t0: time.Now(), cfg: sc.Cfg, sched: sched, gates: map[int]chan string{}, parked: map[int]bool{},
			pushCtx: map[int]context.CancelFunc{}, drain: make(chan struct{}), statusSet: map[int]bool{}}
		sched.Trace = func(site, key, phase string) {
			if site == "rsp.wait.woke" && phase == "arrive" {
				// a waiting Callback has been handed its outcome (key = callback id)
				w.log(Event{Kind: "woke", ID: key})
				return
			}
			// where a dispatched request stands relative to the slot semaphore
			if site != "srv.invoke.acquire" {
				return
			}
			var p params
			p.K = -1
			if json.Unmarshal([]byte(key), &p) != nil || p.K < 0 {
				var arr []int
				if json.Unmarshal([]byte(key), &arr) != nil || len(arr) == 0 {
					return
				}
				p.K = arr[0]
			}
			w.log(Event{Kind: "acquire-" + phase, K: p.K})
		}
		h.Active0 = jrpc2.VerifServersActive()
		opts := &jrpc2.ServerOptions{AllowPush: sc.Cfg.AllowPush, DisableBuiltin: sc.Cfg.DisableBuiltin, Concurrency: sc.Cfg.Concurrency}
		if n := sc.Cfg.LogYield; n > 0 {
			// a Logger that gives up the processor: the server logs at many points,
			// under its mutex; whatever is logged outside it becomes a wider window
			opts.Logger = func(string) {
				for i := 0; i < n; i++ {
					runtime.Gosched()
				}
			}
		}
		var baseCancels []context.CancelFunc
		var bmu sync.Mutex
		if sc.Cfg.BaseDeadlineMs > 0 {
			opts.NewContext = func() context.Context {
				// (the deadline carries a cause of the embedder's own: what ends the
				// requests is still the context's DeadlineExceeded)
				ctx, cancel := context.WithTimeoutCause(context.Background(), time.Duration(sc.Cfg.BaseDeadlineMs)*time.Millisecond, errBaseCause)
				bmu.Lock()
				baseCancels = append(baseCancels, cancel)
				bmu.Unlock()
				return ctx
			}
		}
		if sc.Cfg.OwnBase && opts.NewContext == nil {
			opts.NewContext = func() context.Context {
				ctx, cancel := context.WithCancel(context.Background())
				bmu.Lock()
				baseCancels = append(baseCancels, cancel)
				bmu.Unlock()
				return context.WithValue(ctx, ownBaseKey{}, cancel)
			}
		}
		w.srv = jrpc2.NewServer(assignFunc(w.assign), opts)
		// the options belong to the caller again: what happens to them now is none
		// of this server's business (a caller that reuses one struct for several servers)
		opts.Concurrency += 7
		opts.AllowPush = !opts.AllowPush
		opts.DisableBuiltin = !opts.DisableBuiltin
		w.connect()
		w.settle()
		for i, st := range sc.Steps {
			w.exec(i, st)
		}
		// Epilogue: let everything finish, close the peer, collect the status.
		w.mu.Lock()
		w.step = len(sc.Steps)
		w.mu.Unlock()
		w.log(Event{Kind: "epilogue"})
		// The peer answers every callback that is still outstanding, so that
		// handlers blocked inside Callback can go on (several rounds: a released
		// handler may be followed by another one that pushes).
		close(w.drain)
		for round := 0; round < 6; round++ {
			w.settle()
			_, cbs, _, running := jrpc2.VerifServerSnapshot(w.srv)
			if !running || len(cbs) == 0 {
				break
			}
			for _, id := range cbs {
				rec := fmt.Sprintf(`{"jsonrpc":"2.0","id":%s,"result":"epilogue"}`, id)
				w.log(Event{Kind: "queue", Data: rec})
				w.peerQ <- []byte(rec)
			}
		}
		w.settle()
		w.mu.Lock()
		for _, c := range w.pushCtx {
			c()
		}
		w.mu.Unlock()
		w.settle()
		once, cli := w.peerOnce, w.peer
		w.log(Event{Kind: "peerclose", Flag: "epilogue"})
		once.Do(func() { cli.Close() })
		close(w.peerQ)
		w.settle()
		w.waitStatus()
		w.settle()
		if !w.hasStatus(w.conn) {
			w.log(Event{Kind: "waitstatus-blocked"})
		}
		h.Active1 = jrpc2.VerifServersActive()
		bmu.Lock()
		for _, c := range baseCancels {
			c()
		}
		bmu.Unlock()
	})
	return h
}
