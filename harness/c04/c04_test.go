// Package c04 checks property C04: the client matches replies to requests by
// id, whatever the peer's ordering.
package c04

import (
	"strings"
	"testing"

	"pgregory.net/rapid"

	"verif/harness/engine"
	"verif/harness/gen"
	"verif/harness/oracle"
	"verif/harness/sim"
)

func run(t *testing.T, sc sim.CScenario) engine.Verdict {
	h := sim.RunClient(t, sc)
	for _, p := range oracle.ClientCheck(sc, h) {
		if strings.HasPrefix(p.Sig, "C04/") || p.Sig == "C05/goroutines-left-or-deadlock" || p.Sig == "C05/operation-return-count" {
			return engine.Failf(p.Sig, "%s\nscript:\n%s\nhistory:\n%s", p.Msg, oracle.CScriptText(sc), oracle.CHistoryText(h))
		}
	}
	// classification
	outstanding, inOrder := 0, true
	var replyOrder []int
	hostile, dup, arrays := 0, 0, 0
	seen := map[[2]int]bool{}
	for _, st := range sc.Steps {
		switch st.Op {
		case "call", "callresult":
			outstanding++
		case "batch":
			for _, n := range st.Specs {
				if !n {
					outstanding++
				}
			}
		case "reply":
			if st.Array {
				arrays++
			}
			for _, it := range st.Items {
				switch it.Kind {
				case "result", "error":
					if seen[[2]int{it.Op, it.I}] {
						dup++
					}
					seen[[2]int{it.Op, it.I}] = true
					replyOrder = append(replyOrder, it.Op*10+it.I)
				default:
					hostile++
				}
			}
		}
	}
	for i := 1; i < len(replyOrder); i++ {
		if replyOrder[i] < replyOrder[i-1] {
			inOrder = false
		}
	}
	v := engine.Verdict{NonTrivial: outstanding >= 2 && (!inOrder || arrays > 0 || hostile > 0 || dup > 0)}
	add := func(b bool, s string) {
		if b {
			v.Labels = append(v.Labels, s)
		}
	}
	add(!inOrder, "replies-out-of-order")
	add(arrays > 0, "replies-in-arrays")
	add(hostile > 0, "hostile-members")
	add(dup > 0, "duplicate-replies")
	add(outstanding >= 3, "three-or-more-outstanding")
	return v
}

// exhaustive plans for up to three outstanding replies
func enumPlans(env engine.Env, yield func(sim.CScenario) bool) {
	type cfgT struct {
		steps   []sim.CStep
		entries [][2]int
	}
	cfgs := []cfgT{
		{[]sim.CStep{{Op: "call", K: 1, Ctx: "bg", Burst: true}, {Op: "call", K: 2, Ctx: "bg", Burst: true}, {Op: "call", K: 3, Ctx: "bg"}}, [][2]int{{1, 0}, {2, 0}, {3, 0}}},
		{[]sim.CStep{{Op: "batch", K: 1, Ctx: "bg", Specs: []bool{false, true, false, false}}}, [][2]int{{1, 0}, {1, 2}, {1, 3}}},
		{[]sim.CStep{{Op: "callresult", K: 1, Ctx: "bg", Burst: true}, {Op: "batch", K: 2, Ctx: "bg", Specs: []bool{false, false}}}, [][2]int{{1, 0}, {2, 0}, {2, 1}}},
		{[]sim.CStep{{Op: "call", K: 1, Ctx: "bg", Burst: true}, {Op: "call", K: 2, Ctx: "bg"}}, [][2]int{{1, 0}, {2, 0}}},
	}
	extras := []string{"", "unknown", "nullid", "nonobject", "both", "neither", "strid", "fltid", "badversion", "extrafield", "note", "callback", "dup"}
	idx := 0
	var permute func(a [][2]int, k int, f func([][2]int))
	permute = func(a [][2]int, k int, f func([][2]int)) {
		if k == len(a) {
			f(append([][2]int(nil), a...))
			return
		}
		for i := k; i < len(a); i++ {
			a[k], a[i] = a[i], a[k]
			permute(a, k+1, f)
			a[k], a[i] = a[i], a[k]
		}
	}
	stop := false
	for ci, cf := range cfgs {
		permute(append([][2]int(nil), cf.entries...), 0, func(p [][2]int) {
			n := len(p)
			for mask := 0; mask < 1<<(n-1) && !stop; mask++ { // composition: bit i set = cut after item i
				for _, x := range extras {
					for pos := 0; pos <= n; pos++ {
						if x == "" && pos > 0 {
							break
						}
						for _, burst := range []bool{false, true} {
							idx++
							if !env.Mine(idx) {
								continue
							}
							sc := sim.CScenario{Cfg: sim.CConfig{Chan: []string{"direct", "pipe"}[idx%2], Salt: uint64(env.Seed)*7919 + uint64(idx)}}
							sc.Steps = append(sc.Steps, cf.steps...)
							var items []sim.ReplyItem
							var cuts []bool
							for i, e := range p {
								items = append(items, sim.ReplyItem{Kind: []string{"result", "error"}[(i+ci)%2], Op: e[0], I: e[1], N: 1})
								cuts = append(cuts, i < n-1 && mask&(1<<i) != 0)
							}
							if x != "" {
								it := sim.ReplyItem{Kind: x, Op: p[0][0], I: p[0][1], N: 9}
								if x == "dup" {
									it.Kind = "result"
									it.N = 2
								}
								items = append(items[:pos:pos], append([]sim.ReplyItem{it}, items[pos:]...)...)
								cuts = append(cuts[:pos:pos], append([]bool{false}, cuts[pos:]...)...)
							}
							var cur []sim.ReplyItem
							for i, it := range items {
								cur = append(cur, it)
								if i == len(items)-1 || cuts[i] {
									sc.Steps = append(sc.Steps, sim.CStep{Op: "reply", Items: cur, Array: len(cur) > 1, Burst: burst})
									cur = nil
								}
							}
							sc.Steps = append(sc.Steps, sim.CStep{Op: "cbrelease", K: 9})
							if !yield(sc) {
								stop = true
								return
							}
						}
					}
				}
			}
		})
		if stop {
			return
		}
	}
}

const rule = "non-trivial = at least two outstanding requests and a plan that is not one reply per request message in order (out of order, grouped into arrays, duplicated, or interleaved with hostile / foreign members); distinct = hash of the scenario"

var parts = []engine.AnyPart{
	engine.Part[sim.CScenario]{Name: "plans", Run: run, Enum: enumPlans,
		Rule:           "for 2-3 outstanding replies (three calls; one batch; a call and a batch; two calls): EVERY permutation of the replies x EVERY partition into single objects and arrays x {no extra member, or one extra member of 12 kinds (unknown id, id null, non-object, result+error, neither, string/float variant of a pending id, bad version, extra field, server notification, server call, duplicate) at every position} x {records settled one by one, records racing in a burst}; " + rule,
		EnumExhaustive: "all permutations x partitions x single-extra-member insertions for the four 2-3 reply configurations"},
	engine.Part[sim.CScenario]{Name: "random", Run: run, Gen: func(t *rapid.T) sim.CScenario { return gen.MatchScenario(t) },
		Rule: "1-6 concurrent calls / batches (1-4 specs, some notifications) against a raw scripted peer answering from a generated reply plan (permutation, partition, duplicates with different payloads, up to 4 hostile or foreign members), hook delays on the cli.* sites; " + rule},
}

func TestProp(t *testing.T)   { engine.RunParts(t, "C04", parts) }
func TestReplay(t *testing.T) { engine.ReplayParts(t, "C04", parts) }
