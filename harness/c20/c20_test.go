// Package c20 checks property C20: server.Loop (fresh service and exactly one
// Finish per connection; Loop exits last).
package c20

import (
	"context"
	"errors"
	"fmt"
	"io"
	"net"
	"os"
	"strings"
	"sync"
	"testing"
	"testing/synctest"
	"time"

	"github.com/creachadair/jrpc2"
	"github.com/creachadair/jrpc2/channel"
	"github.com/creachadair/jrpc2/server"
	"pgregory.net/rapid"

	"verif/harness/engine"
	"verif/harness/sim"
)

// Step of a loop scenario.
type Step struct {
	Op         string `json:"op"`                     // connect call release clientclose cancel acceptfail
	K          int    `json:"k,omitempty"`            // connection serial / nonce for release
	N          int    `json:"n,omitempty"`            // call: nonce
	Fail       bool   `json:"fail,omitempty"`         // connect: the service's Assigner fails
	RecvFailAt int    `json:"recv_fail_at,omitempty"` // connect: the k-th Recv on this connection fails with an injected error
	Gate       bool   `json:"gate,omitempty"`         // call: parking handler
	Note       bool   `json:"note,omitempty"`         // call: sent as a notification
	Batch      []Step `json:"batch,omitempty"`        // batch: the members (call steps) of one array
	Err        string `json:"err,omitempty"`          // acceptfail: netclosed chanclosed other timeout eof wrapeof
	Burst      bool   `json:"burst,omitempty"`
	D          int    `json:"d,omitempty"` // cancel: fake nanoseconds to wait first (lands between two hook sites of a starting connection)
}

func (s Step) String() string {
	b := ""
	if s.Burst {
		b = "~"
	}
	switch s.Op {
	case "connect":
		return fmt.Sprintf("%sconnect #%d assignerfails=%v", b, s.K, s.Fail)
	case "call":
		return fmt.Sprintf("%scall conn #%d nonce %d gate=%v note=%v", b, s.K, s.N, s.Gate, s.Note)
	case "batch":
		var ms []string
		for _, m := range s.Batch {
			ms = append(ms, fmt.Sprintf("nonce %d gate=%v note=%v", m.N, m.Gate, m.Note))
		}
		return fmt.Sprintf("%sbatch conn #%d [%s]", b, s.K, strings.Join(ms, "; "))
	case "cbnote":
		return fmt.Sprintf("%scbnote conn #%d nonce %d (a notification whose handler awaits a callback nobody answers)", b, s.K, s.N)
	case "release":
		return fmt.Sprintf("%srelease nonce %d", b, s.K)
	case "clientclose":
		return fmt.Sprintf("%sclientclose #%d", b, s.K)
	case "acceptfail":
		return fmt.Sprintf("%sacceptfail %s", b, s.Err)
	}
	if s.Op == "cancel" && s.D > 0 {
		return fmt.Sprintf("%scancel after %dns", b, s.D)
	}
	return b + s.Op
}

// Scenario for Loop.
type Scenario struct {
	Net       bool      `json:"net,omitempty"`        // Loop over server.NetAccepter(in-memory net.Listener, channel.Line) instead of the in-memory Accepter
	PreCancel bool      `json:"pre_cancel,omitempty"` // the context has ended before Loop is called
	OnCtxEnd  string    `json:"on_ctx_end,omitempty"` // in-memory accepter: what Accept yields when the context ends ("" closed listener, "other", "ctxerr")
	Salt      uint64    `json:"salt,omitempty"`
	Pins      []sim.Pin `json:"pins,omitempty"`
	NoHooks   bool      `json:"no_hooks,omitempty"`
	Push      bool      `json:"push,omitempty"`     // the servers are push-enabled (LoopOptions.ServerOptions.AllowPush)
	SlotCtx   bool      `json:"slot_ctx,omitempty"` // one slot per server, and every request context derives from the loop's context (ServerOptions.Concurrency 1, NewContext)
	Steps     []Step    `json:"steps"`
}

type event struct {
	seq    int
	step   int
	kind   string
	k      int // connection / service id
	n      int // nonce
	flag   string
	err    string
	sameAs bool
	inRecv int // finish: server-side connections with a Recv in progress at that moment
}

var errOther = errors.New("accepter exploded")
var errWrapEOF = fmt.Errorf("no more connections: %w", io.EOF)

// errTimeout is a net.Error whose Timeout method reports true.
var errTimeout error = &net.OpError{Op: "accept", Net: "mem", Err: os.ErrDeadlineExceeded}

type svc struct {
	id   int
	w    *lworld
	fail bool
	asg  jrpc2.Assigner
}

func (s *svc) Assigner() (jrpc2.Assigner, error) {
	s.w.log(event{kind: "assigner", k: s.id, flag: fmt.Sprint(!s.fail)})
	if s.fail {
		if s.id%2 == 0 {
			// a half-built assigner handed back together with the error: still a failure
			return lassign{s.w, s.id}, errors.New("no assigner today")
		}
		return nil, errors.New("no assigner today")
	}
	s.asg = lassign{s.w, s.id}
	return s.asg, nil
}

func (s *svc) Finish(a jrpc2.Assigner, st jrpc2.ServerStatus) {
	flag := ""
	if st.Stopped {
		flag = "stopped"
	}
	if st.Closed {
		flag += "closed"
	}
	e := event{kind: "finish", k: s.id, flag: flag, sameAs: a == s.asg}
	// counted and logged in one critical section: two services finishing at the
	// same moment must appear in the log in the order in which they counted
	s.w.mu.Lock()
	for _, c := range s.w.chans {
		if c.RecvInProgress() {
			e.inRecv++
		}
	}
	if st.Err != nil {
		e.err = st.Err.Error()
	}
	e.seq = len(s.w.events)
	e.step = s.w.step
	s.w.events = append(s.w.events, e)
	s.w.mu.Unlock()
}

type lassign struct {
	w  *lworld
	id int
}

func (a lassign) Assign(ctx context.Context, method string) jrpc2.Handler {
	if method != "gate" && method != "ret" && method != "cbnote" {
		return nil
	}
	return func(ctx context.Context, req *jrpc2.Request) (any, error) {
		var p struct{ N int }
		req.UnmarshalParams(&p)
		if method == "cbnote" {
			// sent as a notification: its context does not end when the server
			// stops, only the pending callback does
			a.w.log(event{kind: "enter", k: a.id, n: p.N, flag: "note"})
			_, err := jrpc2.ServerFromContext(ctx).Callback(ctx, "cb", nil)
			a.w.log(event{kind: "exit", k: a.id, n: p.N, flag: "note", err: fmt.Sprint(err)})
			return nil, nil
		}
		nflag := ""
		if req.IsNotification() {
			nflag = "note" // its context does not end when the server stops
		}
		a.w.log(event{kind: "enter", k: a.id, n: p.N, flag: nflag})
		defer func() { a.w.log(event{kind: "exit", k: a.id, n: p.N, flag: nflag, err: fmt.Sprint(ctx.Err())}) }()
		if method == "ret" {
			return p.N, nil
		}
		done := ctx.Done()
		for {
			select {
			case <-a.w.gate(p.N):
				return p.N, nil
			case <-a.w.drain:
				return p.N, nil
			case <-done:
				a.w.log(event{kind: "ctxdone", k: a.id, n: p.N})
				done = nil
			}
		}
	}
}

type lworld struct {
	mu     sync.Mutex
	events []event
	step   int
	gates  map[int]chan struct{}
	drain  chan struct{}
	chans  []*sim.Chan // server sides of the in-memory connections
}

func (w *lworld) log(e event) {
	w.mu.Lock()
	e.seq = len(w.events)
	e.step = w.step
	w.events = append(w.events, e)
	w.mu.Unlock()
}

func (w *lworld) gate(n int) chan struct{} {
	w.mu.Lock()
	defer w.mu.Unlock()
	if w.gates[n] == nil {
		w.gates[n] = make(chan struct{}, 2)
	}
	return w.gates[n]
}

type accepter struct {
	conns    chan channel.Channel
	fail     chan error
	onCtxEnd string // what Accept yields when the context ends: "" closed listener, "other", "ctxerr"
}

func (a *accepter) Accept(ctx context.Context) (channel.Channel, error) {
	select {
	case c := <-a.conns:
		return c, nil
	case err := <-a.fail:
		return nil, err
	case <-ctx.Done():
		switch a.onCtxEnd {
		case "other":
			return nil, errOther // an accepter of the user's own may fail in its own way
		case "ctxerr":
			return nil, ctx.Err()
		}
		// what NetAccepter yields when the context ends: a closed-listener error
		return nil, fmt.Errorf("accept: %w", net.ErrClosed)
	}
}

// memListener is a net.Listener fed by the script.
type memListener struct {
	conns  chan net.Conn
	fail   chan error
	closed chan struct{}
	once   sync.Once
	mu     sync.Mutex
	closes int
}

func (l *memListener) Accept() (net.Conn, error) {
	select {
	case <-l.closed:
		return nil, &net.OpError{Op: "accept", Net: "mem", Err: net.ErrClosed}
	default:
	}
	select {
	case c := <-l.conns:
		return c, nil
	case err := <-l.fail:
		return nil, err
	case <-l.closed:
		return nil, &net.OpError{Op: "accept", Net: "mem", Err: net.ErrClosed}
	}
}

func (l *memListener) Close() error {
	l.mu.Lock()
	l.closes++
	l.mu.Unlock()
	err := error(&net.OpError{Op: "close", Net: "mem", Err: net.ErrClosed})
	l.once.Do(func() { close(l.closed); err = nil })
	return err
}

func (l *memListener) Addr() net.Addr { return memAddr{} }

type memAddr struct{}

func (memAddr) Network() string { return "mem" }
func (memAddr) String() string  { return "mem" }

// countConn counts Close calls on the server side of a net.Pipe.
type countConn struct {
	net.Conn
	mu     sync.Mutex
	closes int
}

func (c *countConn) Close() error {
	c.mu.Lock()
	c.closes++
	c.mu.Unlock()
	return c.Conn.Close()
}

type conn struct {
	sendQ       chan []byte // records for the peer's single writer goroutine
	netSide     *countConn
	id          int
	peer        channel.Channel
	srvSide     *sim.Chan
	once        sync.Once
	fail        bool
	acc         bool
	faultAt     int
	netClosed   bool
	offer       chan struct{}
	cancelOffer chan struct{}
}

func run(t *testing.T, sc Scenario) engine.Verdict {
	w := &lworld{gates: map[int]chan struct{}{}}
	sched := &sim.Sched{Salt: sc.Salt, Pins: sc.Pins, Off: sc.NoHooks, Skip: map[string]bool{}}
	sched.Install()
	defer sched.Remove()
	bubbleErr := ""
	conns := map[int]*conn{}
	var order []*conn
	var listener *memListener
	func() {
		defer func() {
			if p := recover(); p != nil {
				bubbleErr = fmt.Sprint(p)
			}
		}()
		synctest.Test(t, func(t *testing.T) {
			w.drain = make(chan struct{}) // channels must belong to the bubble
			acc := &accepter{conns: make(chan channel.Channel), fail: make(chan error), onCtxEnd: sc.OnCtxEnd}
			lst := &memListener{conns: make(chan net.Conn), fail: make(chan error), closed: make(chan struct{})}
			listener = lst
			var theAccepter server.Accepter = acc
			if sc.Net {
				theAccepter = server.NetAccepter(lst, channel.Line)
			}
			ctx, cancel := context.WithCancel(context.Background())
			defer cancel()
			if sc.PreCancel {
				w.log(event{kind: "cancel"})
				cancel()
			}
			var smu sync.Mutex
			pendingFail := map[int]bool{}
			nextSvc := 0
			var svcOrder []*conn
			_ = svcOrder
			newService := func() server.Service {
				smu.Lock()
				defer smu.Unlock()
				nextSvc++
				id := nextSvc
				w.log(event{kind: "newservice", k: id})
				// the i-th service belongs to the i-th accepted connection only if
				// acceptance order equals service order; failure is a property of the service serial
				return &svc{id: id, w: w, fail: pendingFail[id]}
			}
			loopDone := make(chan struct{})
			go func() {
				var lopts *server.LoopOptions
				if sc.Push || sc.SlotCtx {
					so := &jrpc2.ServerOptions{AllowPush: sc.Push}
					if sc.SlotCtx {
						// requests waiting for the only slot give up when the loop's context ends
						so.Concurrency = 1
						so.NewContext = func() context.Context { return ctx }
					}
					lopts = &server.LoopOptions{ServerOptions: so}
				}
				err := server.Loop(ctx, theAccepter, newService, lopts)
				e := event{kind: "loopret"}
				switch {
				case err == nil:
					e.flag = "nil"
				case err == errOther, errors.Is(err, os.ErrDeadlineExceeded), err == io.EOF, err == errWrapEOF:
					e.flag = "other"
				case err == context.Canceled:
					e.flag = "ctxerr"
				default:
					e.flag, e.err = "unexpected", err.Error()
				}
				w.log(e)
				close(loopDone)
			}()
			settle := func() { sched.Settle() }
			settle()
			accepted := 0
			var pendingOffer *conn
			resolve := func() {
				c := pendingOffer
				if c == nil {
					return
				}
				pendingOffer = nil
				select {
				case <-c.offer:
					c.acc = true
					accepted++
					w.log(event{kind: "accepted", k: c.id, n: accepted})
				default:
					close(c.cancelOffer)
					w.log(event{kind: "not-accepted", k: c.id})
					c.once.Do(func() { c.peer.Close() })
					if c.netSide != nil {
						c.netSide.Conn.Close()
					} else {
						c.srvSide.Close()
					}
				}
			}
			for i, st := range sc.Steps {
				w.mu.Lock()
				w.step = i
				w.mu.Unlock()
				switch st.Op {
				case "connect":
					var cpipe, spipe channel.Channel
					c := &conn{id: st.K, fail: st.Fail}
					if sc.Net {
						a, b := net.Pipe()
						cpipe = channel.Line(a, a)
						c.netSide = &countConn{Conn: b}
					} else {
						cpipe, spipe = channel.Direct()
						var faults []sim.Fault
						if st.RecvFailAt > 0 {
							kind := "err"
							if st.K%2 == 0 {
								kind = "wrapeof" // a transport failure that wraps io.EOF is still a failure
							}
							if st.K%3 == 0 {
								// the connection was closed underneath the server (net.ErrClosed from
								// Recv): like the client going away, a clean end - status Closed, no error
								kind = "netclosed"
								c.netClosed = true
							}
							faults = []sim.Fault{{Op: "recv", At: st.RecvFailAt, Kind: kind}}
							c.faultAt = st.RecvFailAt
						}
						c.srvSide = sim.Wrap(fmt.Sprintf("conn%d", st.K), &closeOnce{Channel: spipe}, 0, faults)
						w.mu.Lock()
						w.chans = append(w.chans, c.srvSide)
						w.mu.Unlock()
					}
					c.peer = cpipe
					c.sendQ = make(chan []byte, 64)
					go func() {
						// one writer per connection, as the channel contract demands
						for rec := range c.sendQ {
							cpipe.Send(rec)
						}
					}()
					conns[st.K] = c
					order = append(order, c)
					// peer reader: drains replies, closes its end after EOF
					go func() {
						for {
							if _, err := cpipe.Recv(); err != nil {
								c.once.Do(func() { cpipe.Close() })
								return
							}
						}
					}()
					w.log(event{kind: "connect", k: st.K})
					// Connections are offered one at a time and settle before the
					// next one, so the n-th accepted connection gets the n-th service.
					smu.Lock()
					pendingFail[accepted+1] = st.Fail
					smu.Unlock()
					// offer the connection; withdraw the offer if the loop does not take it
					c.offer = make(chan struct{})
					c.cancelOffer = make(chan struct{})
					go func() {
						if sc.Net {
							select {
							case lst.conns <- c.netSide:
								close(c.offer)
							case <-c.cancelOffer:
							}
							return
						}
						select {
						case acc.conns <- c.srvSide:
							close(c.offer)
						case <-c.cancelOffer:
						}
					}()
					pendingOffer = c
					if st.Burst {
						continue // resolved at the next settle; the generator puts no other connect in between
					}
					settle()
					resolve()
					continue
				case "call", "batch":
					if c := conns[st.K]; c != nil {
						member := func(m Step) string {
							method := "ret"
							if m.Gate {
								method = "gate"
							}
							if m.Note {
								return fmt.Sprintf(`{"jsonrpc":"2.0","method":%q,"params":{"N":%d}}`, method, m.N)
							}
							return fmt.Sprintf(`{"jsonrpc":"2.0","id":%d,"method":%q,"params":{"N":%d}}`, m.N, method, m.N)
						}
						rec := member(st)
						if st.Op == "batch" {
							var ms []string
							for _, m := range st.Batch {
								ms = append(ms, member(m))
							}
							rec = "[" + strings.Join(ms, ",") + "]"
						}
						select {
						case c.sendQ <- []byte(rec):
						default:
						}
					}
				case "cbnote":
					if c := conns[st.K]; c != nil {
						rec := fmt.Sprintf(`{"jsonrpc":"2.0","method":"cbnote","params":{"N":%d}}`, st.N)
						select {
						case c.sendQ <- []byte(rec):
						default:
						}
					}
				case "release":
					select {
					case w.gate(st.K) <- struct{}{}:
					default:
					}
				case "clientclose":
					if c := conns[st.K]; c != nil {
						w.log(event{kind: "clientclose", k: st.K})
						go c.once.Do(func() { c.peer.Close() })
					}
				case "cancel":
					if st.D > 0 {
						go func() {
							sched.Sleep(time.Duration(st.D))
							w.log(event{kind: "cancel"})
							cancel()
						}()
					} else {
						w.log(event{kind: "cancel"})
						cancel()
					}
				case "acceptfail":
					var err error
					switch st.Err {
					case "netclosed":
						err = fmt.Errorf("listener: %w", net.ErrClosed)
					case "chanclosed":
						err = fmt.Errorf("listener: %w", channel.ErrClosed)
					case "timeout":
						// a failure like any other, even if it calls itself a timeout
						err = errTimeout
					case "eof":
						// an accepter that hands out a finite list of connections and then
						// reports the end of its input: not a closed-listener error
						err = io.EOF
					case "wrapeof":
						err = errWrapEOF
					default:
						err = errOther
					}
					flag := st.Err
					if flag == "timeout" || flag == "eof" || flag == "wrapeof" {
						flag = "other"
					}
					w.log(event{kind: "acceptfail", flag: flag})
					if sc.Net && st.Err == "netclosed" {
						go lst.Close() // somebody else closes the listener
						break
					}
					go func() {
						fc := acc.fail
						if sc.Net {
							fc = lst.fail
						}
						select {
						case fc <- err:
						case <-loopDone:
						}
					}()
				}
				if !st.Burst {
					settle()
					resolve()
				}
			}
			settle()
			resolve()
			w.mu.Lock()
			w.step = len(sc.Steps)
			w.mu.Unlock()
			w.log(event{kind: "epilogue"})
			close(w.drain)
			settle()
			cancel()
			settle()
			for _, c := range order {
				c.once.Do(func() { c.peer.Close() })
				close(c.sendQ)
			}
			settle()
			select {
			case <-loopDone:
			default:
				w.log(event{kind: "loop-still-running"})
			}
		})
	}()
	// ---- oracle -----------------------------------------------------------------
	fail := func(sig, f string, a ...any) engine.Verdict {
		return engine.Failf("C20/"+sig, "%s\nscript:\n%s\nhistory:\n%s", fmt.Sprintf(f, a...), script(sc), history(w))
	}
	if bubbleErr != "" {
		return fail("goroutines-left-or-deadlock", "%s", bubbleErr)
	}
	w.mu.Lock()
	evs := append([]event(nil), w.events...)
	w.mu.Unlock()
	// connection serial -> service id (n-th accepted gets the n-th service)
	svcOf := map[int]int{}
	connOf := map[int]int{}
	nAccepted, nNew := 0, 0
	loopRet := -1
	var loopFlag, loopErr string
	nServers, nFinished := 0, 0
	cancelSeq, failSeq := -1, -1
	failKind := ""
	finishes := map[int][]event{}
	lastExit := map[int]int{}
	closeSeq := map[int]int{}
	assignOK := map[int]bool{}
	for _, e := range evs {
		switch e.kind {
		case "accepted":
			nAccepted++
			svcOf[e.k] = e.n
			connOf[e.n] = e.k
		case "newservice":
			nNew++
		case "assigner":
			assignOK[e.k] = e.flag == "true"
			if e.flag == "true" {
				nServers++
			}
		case "finish":
			finishes[e.k] = append(finishes[e.k], e)
			nFinished++
			// Only a server reads from its connection, one Recv at a time: more
			// connections being read than servers not yet finished means that a
			// finished server is still reading - it has not fully exited.
			if e.inRecv > nServers-nFinished {
				return fail("finish-before-exit", "Finish of service %d ran while %d connections were still being read by their servers, but only %d servers had not been finished: a server that was reported finished is still inside Recv", e.k, e.inRecv, nServers-nFinished)
			}
		case "exit":
			lastExit[e.k] = e.seq
		case "loopret":
			loopRet, loopFlag, loopErr = e.seq, e.flag, e.err
		case "cancel":
			if cancelSeq < 0 {
				cancelSeq = e.seq
			}
		case "acceptfail":
			if failSeq < 0 {
				failSeq, failKind = e.seq, e.flag
			}
		case "clientclose":
			closeSeq[e.k] = e.seq
		case "loop-still-running":
			return fail("loop-did-not-return", "Loop had not returned after the context ended, every handler was released and every client closed")
		}
	}
	if nNew != nAccepted {
		return fail("service-count", "%d connections were accepted but newService was called %d times", nAccepted, nNew)
	}
	if loopRet < 0 {
		return fail("loop-did-not-return", "Loop never returned")
	}
	for cid, c := range conns {
		if !c.acc {
			continue
		}
		sid := svcOf[cid]
		fs := finishes[sid]
		closes := 0
		if c.netSide != nil {
			c.netSide.mu.Lock()
			closes = c.netSide.closes
			c.netSide.mu.Unlock()
		} else {
			_, _, closes = c.srvSide.Counts()
		}
		if c.fail {
			if len(fs) != 0 {
				return fail("finish-for-failed-assigner", "service %d (connection #%d) failed to provide an assigner but Finish was called %d times", sid, cid, len(fs))
			}
			if closes != 1 {
				return fail("connection-not-closed-when-assigner-fails", "service %d (connection #%d) failed to provide an assigner; its connection was closed %d times", sid, cid, closes)
			}
			continue
		}
		if len(fs) != 1 {
			return fail("finish-count", "service %d (connection #%d): Finish was called %d times, want exactly 1", sid, cid, len(fs))
		}
		f := fs[0]
		if !f.sameAs {
			return fail("finish-assigner", "service %d: Finish received a different assigner than the one the service returned", sid)
		}
		if le, ok := lastExit[sid]; ok && le > f.seq {
			return fail("finish-before-server-exited", "service %d: Finish (#%d) came before the last handler of its server returned (#%d)", sid, f.seq, le)
		}
		if f.seq > loopRet {
			return fail("loop-returned-before-finish", "Loop returned (#%d) before service %d was finished (#%d)", loopRet, sid, f.seq)
		}
		if closes != 1 {
			return fail("connection-close-count", "connection #%d was closed %d times by its server", cid, closes)
		}
		// status: closed after the client went away, stopped after the context ended
		cs, closedByClient := closeSeq[cid]
		switch {
		case c.faultAt == 1:
			// its very first Recv fails: the server exits with the channel's error
			accSeq := -1
			for _, e := range evs {
				if e.kind == "connect" && e.k == cid {
					accSeq = e.seq
				}
			}
			if c.netClosed {
				if (cancelSeq < 0 || accSeq < cancelSeq) && !racing(sc, evs, accSeq, cancelSeq) && (f.flag != "closed" || f.err != "") {
					return fail("finish-status", "the first Recv of connection #%d reported a closed connection (net.ErrClosed), but its service saw status flags=%q err=%q, want closed without error", cid, f.flag, f.err)
				}
				break
			}
			if (cancelSeq < 0 || accSeq < cancelSeq) && !racing(sc, evs, accSeq, cancelSeq) && !strings.Contains(f.err, "injected") {
				return fail("finish-status", "connection #%d failed in its first Recv, but its service saw status flags=%q err=%q", cid, f.flag, f.err)
			}
		case c.faultAt > 1:
			// depends on how many records arrived first: not judged
		case closedByClient && (cancelSeq < 0 || cs < cancelSeq) && !racing(sc, evs, cs, cancelSeq):
			if f.flag != "closed" || f.err != "" {
				return fail("finish-status", "connection #%d was closed by its client first, but its service saw status flags=%q err=%q", cid, f.flag, f.err)
			}
		case cancelSeq >= 0 && (!closedByClient || (cancelSeq < cs && !racing(sc, evs, cs, cancelSeq))):
			if f.flag != "stopped" || f.err != "" {
				return fail("finish-status", "the context ended while connection #%d was open, but its service saw status flags=%q err=%q", cid, f.flag, f.err)
			}
		}
	}
	// Loop's own result
	switch {
	case failSeq >= 0 && failKind == "other" && (cancelSeq < 0 || failSeq < cancelSeq) && !racing(sc, evs, failSeq, cancelSeq):
		if loopFlag != "other" {
			return fail("loop-result", "the accepter failed with its own error, Loop returned %s %s", loopFlag, loopErr)
		}
	case failSeq < 0 || failKind != "other":
		want := "nil"
		if !sc.Net && sc.OnCtxEnd != "" && (failSeq < 0 || (cancelSeq >= 0 && failSeq > cancelSeq)) {
			// this accepter answers the end of the context with an error of its own,
			// which is not a closed-listener error: Loop hands it on
			want = sc.OnCtxEnd
			if failSeq >= 0 && racing(sc, evs, failSeq, cancelSeq) {
				want = loopFlag // the two ends race
			}
		}
		if loopFlag != want {
			return fail("loop-result", "Loop ended by context end / closed-listener error (accepter answers the end of the context with %q) but returned %s %s, want %s", sc.OnCtxEnd, loopFlag, loopErr, want)
		}
	}
	// after the context ended every parked handler saw a cancelled context
	epilogueSeq := -1
	for _, e := range evs {
		if e.kind == "epilogue" {
			epilogueSeq = e.seq
		}
	}
	if cancelSeq >= 0 {
		parked := map[int]bool{}
		seen := map[int]bool{}
		for _, e := range evs {
			switch e.kind {
			case "enter":
				if e.flag != "note" {
					parked[e.n] = true
				}
			case "exit":
				if e.err != "<nil>" {
					seen[e.n] = true
				}
			case "ctxdone":
				seen[e.n] = true
			}
		}
		for n := range parked {
			entered := -1
			for _, e := range evs {
				if e.kind == "enter" && e.n == n {
					entered = e.seq
				}
			}
			exited := -1
			for _, e := range evs {
				if e.kind == "exit" && e.n == n {
					exited = e.seq
				}
			}
			if entered < cancelSeq && (exited < 0 || exited > cancelSeq) && !seen[n] && !racingStep(sc, evs, cancelSeq) {
				return fail("server-not-stopped-at-context-end", "handler nonce %d was running when the context ended but never saw a cancelled context", n)
			}
			// a call whose handler only started after the context had ended (it had
			// been waiting behind a notification) and then stayed until the script
			// let everybody go: its server had been stopped long before
			if epilogueSeq > cancelSeq && entered > cancelSeq && entered < epilogueSeq && (exited < 0 || exited > epilogueSeq) && !seen[n] && !racingStep(sc, evs, cancelSeq) {
				return fail("server-not-stopped-at-context-end", "handler nonce %d started after the context had ended, stayed until the end of the script and never saw a cancelled context", n)
			}
		}
	}
	alive := 0
	for _, c := range conns {
		if c.acc && !c.fail {
			alive++
		}
	}
	nfail := 0
	for _, c := range conns {
		if c.fail && c.acc {
			nfail++
		}
	}
	raced := false
	for i, s := range sc.Steps {
		if (s.Op == "cancel" || s.Op == "acceptfail") && (s.Burst || (i > 0 && sc.Steps[i-1].Burst)) {
			raced = true
		}
	}
	if os.Getenv("VERIF_DEBUG") != "" {
		fmt.Printf("script:\n%s\nhistory:\n%s\n", script(sc), history(w))
	}
	v := engine.Verdict{NonTrivial: alive >= 2 || nfail > 0 || raced || sc.PreCancel}
	if sc.Net {
		listener.mu.Lock()
		lc := listener.closes
		listener.mu.Unlock()
		v.Labels = append(v.Labels, "net-accepter", fmt.Sprintf("listener-closes:%d", min(lc, 3)))
		if sc.PreCancel {
			v.Labels = append(v.Labels, "context-ended-before-loop")
		}
	}
	if nfail > 0 {
		v.Labels = append(v.Labels, "assigner-fails")
	}
	if raced {
		v.Labels = append(v.Labels, "end-raced")
	}
	v.Labels = append(v.Labels, fmt.Sprintf("connections:%d", min(alive, 5)), "loop:"+loopFlag)
	return v
}

// racing: the two events happened in one burst window.
func racing(sc Scenario, evs []event, a, b int) bool {
	if a < 0 || b < 0 {
		return false
	}
	sa, sb := evs[a].step, evs[b].step
	if sa > sb {
		sa, sb = sb, sa
	}
	for s := sa; s < sb && s < len(sc.Steps); s++ {
		if !sc.Steps[s].Burst {
			return false
		}
	}
	return true
}

func racingStep(sc Scenario, evs []event, a int) bool {
	s := evs[a].step
	return s < len(sc.Steps) && (sc.Steps[s].Burst || (s > 0 && sc.Steps[s-1].Burst))
}

type closeOnce struct {
	channel.Channel
	once sync.Once
}

func (c *closeOnce) Close() error {
	var err error
	c.once.Do(func() { err = c.Channel.Close() })
	return err
}

func script(sc Scenario) string {
	var sb strings.Builder
	fmt.Fprintf(&sb, "  salt=%d pins=%v nohooks=%v\n", sc.Salt, sc.Pins, sc.NoHooks)
	for i, s := range sc.Steps {
		fmt.Fprintf(&sb, "  %2d %s\n", i, s)
	}
	return sb.String()
}

func history(w *lworld) string {
	w.mu.Lock()
	defer w.mu.Unlock()
	var sb strings.Builder
	for _, e := range w.events {
		fmt.Fprintf(&sb, "  %3d s%-2d %-12s k=%d n=%d %s %s\n", e.seq, e.step, e.kind, e.k, e.n, e.flag, e.err)
	}
	return sb.String()
}

func genNet(t *rapid.T) Scenario {
	sc := genScenarioMode(t, true)
	return sc
}

func genScenario(t *rapid.T) Scenario { return genScenarioMode(t, false) }

func genScenarioMode(t *rapid.T, netMode bool) Scenario {
	sc := Scenario{Salt: rapid.Uint64().Draw(t, "salt"), Net: netMode}
	pushMode := rapid.IntRange(0, 2).Draw(t, "pushmode") == 0
	sc.Push = pushMode
	sc.SlotCtx = rapid.IntRange(0, 3).Draw(t, "slotctx") == 0
	if netMode && rapid.IntRange(0, 7).Draw(t, "precancel") == 0 {
		sc.PreCancel = true
	}
	if !netMode {
		sc.OnCtxEnd = rapid.SampledFrom([]string{"", "", "", "other", "ctxerr"}).Draw(t, "onctxend")
	}
	if rapid.IntRange(0, 9).Draw(t, "nohooks") == 0 {
		sc.NoHooks = true
	}
	if rapid.IntRange(0, 2).Draw(t, "pins") == 0 {
		sc.Pins = append(sc.Pins, sim.Pin{Site: rapid.SampledFrom([]string{"loop.conn", "loop.accept", "loop.finish", "srv.stop.lock", "srv.start.lock", "srv.read.recv", "srv.deliver.lock"}).Draw(t, "site"), Delay: rapid.SampledFrom([]int{1, 50, 9000, 200000}).Draw(t, "delay")})
	}
	n := rapid.IntRange(2, 16).Draw(t, "nsteps")
	nconn, nonce := 0, 0
	var open []int
	var parked []int
	ended := sc.PreCancel
	pendingConnect := false
	for i := 0; i < n; i++ {
		var st Step
		roll := rapid.IntRange(0, 99).Draw(t, "op")
		switch {
		case (roll < 30 || nconn == 0) && !pendingConnect:
			nconn++
			st = Step{Op: "connect", K: nconn, Fail: rapid.IntRange(0, 5).Draw(t, "assignerfails") == 0}
			if !st.Fail && !netMode && rapid.IntRange(0, 7).Draw(t, "recvfault") == 0 {
				st.RecvFailAt = rapid.IntRange(1, 2).Draw(t, "failat")
			}
			if !st.Fail && st.RecvFailAt != 1 {
				open = append(open, nconn)
			}
		case roll < 55 && len(open) > 0 && pushMode && rapid.IntRange(0, 3).Draw(t, "cbnote") == 0:
			nonce++
			st = Step{Op: "cbnote", K: rapid.SampledFrom(open).Draw(t, "conn"), N: nonce}
		case roll < 55 && len(open) > 0 && rapid.IntRange(0, 4).Draw(t, "asbatch") == 0:
			// one array: notifications and calls side by side (they may run concurrently)
			st = Step{Op: "batch", K: rapid.SampledFrom(open).Draw(t, "conn")}
			for j, m := 0, rapid.IntRange(2, 3).Draw(t, "members"); j < m; j++ {
				nonce++
				mem := Step{Op: "call", N: nonce, Gate: rapid.Bool().Draw(t, "gate"), Note: rapid.IntRange(0, 2).Draw(t, "note") != 0}
				if mem.Gate {
					parked = append(parked, nonce)
				}
				st.Batch = append(st.Batch, mem)
			}
		case roll < 55 && len(open) > 0:
			nonce++
			st = Step{Op: "call", K: rapid.SampledFrom(open).Draw(t, "conn"), N: nonce, Gate: rapid.Bool().Draw(t, "gate"), Note: rapid.IntRange(0, 3).Draw(t, "note") == 0}
			if st.Gate {
				parked = append(parked, nonce)
			}
		case roll < 68 && len(parked) > 0:
			j := rapid.IntRange(0, len(parked)-1).Draw(t, "which")
			st = Step{Op: "release", K: parked[j]}
			parked = append(parked[:j:j], parked[j+1:]...)
		case roll < 82 && len(open) > 0:
			j := rapid.IntRange(0, len(open)-1).Draw(t, "whichconn")
			st = Step{Op: "clientclose", K: open[j]}
			open = append(open[:j:j], open[j+1:]...)
		case roll < 91 && !ended:
			ended = true
			st = Step{Op: "cancel", D: rapid.SampledFrom([]int{0, 0, 0, 1, 40, 700, 3000, 6000, 12000}).Draw(t, "canceldelay")}
		case roll < 97 && !ended:
			ended = true
			st = Step{Op: "acceptfail", Err: rapid.SampledFrom([]string{"netclosed", "chanclosed", "other", "other", "timeout", "eof", "wrapeof"}).Draw(t, "errkind")}
		case !pendingConnect:
			nconn++
			st = Step{Op: "connect", K: nconn}
			open = append(open, nconn)
		default:
			st = Step{Op: "release", K: 0}
		}
		st.Burst = rapid.IntRange(0, 99).Draw(t, "burst") < 35
		if st.Op == "connect" && st.Burst {
			pendingConnect = true
		} else if !st.Burst {
			pendingConnect = false
		}
		sc.Steps = append(sc.Steps, st)
	}
	sc.Steps[len(sc.Steps)-1].Burst = false
	return sc
}

var parts = []engine.AnyPart{
	engine.Part[Scenario]{Name: "scenarios", Run: run, Gen: genScenario,
		Rule: "server.Loop in a bubble with an in-memory Accepter fed by the script: connect (one end of channel.Direct behind the counting wrapper; one service in six fails in Assigner), calls with parking handlers, releases, client closes, context cancel, accepter failure with a wrapped net.ErrClosed / channel.ErrClosed / other error, bursts racing them, hook delays on loop.* and srv.* sites; oracle = one newService per accepted connection, exactly one Finish per service whose Assigner succeeded (its own assigner, status Closed after client close / Stopped after context end, after the server's last handler returned), none plus a closed connection for a failing Assigner, Loop returns after the last Finish with nil for closed-listener errors and the accepter's error otherwise, handlers see cancelled contexts after the context ended, no goroutine left; non-trivial = at least two connections alive, or a failing Assigner, or the end racing in a burst; distinct = hash of the scenario"},
}

func init() {
	parts = append(parts, engine.Part[Scenario]{Name: "netaccepter", Run: run, Gen: genNet,
		Rule: "the same scripts and oracle with Loop running over server.NetAccepter(in-memory net.Listener, channel.Line) and net.Pipe connections: the context ends before Loop is called, while Loop is parked in Accept, or (hook site loop.accept, delayed cancel steps) between two Accept calls; the listener is closed by somebody else or fails with another error; Loop must return nil whenever the accepter's failure is the closed listener that the end of the context produces; non-trivial = as scenarios, or the context had ended before Loop was called; distinct = hash of the scenario"})
}

func TestProp(t *testing.T)   { engine.RunParts(t, "C20", parts) }
func TestReplay(t *testing.T) { engine.ReplayParts(t, "C20", parts) }
