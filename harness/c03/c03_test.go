// Package c03 checks property C03: a notification completes before any
// later-arriving request starts; a running call never delays later requests.
package c03

import (
	"fmt"
	"testing"

	"pgregory.net/rapid"

	"verif/harness/engine"
	"verif/harness/gen"
	"verif/harness/oracle"
	"verif/harness/sim"
)

var profile = gen.Profile{
	AllowPush: true, PHandlerPush: 25, // on push-enabled servers a quarter of the parking handlers first wait for a callback
	MinSteps: 4, MaxSteps: 26, Limits: []int{32},
	PNote: 55, PGate: 75, PInvalid: 6, PUnknown: 6, PBatch: 40, MaxBatch: 4,
	PCancel: 5, PBurst: 40, PObey: 30, Builtins: true, Pins: true, PLongWait: 3,
	Outcomes:      []string{"ok", "ok", "err:-32000", "ctxerr"},
	Chans:         []string{"direct", "pipe"},
	PBaseDeadline: 0,
}

func genCase(t *rapid.T) sim.Scenario { return gen.ServerScenario(t, profile) }

// lowLimit: the last clause of C03 says "up to the concurrency limit", so
// histories are also run close to a small limit: notifications and calls whose
// handlers fail, return bad values or are cancelled, then a call that stays
// parked, then later requests.
var lowLimit = gen.Profile{
	MinSteps: 6, MaxSteps: 28, Limits: []int{1, 1, 2, 3, 4},
	PNote: 40, PGate: 55, PInvalid: 6, PUnknown: 6, PBatch: 35, MaxBatch: 3,
	PCancel: 5, PBurst: 30, PObey: 30, Builtins: false, Pins: true, PRelease: 45,
	Outcomes: []string{"ok", "err:-32000", "err:7", "ctxerr", "bad", "baderr"},
	Chans:    []string{"direct", "pipe"},
}

func genLow(t *rapid.T) sim.Scenario { return gen.ServerScenario(t, lowLimit) }

// highLimit: "up to the concurrency limit" also for limits above the number of
// CPUs: many calls, mostly one per message, stay parked, then later requests
// (and a few notifications) arrive.
var highLimit = gen.Profile{
	PrefixGates: [2]int{14, 30},
	MinSteps:    3, MaxSteps: 12, Limits: []int{17, 18, 20, 24, 33},
	PNote: 25, PGate: 60, PInvalid: 2, PUnknown: 3, PBatch: 30, MaxBatch: 3,
	PCancel: 3, PBurst: 35, PObey: 30, Builtins: false, Pins: true, PRelease: 15,
	Outcomes: []string{"ok", "err:-32000"},
	Chans:    []string{"direct", "pipe"},
}

func genHigh(t *rapid.T) sim.Scenario { return gen.ServerScenario(t, highLimit) }

func run(t *testing.T, sc sim.Scenario) engine.Verdict {
	return oracle.RunServer(t, sc, []string{"C03/"}, func(f oracle.Facts) bool {
		return f.BarrierExercised
	})
}

func runHigh(t *testing.T, sc sim.Scenario) engine.Verdict {
	return oracle.RunServer(t, sc, []string{"C03/"}, func(f oracle.Facts) bool {
		return f.MaxParked >= 16
	})
}

var parts = []engine.AnyPart{
	engine.Part[sim.Scenario]{Name: "scenarios", Run: run, Gen: genCase,
		Rule: "rapid-generated scripts biased to notifications with parked handlers followed by further records (calls, notifications, batches) while they are parked, with concurrent CancelRequest, a concurrency limit far above the load (the limit itself is the subject of C06), hook delays on barrier/dispatch/invoke sites; safety (exit(notification) < enter(later request)) is checked on the logical clock of the handler log, bounded liveness (all requests of the oldest undispatched record start once no earlier notification is unfinished and a slot is free; a parked call does not hold back later records) at every quiescent point; non-trivial = a notification was parked at a moment when a later record had already been received; distinct = hash of the scenario"},
}

// stopdrain: the safety half on histories with Stop / peer close / channel
// faults and restarts, where notifications retained in the queue are still
// handed to their handlers after the stop - one inbound record at a time.
func genStop(t *rapid.T) sim.Scenario { return gen.ShutdownScenario(t) }

func runStop(t *testing.T, sc sim.Scenario) engine.Verdict {
	h := sim.Run(t, sc)
	if h.BubbleErr != "" {
		return engine.Verdict{Labels: []string{"other-clause:bubble-error"}} // judged by C08
	}
	for _, p := range oracle.BarrierSafety(sc, h) {
		return engine.Failf(p.Sig, "%s\nscript:\n%s\nhistory:\n%s", p.Msg, oracle.ScriptText(sc), oracle.HistoryText(h))
	}
	notes := 0
	for _, e := range h.Events {
		if e.Kind == "enter" && e.Note {
			notes++
		}
	}
	return engine.Verdict{NonTrivial: notes >= 2, Labels: []string{fmt.Sprintf("notifications-run:%d", min(notes, 5))}}
}

func init() {
	parts = append(parts, engine.Part[sim.Scenario]{Name: "stopdrain", Run: runStop, Gen: genStop,
		Rule: "shutdown scripts (traffic with parked notifications and records piling up behind them, Stop / peer close / injected channel faults at any point, records after the stop, restart): on the handler log, every notification that ran had returned before any request of a later inbound record was invoked - also for the notifications that are retained at the stop and drained afterwards; non-trivial = at least two notification handlers ran; distinct = hash of the scenario"})
	parts = append(parts, engine.Part[sim.Scenario]{Name: "lowlimit", Run: run, Gen: genLow,
		Rule: "as scenarios, but with Concurrency 1-4 and handlers (of notifications too) that fail, return unmarshalable values or are cancelled before a call stays parked and further requests arrive: below the limit a request of a started record must begin although earlier calls are still running; non-trivial = a notification was parked at a moment when a later record had already been received; distinct = hash of the scenario"})
	parts = append(parts, engine.Part[sim.Scenario]{Name: "highlimit", Run: runHigh, Gen: genHigh,
		Rule: "as scenarios, with Concurrency 17-33 (above the CPU count of the machine): the script opens with 14 to limit-1 single parking calls, then 3-12 ordinary steps follow: with fewer handlers running than the limit a later request must begin although that many earlier calls are still running; non-trivial = at least 16 handlers were parked at one quiescent point; distinct = hash of the scenario"})
}

// deadlines: the safety half when request contexts can end on their own
// (ServerOptions.NewContext with a deadline): a notification handler that keeps
// working past its deadline is still a handler that has not returned.
func genDeadlines(t *rapid.T) sim.Scenario { return gen.DeadlineScenario(t) }

func init() {
	parts = append(parts, engine.Part[sim.Scenario]{Name: "deadlines", Run: runStop, Gen: genDeadlines,
		Rule: "the structured deadline scripts (request contexts with a 50ms deadline, slots filled with parked calls, notifications and calls waiting for a slot or behind the barrier while the fake clock passes their deadline, handlers that ignore the end of their context, fresh requests): on the handler log every notification that ran had returned before any request of a later inbound record was invoked; non-trivial = at least two notification handlers ran; distinct = hash of the scenario"})
}

// cancelrace: "(up to the concurrency limit)" - the limit must still be the
// configured one after calls were cancelled right in front of or right behind
// the slot semaphore.
func genCancelRace(t *rapid.T) sim.Scenario { return gen.CancelRaceScenario(t) }

func runCancelRace(t *testing.T, sc sim.Scenario) engine.Verdict {
	h := sim.Run(t, sc)
	if h.BubbleErr != "" {
		return engine.Verdict{Labels: []string{"other-clause:bubble-error"}} // judged by C08
	}
	n, lim, ok := oracle.SlotsUsableAtEnd(sc, h)
	if ok && n != lim {
		return engine.Failf("C03/later-request-waits-below-limit", "after every handler had been released, %d parking calls arrived one per message; only %d of them have begun at the next quiescent point although the limit is %d and nothing but these still-running calls precedes them\nscript:\n%s\nhistory:\n%s", lim, n, lim, oracle.ScriptText(sc), oracle.HistoryText(h))
	}
	return engine.Verdict{NonTrivial: ok, Labels: []string{"held-at:" + sc.Cfg.Pins[0].Site}}
}

func init() {
	parts = append(parts, engine.Part[sim.Scenario]{Name: "cancelrace", Run: runCancelRace, Gen: genCancelRace,
		Rule: "the cancel-race scripts of C06 (Concurrency 1-3, slots taken, further calls held by a pin right in front of or right behind the slot semaphore while CancelRequest names them and slots are given back), then everything is released and as many parking calls as the limit arrive one per message: all of them have begun at the next quiescent point; non-trivial = the tail was reached; distinct = hash of the scenario"})
}

func TestProp(t *testing.T)   { engine.RunParts(t, "C03", parts) }
func TestReplay(t *testing.T) { engine.ReplayParts(t, "C03", parts) }
