// Package c05 checks property C05: every client operation completes exactly
// once under cancel, Close and channel failure.
package c05

import (
	"fmt"
	"os"
	"strings"
	"testing"

	"pgregory.net/rapid"

	"verif/harness/engine"
	"verif/harness/gen"
	"verif/harness/oracle"
	"verif/harness/sim"
)

// Case is a client scenario; with Enumerate set it is first run fault-free to
// count the client's channel operations and then once per (operation, fault kind).
type Case struct {
	Scenario  sim.CScenario `json:"scenario"`
	Enumerate bool          `json:"enumerate,omitempty"`
}

func judge(t *testing.T, sc sim.CScenario) (engine.Verdict, *sim.CHistory) {
	h := sim.RunClient(t, sc)
	if os.Getenv("VERIF_DEBUG") != "" {
		t.Logf("script:\n%s\nhistory:\n%s", oracle.CScriptText(sc), oracle.CHistoryText(h))
	}
	for _, p := range oracle.ClientCheck(sc, h) {
		if strings.HasPrefix(p.Sig, "C05/") {
			return engine.Failf(p.Sig, "%s\nscript:\n%s\nhistory:\n%s", p.Msg, oracle.CScriptText(sc), oracle.CHistoryText(h)), h
		}
	}
	// classification: at least two of {reply, context end, Close, failure} concern
	// one outstanding request within one burst, or a fault with a request pending
	raced := false
	for i, st := range sc.Steps {
		if !st.Burst && !(i > 0 && sc.Steps[i-1].Burst) {
			continue
		}
		switch st.Op {
		case "reply", "ctxcancel", "close", "peerclose", "raw", "advance":
			// which other event kinds share the window?
			lo, hi := i, i
			for lo > 0 && sc.Steps[lo-1].Burst {
				lo--
			}
			for hi < len(sc.Steps)-1 && sc.Steps[hi].Burst {
				hi++
			}
			kinds := map[string]bool{}
			for j := lo; j <= hi; j++ {
				switch sc.Steps[j].Op {
				case "reply", "ctxcancel", "close", "peerclose", "raw", "advance":
					kinds[sc.Steps[j].Op] = true
				}
			}
			if len(kinds) >= 2 {
				raced = true
			}
		}
	}
	faultPending := false
	pendingNow := false
	for _, e := range h.Events {
		switch e.Kind {
		case "quiesce":
			pendingNow = len(e.Pending) > 0
		case "recvfault", "sendfault":
			if pendingNow {
				faultPending = true
			}
		}
	}
	v := engine.Verdict{NonTrivial: raced || faultPending}
	add := func(b bool, s string) {
		if b {
			v.Labels = append(v.Labels, s)
		}
	}
	add(raced, "events-raced-in-burst")
	add(faultPending, "fault-with-request-pending")
	add(len(sc.Cfg.Faults) > 0, "fault-injected")
	for _, e := range h.Events {
		if e.Kind == "onstop" {
			v.Labels = append(v.Labels, "onstop:"+e.Class)
		}
		if e.Kind == "oncancel" {
			add(true, "oncancel-ran")
		}
		if e.Kind == "oncb-enter" {
			add(true, "callback-handler")
		}
	}
	return v, h
}

func run(t *testing.T, c Case) engine.Verdict {
	v, h := judge(t, c.Scenario)
	if v.Fail || !c.Enumerate {
		return v
	}
	nSend := h.NSend
	nRecv := 0
	for _, e := range h.Events {
		if e.Kind == "peer-sending" {
			nRecv++
		}
	}
	runs := int64(1)
	for at := 1; at <= nRecv+1; at++ {
		for _, kind := range []string{"err", "data+eof", "data+err"} {
			sc := c.Scenario
			sc.Cfg.Faults = []sim.Fault{{Op: "recv", At: at, Kind: kind}}
			fv, _ := judge(t, sc)
			runs++
			if fv.Fail {
				fv.Msg = fmt.Sprintf("with fault recv#%d %s: %s", at, kind, fv.Msg)
				return fv
			}
		}
	}
	for at := 1; at <= nSend+1; at++ {
		sc := c.Scenario
		sc.Cfg.Faults = []sim.Fault{{Op: "send", At: at, Kind: "err"}}
		fv, _ := judge(t, sc)
		runs++
		if fv.Fail {
			fv.Msg = fmt.Sprintf("with fault send#%d: %s", at, fv.Msg)
			return fv
		}
	}
	v.NonTrivial = true
	v.Labels = append(v.Labels, "fault-enumeration")
	v.Counts = map[string]int64{"fault_positions_executed": runs}
	return v
}

const rule = "non-trivial = at least two of {reply, context end, Close, peer EOF, malformed record} fall into one burst, or a channel fault is injected while a request is pending; distinct = hash of the scenario"

var parts = []engine.AnyPart{
	engine.Part[Case]{Name: "scenarios", Run: run, Gen: func(t *rapid.T) Case { return Case{Scenario: gen.LifecycleScenario(t)} },
		Rule: "rapid-generated scripts over Call / CallResult / Batch / Notify with cancellable and fake-clock-deadline contexts, peer replies, context cancellations, clock advances, Close, peer EOF, malformed inbound records, injected Recv/Send faults and server callbacks with parked OnCallback handlers, racing in bursts with hook delays on the cli.* sites; " + rule},
	engine.Part[Case]{Name: "faults", Run: run, Gen: func(t *rapid.T) Case {
		sc := gen.LifecycleScenario(t)
		sc.Cfg.Faults = nil
		if len(sc.Steps) > 12 {
			sc.Steps = sc.Steps[:12]
			sc.Steps[11].Burst = false
		}
		return Case{Scenario: sc, Enumerate: true}
	},
		Rule: "fault enumeration: each generated fault-free script (at most 12 steps) is re-run once for EVERY Recv index x {(nil,err), (data,EOF), (data,err)} and EVERY Send index x {err} of the client's channel; " + rule},
}

func TestProp(t *testing.T)   { engine.RunParts(t, "C05", parts) }
func TestReplay(t *testing.T) { engine.ReplayParts(t, "C05", parts) }
