package gen

import (
	"fmt"
	"strings"

	"pgregory.net/rapid"

	"verif/harness/engine"
	"verif/harness/sim"
)

// DeadlineScenario draws a structured scenario for servers whose request
// contexts carry a deadline (ServerOptions.NewContext): all slots are filled
// with parked calls, further requests (calls and notifications) wait for a
// slot or behind the barrier, the fake clock is advanced past their deadline,
// fresh requests arrive, and finally the slots are given back.
func DeadlineScenario(t *rapid.T) sim.Scenario {
	sc := sim.Scenario{}
	limit := rapid.IntRange(1, 3).Draw(t, "limit")
	sc.Cfg.Concurrency = limit
	sc.Cfg.BaseDeadlineMs = 50
	sc.Cfg.Salt = rapid.Uint64().Draw(t, "salt")
	sc.Cfg.Chan = pick(t, "chan", []string{"direct", "pipe"})
	k, id := 0, 0
	member := func(note bool, method string) string {
		k++
		if note {
			return fmt.Sprintf(`{"jsonrpc":"2.0","method":%q,"params":{"k":%d}}`, method, k)
		}
		id++
		return fmt.Sprintf(`{"jsonrpc":"2.0","id":%d,"method":%q,"params":{"k":%d}}`, id, method, k)
	}
	var holders []int
	for i := 0; i < limit; i++ {
		sc.Steps = append(sc.Steps, sim.Step{Op: "send", Rec: engine.Bytes(member(false, "gate")), Burst: i+1 < limit && rapid.Bool().Draw(t, "hb")})
		holders = append(holders, k)
	}
	// waiters: records of 1-3 members
	nw := rapid.IntRange(1, 4).Draw(t, "waiters")
	var waiterGates []int
	for i := 0; i < nw; i++ {
		n := rapid.IntRange(1, 3).Draw(t, "wmembers")
		var ms []string
		for j := 0; j < n; j++ {
			method := pick(t, "wmethod", []string{"ret", "gate", "ret"})
			ms = append(ms, member(rapid.IntRange(0, 9).Draw(t, "wnote") < 6, method))
			if method == "gate" {
				waiterGates = append(waiterGates, k)
			}
		}
		rec := ms[0]
		if n > 1 || rapid.Bool().Draw(t, "arr") {
			rec = "[" + strings.Join(ms, ",") + "]"
		}
		sc.Steps = append(sc.Steps, sim.Step{Op: "send", Rec: engine.Bytes(rec), Burst: rapid.Bool().Draw(t, "wb")})
	}
	sc.Steps[len(sc.Steps)-1].Burst = false
	sc.Steps = append(sc.Steps, sim.Step{Op: "advance", D: 200})
	// fresh requests after the deadline of everything before has passed
	nf := rapid.IntRange(1, 3).Draw(t, "fresh")
	var freshGates []int
	for i := 0; i < nf; i++ {
		method := pick(t, "fmethod", []string{"ret", "gate", "ret"})
		sc.Steps = append(sc.Steps, sim.Step{Op: "send", Rec: engine.Bytes(member(rapid.Bool().Draw(t, "fnote"), method)), Burst: rapid.Bool().Draw(t, "fb")})
		if method == "gate" {
			freshGates = append(freshGates, k)
		}
	}
	sc.Steps[len(sc.Steps)-1].Burst = false
	// give the slots back, in any order, then release whatever parked afterwards
	for len(holders) > 0 {
		j := rapid.IntRange(0, len(holders)-1).Draw(t, "rel")
		sc.Steps = append(sc.Steps, sim.Step{Op: "release", K: holders[j], Out: "ok", Burst: rapid.Bool().Draw(t, "rb")})
		holders = append(holders[:j:j], holders[j+1:]...)
	}
	sc.Steps[len(sc.Steps)-1].Burst = false
	for _, g := range append(waiterGates, freshGates...) {
		sc.Steps = append(sc.Steps, sim.Step{Op: "release", K: g, Out: "ok"})
	}
	return sc
}
