package gen

import (
	"pgregory.net/rapid"

	"verif/harness/engine"
	"verif/harness/sim"
)

var cliSites = []string{"rsp.wait.woke", "rsp.wait.woke", "cli.accept.recv", "cli.deliver.lock", "cli.send.lock", "cli.wait.lock", "cli.wait.hook", "cli.cb.lock", "cli.close.lock"}

func clientCfg(t *rapid.T) sim.CConfig {
	c := sim.CConfig{Chan: pick(t, "chan", []string{"direct", "pipe", "reuse"}), Salt: rapid.Uint64().Draw(t, "salt"), Yield: pick(t, "yield", []int{0, 0, 1, 3})}
	if rapid.IntRange(0, 9).Draw(t, "nohooks") == 0 {
		c.NoHooks = true
	}
	c.HookCalls = rapid.IntRange(0, 3).Draw(t, "hookcalls") == 0
	c.HookClose = rapid.IntRange(0, 5).Draw(t, "hookclose") == 0
	if rapid.IntRange(0, 3).Draw(t, "logyield") == 0 {
		c.LogYield = pick(t, "logyields", []int{1, 5, 40})
	}
	if rapid.IntRange(0, 5).Draw(t, "closefails") == 0 {
		// the channel's Close does close it, and reports an error (a last flush failed)
		c.Faults = append(c.Faults, sim.Fault{Op: "close", At: 1, Kind: "err"})
	}
	if rapid.IntRange(0, 2).Draw(t, "pins") == 0 {
		n := rapid.IntRange(1, 2).Draw(t, "npins")
		for i := 0; i < n; i++ {
			c.Pins = append(c.Pins, sim.Pin{Site: pick(t, "site", cliSites), Delay: pick(t, "delay", []int{1, 1, 50, 9000, 200000})})
		}
	}
	return c
}

type entry struct{ op, i int }

// MatchScenario (C04): concurrent calls and batches, then a reply plan from an
// arbitrary peer: the expected replies permuted, partitioned into single
// objects and arrays, with duplicates, unknown ids, malformed members,
// id-variant members and server-initiated requests interleaved.
func MatchScenario(t *rapid.T) sim.CScenario {
	sc := sim.CScenario{Cfg: clientCfg(t)}
	if rapid.IntRange(0, 3).Draw(t, "sendfault") == 0 {
		// a transient Send failure: the operation fails, the client stays usable
		sc.Cfg.Faults = append(sc.Cfg.Faults, sim.Fault{Op: "send", At: rapid.IntRange(1, 4).Draw(t, "faultat"), Kind: "err"})
	}
	sc.Cfg.NoHandlers = rapid.IntRange(0, 3).Draw(t, "nohandlers") == 0
	if !sc.Cfg.NoHandlers {
		sc.Cfg.OnlyHandler = rapid.SampledFrom([]string{"", "", "notify", "callback"}).Draw(t, "onlyhandler")
	}
	nops := rapid.IntRange(1, 4).Draw(t, "nops")
	var want []entry
	k := 0
	startOps := func(n int) {
		for j := 0; j < n; j++ {
			k++
			if rapid.IntRange(0, 2).Draw(t, "isbatch") == 0 {
				ns := rapid.IntRange(1, 4).Draw(t, "nspecs")
				st := sim.CStep{Op: "batch", K: k, Ctx: "bg"}
				for i := 0; i < ns; i++ {
					note := rapid.IntRange(0, 3).Draw(t, "spnote") == 0
					st.Specs = append(st.Specs, note)
					if !note {
						want = append(want, entry{k, i})
					}
				}
				st.Burst = rapid.IntRange(0, 9).Draw(t, "opburst") < 7
				sc.Steps = append(sc.Steps, st)
			} else {
				sc.Steps = append(sc.Steps, sim.CStep{Op: pick(t, "callkind", []string{"call", "call", "callresult"}), K: k, Ctx: "bg", Burst: rapid.IntRange(0, 9).Draw(t, "opburst") < 7})
				want = append(want, entry{k, 0})
			}
		}
		sc.Steps[len(sc.Steps)-1].Burst = rapid.IntRange(0, 9).Draw(t, "lastburst") < 2
	}
	startOps(nops)
	// the reply plan
	perm := rapid.Permutation(want).Draw(t, "perm")
	var items []sim.ReplyItem
	for _, e := range perm {
		items = append(items, sim.ReplyItem{Kind: pick(t, "rk", []string{"result", "result", "result", "error", "resultnullerr"}), Op: e.op, I: e.i, N: 1})
		if rapid.IntRange(0, 5).Draw(t, "dup") == 0 {
			items = append(items, sim.ReplyItem{Kind: pick(t, "dk", []string{"result", "error"}), Op: e.op, I: e.i, N: 2})
		}
	}
	// hostile and foreign members
	nx := rapid.IntRange(0, 4).Draw(t, "nextra")
	for j := 0; j < nx; j++ {
		it := sim.ReplyItem{Kind: pick(t, "xk", []string{"unknown", "nullid", "nonobject", "both", "neither", "strid", "fltid", "badversion", "extrafield", "note", "callback", "sameidreq", "sameidreq", "sameidreqscalar", "sameidreqnover", "sameidreqextra"}), N: 10 + j}
		if len(want) > 0 {
			e := pick(t, "xe", want)
			it.Op, it.I = e.op, e.i
		}
		pos := rapid.IntRange(0, len(items)).Draw(t, "xpos")
		items = append(items[:pos:pos], append([]sim.ReplyItem{it}, items[pos:]...)...)
	}
	// partition into records
	for len(items) > 0 {
		n := rapid.IntRange(1, min(4, len(items))).Draw(t, "group")
		st := sim.CStep{Op: "reply", Items: items[:n:n], Array: n > 1 || rapid.IntRange(0, 3).Draw(t, "arr1") == 0}
		st.Burst = rapid.IntRange(0, 9).Draw(t, "rburst") < 5
		st.Lead = pick(t, "lead", []string{"", "", "", "\r\n", "\r", " \r\n\t", "\n", " "})
		sc.Steps = append(sc.Steps, st)
		if rapid.IntRange(0, 7).Draw(t, "emptyarr") == 0 {
			// an empty array between the replies: nothing to deliver, nothing to break
			sc.Steps = append(sc.Steps, sim.CStep{Op: "raw", Raw: engine.Bytes(pick(t, "emptyarrv", []string{"[]", " [ ]\n", "[\t]"})), Burst: rapid.Bool().Draw(t, "eburst")})
		}
		items = items[n:]
		if rapid.IntRange(0, 5).Draw(t, "moreops") == 0 && k < 8 {
			startOps(rapid.IntRange(1, 2).Draw(t, "nmore"))
		}
	}
	for j := 1; j <= 20; j++ {
		sc.Steps = append(sc.Steps, sim.CStep{Op: "cbrelease", K: 10 + j, Burst: true})
	}
	sc.Steps[len(sc.Steps)-1].Burst = false
	return sc
}

// LifecycleScenario (C05): every kind of operation with cancellable and
// deadline contexts, replies, cancels, clock advances, Close, peer EOF,
// malformed inbound records, injected channel faults and server callbacks
// with parked handlers, racing in bursts.
func LifecycleScenario(t *rapid.T) sim.CScenario {
	sc := sim.CScenario{Cfg: clientCfg(t)}
	if rapid.IntRange(0, 3).Draw(t, "fault") == 0 {
		op := pick(t, "faultop", []string{"recv", "send"})
		f := sim.Fault{Op: op, At: rapid.IntRange(1, 5).Draw(t, "faultat"), Kind: "err"}
		if op == "recv" {
			f.Kind = pick(t, "faultkind", []string{"err", "data+eof", "data+err", "netclosed", "chanclosed"})
		}
		sc.Cfg.Faults = append(sc.Cfg.Faults, f)
	}
	n := rapid.IntRange(3, 20).Draw(t, "nsteps")
	k := 0
	var open []entry // entries that may still be answered
	var cancellable []int
	cbs := 0
	stopped := false
	for s := 0; s < n; s++ {
		var st sim.CStep
		roll := rapid.IntRange(0, 99).Draw(t, "op")
		switch {
		case roll < 30:
			k++
			kind := pick(t, "kind", []string{"call", "call", "callresult", "notify", "batch"})
			st = sim.CStep{Op: kind, K: k, Ctx: pick(t, "ctx", []string{"cancel", "cancel", "deadline"}), D: pick(t, "dl", []int{1000, 3000})}
			st.Relabel = kind == "call" && rapid.IntRange(0, 2).Draw(t, "relabel") == 0
			if rapid.IntRange(0, 11).Draw(t, "badparams") == 0 {
				// refused before anything is sent: no entry to answer
				st.BadParams = pick(t, "bpkind", []string{"chan", "scalar"})
				if kind == "batch" {
					for i, ns := 0, rapid.IntRange(1, 3).Draw(t, "nspecs"); i < ns; i++ {
						st.Specs = append(st.Specs, rapid.IntRange(0, 3).Draw(t, "spnote") == 0)
					}
				}
				cancellable = append(cancellable, k)
				break
			}
			if kind == "batch" {
				ns := rapid.IntRange(1, 3).Draw(t, "nspecs")
				if rapid.IntRange(0, 9).Draw(t, "nospecs") == 0 {
					// a batch of nothing (a list filtered down to empty): whatever Batch
					// answers, no record may go out for it
					ns = 0
					st.NoSpecs = pick(t, "nokind", []string{"nil", "empty"})
				}
				for i := 0; i < ns; i++ {
					note := rapid.IntRange(0, 3).Draw(t, "spnote") == 0
					st.Specs = append(st.Specs, note)
					if !note {
						open = append(open, entry{k, i})
					}
				}
			} else if kind != "notify" {
				open = append(open, entry{k, 0})
			}
			cancellable = append(cancellable, k)
		case roll < 52 && len(open) > 0:
			j := rapid.IntRange(0, len(open)-1).Draw(t, "which")
			e := open[j]
			if rapid.IntRange(0, 4).Draw(t, "keepopen") != 0 {
				open = append(open[:j:j], open[j+1:]...)
			}
			st = sim.CStep{Op: "reply", Items: []sim.ReplyItem{{Kind: pick(t, "rk", []string{"result", "result", "error", "resultnullerr"}), Op: e.op, I: e.i, N: rapid.IntRange(1, 3).Draw(t, "n")}}}
		case roll < 64 && len(cancellable) > 0:
			st = sim.CStep{Op: "ctxcancel", K: pick(t, "ck", cancellable), After: pick(t, "after", []int{0, 0, 3000, 15000, 40000, 100000})}
		case roll < 70:
			st = sim.CStep{Op: "advance", D: pick(t, "adv", []int{500, 1200, 3500})}
		case roll < 78:
			cbs++
			st = sim.CStep{Op: "reply", Items: []sim.ReplyItem{{Kind: pick(t, "sk", []string{"callback", "callback", "note"}), N: cbs}}}
		case roll < 84 && cbs > 0:
			st = sim.CStep{Op: "cbrelease", K: rapid.IntRange(1, cbs).Draw(t, "cbk")}
		case roll < 89 && !stopped:
			stopped = true
			st = sim.CStep{Op: pick(t, "stop", []string{"close", "close", "peerclose"})}
		case roll < 93:
			st = sim.CStep{Op: "raw", Raw: engine.Bytes(pick(t, "garbage", []string{`{`, ``, `[]`, `nul`, `[1,2`, `{"jsonrpc":"2.0","id":1,"result":1}x`}))}
			stopped = true
		case roll < 96:
			st = sim.CStep{Op: "close"}
		default:
			it := sim.ReplyItem{Kind: pick(t, "xk", []string{"unknown", "nullid", "nonobject", "neither", "strid", "badversion", "extrafield", "both", "sameidreq", "sameidreqscalar", "sameidreqnover", "sameidreqextra"}), N: 40 + s}
			if len(open) > 0 {
				// hostile members bear the id of a request that is still open
				e := pick(t, "xe", open)
				it.Op, it.I = e.op, e.i
			}
			st = sim.CStep{Op: "reply", Items: []sim.ReplyItem{it}}
		}
		st.Burst = rapid.IntRange(0, 99).Draw(t, "burst") < 40
		sc.Steps = append(sc.Steps, st)
	}
	sc.Steps[len(sc.Steps)-1].Burst = false
	return sc
}
