package gen

import (
	"fmt"

	"pgregory.net/rapid"

	"verif/harness/engine"
	"verif/harness/sim"
)

// PushScenario draws server-push workloads: Notify/Callback from outside and
// from inside parked handlers (also notification handlers), replies from the
// scripted peer in any order, duplicated, late, for unknown ids, with errors,
// the peer's own calls whose ids collide with callback ids, deadlines on the
// fake clock, and Stop racing all of it.
func PushScenario(t *rapid.T) sim.Scenario { return pushScenario(t, false) }

// PushRestartScenario is PushScenario with the restart-focused opening in
// every script: callbacks outstanding at the stop, the same Server started
// again at once, new callbacks while the old ones are still being wound up.
func PushRestartScenario(t *rapid.T) sim.Scenario { return pushScenario(t, true) }

func pushScenario(t *rapid.T, restartFocus bool) sim.Scenario {
	sc := sim.Scenario{}
	sc.Cfg.AllowPush = restartFocus || rapid.IntRange(0, 9).Draw(t, "allowpush") != 0
	sc.Cfg.Concurrency = pick(t, "limit", []int{1, 2, 32})
	sc.Cfg.Salt = rapid.Uint64().Draw(t, "salt")
	sc.Cfg.Chan = pick(t, "chan", []string{"direct", "pipe", "fragile"})
	sc.Cfg.Yield = pick(t, "yield", []int{0, 0, 2})
	sc.Cfg.LogYield = pick(t, "logyield", []int{0, 0, 0, 3, 40}) // a Logger that yields: whatever is logged outside the mutex is a window
	if rapid.IntRange(0, 9).Draw(t, "nohooks") == 0 {
		sc.Cfg.NoHooks = true
	}
	if rapid.IntRange(0, 2).Draw(t, "pins") == 0 {
		sc.Cfg.Pins = append(sc.Cfg.Pins, sim.Pin{
			Site:  pick(t, "site", []string{"rsp.wait.woke", "rsp.wait.woke", "srv.push.lock", "srv.waitcb.lock", "srv.read.recv", "srv.stop.lock", "srv.deliver.lock", "srv.barrier.wait"}),
			Delay: pick(t, "delay", []int{1, 50, 9000, 200000}),
		})
	}
	slowWaiter := false
	if sc.Cfg.AllowPush && rapid.IntRange(0, 3).Draw(t, "slowwaiter") == 0 {
		// a Callback that has been handed its outcome takes its time to act on it
		slowWaiter = true
		sc.Cfg.Pins = append(sc.Cfg.Pins, sim.Pin{Site: "rsp.wait.woke", Delay: 200000})
	}
	if rapid.IntRange(0, 5).Draw(t, "sendfault") == 0 {
		// the channel refuses one of the first records the server sends
		sc.Cfg.Faults = append(sc.Cfg.Faults, sim.Fault{Op: "send", At: rapid.IntRange(1, 5).Draw(t, "faultat"), Kind: "err"})
	}
	n := rapid.IntRange(3, 22).Draw(t, "nsteps")
	pushes := 0
	var callbacks []int  // outside callback serials issued
	var hcallbacks []int // handler nonces that issue callbacks
	var pending []int    // parked handler nonces
	nextK := 0
	stopped, restarted := false, false
	if sc.Cfg.AllowPush && (restartFocus || rapid.IntRange(0, 6).Draw(t, "restartfocus") == 0) {
		// Restart-focused prefix: callbacks outstanding when the server stops, the
		// same Server started again at once, new callbacks while the waiters of
		// the old ones are (often, by a pin) still on their way.
		if rapid.IntRange(0, 2).Draw(t, "slowwaiter") != 0 {
			sc.Cfg.Pins = append(sc.Cfg.Pins, sim.Pin{Site: "srv.waitcb.lock", Delay: pick(t, "wdelay", []int{9000, 50000, 200000})})
		}
		for j, m := 0, rapid.IntRange(1, 4).Draw(t, "old"); j < m; j++ {
			pushes++
			callbacks = append(callbacks, pushes)
			sc.Steps = append(sc.Steps, sim.Step{Op: "push", Push: "callback", K: pushes, D: pick(t, "deadline", []int{0, 0, 3000, -1}), Burst: rapid.Bool().Draw(t, "b")})
		}
		sc.Steps[len(sc.Steps)-1].Burst = false
		sc.Steps = append(sc.Steps, sim.Step{Op: pick(t, "stopkind", []string{"stop", "peerclose"}), Burst: true},
			sim.Step{Op: "restartnow", Burst: true})
		callbacks = nil
		for j, m := 0, rapid.IntRange(1, 3).Draw(t, "new"); j < m; j++ {
			pushes++
			callbacks = append(callbacks, pushes)
			sc.Steps = append(sc.Steps, sim.Step{Op: "push", Push: "callback", K: pushes, D: pick(t, "deadline", []int{0, 3000}), Burst: j < m-1 || rapid.Bool().Draw(t, "b")})
		}
		restarted = true
	}
	for i := 0; i < n; i++ {
		var st sim.Step
		roll := rapid.IntRange(0, 99).Draw(t, "op")
		switch {
		case roll < 22:
			pushes++
			kind := pick(t, "kind", []string{"callback", "callback", "notify"})
			st = sim.Step{Op: "push", Push: kind, K: pushes, D: pick(t, "deadline", []int{0, 0, 1000, 3000, -1, -2})}
			if rapid.IntRange(0, 14).Draw(t, "badparams") == 0 {
				st.Out = "badparams" // refused before anything is sent
			} else {
				switch rapid.IntRange(0, 7).Draw(t, "rawparams") {
				case 0:
					st.Out = "rawparams" // pre-encoded, with line feeds: a push like any other
				case 1:
					st.Out = "bigparams" // a few hundred bytes of parameters
				}
				if kind == "callback" {
					callbacks = append(callbacks, pushes)
				}
			}
		case roll < 34:
			// a handler (call or notification) that itself pushes, then parks
			nextK++
			method := pick(t, "hmethod", []string{"cbgate", "cbgate", "notegate"})
			if method == "cbgate" {
				hcallbacks = append(hcallbacks, nextK)
			}
			pending = append(pending, nextK)
			if rapid.Bool().Draw(t, "asnote") {
				st = sim.Step{Op: "send", Rec: engine.Bytes(fmt.Sprintf(`{"jsonrpc":"2.0","method":%q,"params":{"k":%d}}`, method, nextK))}
			} else {
				st = sim.Step{Op: "send", Rec: engine.Bytes(fmt.Sprintf(`{"jsonrpc":"2.0","id":%d,"method":%q,"params":{"k":%d}}`, 100+nextK, method, nextK))}
			}
		case roll < 62 && (len(callbacks) > 0 || len(hcallbacks) > 0):
			// the peer answers a callback: maybe twice, maybe late, maybe one that does not exist
			st = sim.Step{Op: "cbreply", Out: pick(t, "out", []string{"result", "result", "error"}), D: rapid.IntRange(1, 3).Draw(t, "n")}
			if len(hcallbacks) > 0 && (len(callbacks) == 0 || rapid.Bool().Draw(t, "inside")) {
				st.Push, st.K = "handler", pick(t, "hk", hcallbacks)
			} else {
				st.Push, st.K = "push", pick(t, "pk", callbacks)
			}
			if rapid.IntRange(0, 9).Draw(t, "unknown") == 0 {
				st.K = 77 // no such callback: unsolicited reply
			}
			if rapid.IntRange(0, 3).Draw(t, "lead") == 0 {
				st.ID = "lead" // the reply travels in a batch behind a call of the peer's own
			} else if rapid.IntRange(0, 5).Draw(t, "quoted") == 0 {
				st.ID = "quoted" // the id's digits as a JSON string: not the id the server issued
				st.D += 10       // (its payload differs from that of any genuine reply)
			}
			if st.Push == "push" && st.K != 77 && slowWaiter && rapid.IntRange(0, 2).Draw(t, "racecancel") != 0 {
				// ... and the caller gives up while the reply is on its last yards:
				// the waiter is held (pin) between receiving it and acting on it
				st.Burst = true
				sc.Steps = append(sc.Steps, st)
				st = sim.Step{Op: "pushcancel", K: st.K, After: pick(t, "rcafter", []int{60000, 100000, 20000})}
			}
		case roll < 72:
			// the peer's own call, with an id that collides numerically with callback ids
			nextK++
			method := pick(t, "cmethod", []string{"ret", "gate", "ret"})
			if method == "gate" {
				pending = append(pending, nextK)
			}
			st = sim.Step{Op: "send", Rec: engine.Bytes(fmt.Sprintf(`{"jsonrpc":"2.0","id":%d,"method":%q,"params":{"k":%d}}`, rapid.IntRange(1, 4).Draw(t, "collide"), method, nextK))}
			if method == "ret" && rapid.IntRange(0, 3).Draw(t, "malformed") == 0 {
				// the same, malformed: it is answered with an error under its id and
				// is still no reply to the callback that happens to bear that id
				id := rapid.IntRange(1, 4).Draw(t, "collide2")
				st.Rec = engine.Bytes(pick(t, "badreq", []string{
					fmt.Sprintf(`{"jsonrpc":"2.0","id":%d,"method":"ret","params":5}`, id),
					fmt.Sprintf(`{"id":%d,"method":"ret","params":{"k":%d}}`, id, nextK),
					fmt.Sprintf(`{"jsonrpc":"2.0","id":%d,"method":"ret","params":{"k":%d},"bogus":1}`, id, nextK),
				}))
			}
		case roll < 80 && len(pending) > 0:
			j := rapid.IntRange(0, len(pending)-1).Draw(t, "which")
			st = sim.Step{Op: "release", K: pending[j], Out: "ok"}
			pending = append(pending[:j:j], pending[j+1:]...)
		case roll < 86:
			st = sim.Step{Op: "advance", D: pick(t, "adv", []int{500, 1200, 3500})}
		case roll < 90 && pushes > 0:
			st = sim.Step{Op: "pushcancel", K: rapid.IntRange(1, pushes).Draw(t, "pc"), After: pick(t, "pcafter", []int{0, 0, 8000, 30000, 100000})}
			if rapid.IntRange(0, 3).Draw(t, "cancelreq") == 0 {
				// CancelRequest with a small id: it may name one of the peer's own
				// calls (or nothing at all) - never a callback, whose ids are 1, 2, 3 too
				st = sim.Step{Op: "cancel", ID: pick(t, "crid", []string{"1", "2", "3"})}
			}
		case roll < 94 && !stopped:
			stopped = true
			st = sim.Step{Op: pick(t, "stopkind", []string{"stop", "peerclose"})}
		case roll < 97 && stopped && !restarted:
			// the same Server value serves a new connection while callbacks of the
			// old one may still be winding down
			restarted = true
			st = sim.Step{Op: "restartnow"}
		default:
			nextK++
			st = sim.Step{Op: "send", Rec: engine.Bytes(pick(t, "stray", []string{
				`{"jsonrpc":"2.0","id":1,"result":"unsolicited"}`,
				`{"jsonrpc":"2.0","id":99,"error":{"code":1,"message":"unsolicited"}}`,
				fmt.Sprintf(`[{"jsonrpc":"2.0","id":2,"result":1},{"jsonrpc":"2.0","id":%d,"method":"ret","params":{"k":%d}}]`, 200+nextK, nextK),
				`{"jsonrpc":"2.0","id":null,"result":1}`,
			}))}
		}
		st.Burst = rapid.IntRange(0, 99).Draw(t, "burst") < 35
		sc.Steps = append(sc.Steps, st)
	}
	if len(sc.Steps) > 0 {
		sc.Steps[len(sc.Steps)-1].Burst = false
	}
	return sc
}
