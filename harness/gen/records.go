package gen

import (
	"strings"

	"pgregory.net/rapid"
)

// ---- the exhaustive field-variant product -----------------------------------

var (
	vJSONRPC = []string{"", `"2.0"`, `"2.\u0030"`, `"1.0"`, `2.0`, `null`, `[]`}
	vID      = []string{"", `null`, `0`, `-0`, `1.5`, `1e3`, `"s"`, `""`, `"1"`, `true`, `[]`, `{}`}
	vMethod  = []string{"", `"ret"`, `"nope"`, `"rpc.serverInfo"`, `"rpc.x"`, `""`, `null`, `7`, `[false]`}
	vParams  = []string{"", `null`, `[]`, `{}`, `[1]`, `"s"`, `5`, `true`}
	vExtra   = []string{"", `"x":1`, `"result":1`, `"error":{"code":1,"message":"m"}`, `"error":5`}
)

func fieldMember(a, b, c, d, e int) string {
	var parts []string
	if vJSONRPC[a] != "" {
		parts = append(parts, `"jsonrpc":`+vJSONRPC[a])
	}
	if vID[b] != "" {
		parts = append(parts, `"id":`+vID[b])
	}
	if vMethod[c] != "" {
		parts = append(parts, `"method":`+vMethod[c])
	}
	if vParams[d] != "" {
		parts = append(parts, `"params":`+vParams[d])
	}
	if vExtra[e] != "" {
		parts = append(parts, vExtra[e])
	}
	return "{" + strings.Join(parts, ",") + "}"
}

func ProductSize() int { return len(vJSONRPC) * len(vID) * len(vMethod) * len(vParams) * len(vExtra) }

func NthMember(n int) string {
	e := n % len(vExtra)
	n /= len(vExtra)
	d := n % len(vParams)
	n /= len(vParams)
	c := n % len(vMethod)
	n /= len(vMethod)
	b := n % len(vID)
	n /= len(vID)
	return fieldMember(n%len(vJSONRPC), b, c, d, e)
}

var seeds = []string{
	`{"jsonrpc":"2.0","id":1,"method":"ret","params":{"k":1}}`,
	`{"jsonrpc":"2.0","method":"ret","params":[5]}`,
	`[{"jsonrpc":"2.0","id":"a","method":"ret"},{"jsonrpc":"2.0","method":"nope"}]`,
	`{"jsonrpc":"2.0","id":7,"result":{"x":[1,2,3]}}`,
	`{"jsonrpc":"2.0","id":null,"method":"svc.ret","params":null}`,
	`{"jsonrpc":"2.0","id":3,"error":{"code":-32000,"message":"boom","data":[1]}}`,
	`{"jsonrpc":"2.0","id":12345678901234567890,"method":"rpc.serverInfo"}`,
	`{"jsonrpc":"2.0","id":1e400,"method":"err","params":{"k":2,"c":-5}}`,
	`[]`, `[[]]`, `[1,2]`, ``, ` `, `{`, `{"jsonrpc":"2.0","id":1,"method":"ret"`, `nul`, `"str"`,
}

func genJSONText(t *rapid.T, depth int) string {
	switch rapid.IntRange(0, 9).Draw(t, "vk") {
	case 0:
		return "null"
	case 1:
		return rapid.SampledFrom([]string{"true", "false"}).Draw(t, "b")
	case 2:
		return rapid.SampledFrom([]string{"0", "-0", "1", "-1", "1.5", "1e3", "1E-2", "12345678901234567890", "1e999", "0.000000000000000000000000000001", "2147483648", "-2147483649"}).Draw(t, "n")
	case 3, 4:
		return genJSONStringText(t)
	case 5, 6:
		if depth > 3 {
			return "[]"
		}
		n := rapid.IntRange(0, 3).Draw(t, "alen")
		var xs []string
		for i := 0; i < n; i++ {
			xs = append(xs, genJSONText(t, depth+1))
		}
		return "[" + strings.Join(xs, ",") + "]"
	default:
		if depth > 3 {
			return "{}"
		}
		n := rapid.IntRange(0, 3).Draw(t, "olen")
		var xs []string
		for i := 0; i < n; i++ {
			xs = append(xs, genJSONStringText(t)+":"+genJSONText(t, depth+1))
		}
		return "{" + strings.Join(xs, ",") + "}"
	}
}

func genJSONStringText(t *rapid.T) string {
	return rapid.SampledFrom([]string{`""`, `"a"`, `"2.0"`, `"ret"`, `"k"`, `"id"`, `"method"`, `"A"`, `"é"`, `"😀"`, `"\ud800"`, "\"\xff\"", `"a\nb"`, `"rpc.x"`, `"rpc."`, `"jsonrpc"`, `"code"`, `"Message"`}).Draw(t, "s")
}

func InboundRecord(t *rapid.T) string {
	switch rapid.IntRange(0, 5).Draw(t, "rk") {
	case 0: // grammar: an object with the protocol keys and near-valid values
		var parts []string
		keys := []string{"jsonrpc", "id", "method", "params", "result", "error", "x", "Method", "jsonrpc", "id"}
		n := rapid.IntRange(0, 6).Draw(t, "nkeys")
		for i := 0; i < n; i++ {
			k := rapid.SampledFrom(keys).Draw(t, "key")
			var v string
			switch {
			case k == "jsonrpc" && rapid.IntRange(0, 3).Draw(t, "okv") != 0:
				v = `"2.0"`
			case k == "method" && rapid.IntRange(0, 3).Draw(t, "okm") != 0:
				v = rapid.SampledFrom([]string{`"ret"`, `"nope"`, `"svc.ret"`, `"rpc.serverInfo"`, `"rpc.user"`, `"err"`, `"ret"`, `"rpcret"`}).Draw(t, "mv")
			case k == "id" && rapid.IntRange(0, 3).Draw(t, "oki") != 0:
				v = rapid.SampledFrom([]string{`1`, `"a"`, `2.5`, `-7`, `null`, `1e2`, `"1"`}).Draw(t, "iv")
			case k == "error" && rapid.IntRange(0, 2).Draw(t, "oke") != 0:
				v = rapid.SampledFrom([]string{`{"code":1,"message":"m"}`, `{"code":1.5,"message":"m"}`, `{"code":1}`, `{"message":"m"}`, `{"code":1,"message":"m","data":null}`, `{"Code":1,"message":"m"}`, `{"code":1,"message":"m","x":1}`, `{"code":99999999999,"message":"m"}`, `{"code":"1","message":"m"}`, `{"code":1,"message":2}`}).Draw(t, "ev")
			default:
				v = genJSONText(t, 0)
			}
			ws := rapid.SampledFrom([]string{"", "", " ", "\n"}).Draw(t, "ws")
			parts = append(parts, ws+`"`+k+`"`+ws+":"+ws+v)
		}
		return "{" + strings.Join(parts, ",") + "}"
	case 1: // array of such
		n := rapid.IntRange(0, 3).Draw(t, "blen")
		var xs []string
		for i := 0; i < n; i++ {
			xs = append(xs, InboundRecord(t))
		}
		return rapid.SampledFrom([]string{"", " ", "\n\t"}).Draw(t, "lead") + "[" + strings.Join(xs, ",") + "]"
	case 2: // arbitrary JSON value
		return genJSONText(t, 0)
	case 3, 4: // byte mutation of a seed
		s := []byte(rapid.SampledFrom(seeds).Draw(t, "seed"))
		nm := rapid.IntRange(1, 3).Draw(t, "nmut")
		for i := 0; i < nm && len(s) > 0; i++ {
			p := rapid.IntRange(0, len(s)-1).Draw(t, "pos")
			switch rapid.IntRange(0, 3).Draw(t, "mk") {
			case 0:
				s = append(s[:p:p], s[p+1:]...)
			case 1:
				s[p] = rapid.SampledFrom([]byte(`{}[]",:0a \n`+"\x00\xff")).Draw(t, "byte")
			case 2:
				s = append(s[:p:p], append([]byte{rapid.SampledFrom([]byte(`{}[]",:0a \n`)).Draw(t, "ins")}, s[p:]...)...)
			case 3:
				s = s[:p]
			}
		}
		return string(s)
	default: // deep nesting / very long
		d := rapid.SampledFrom([]int{50, 500, 3000}).Draw(t, "depth")
		return `{"jsonrpc":"2.0","id":1,"method":"ret","params":` + strings.Repeat("[", d) + strings.Repeat("]", d) + `}`
	}
}
