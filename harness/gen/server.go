// Package gen holds the rapid generators of scenario scripts. Scripts are
// drawn outside the bubble, against a light sequential picture of what has
// been sent and released so far, so that steps refer to things that exist.
package gen

import (
	"fmt"
	"strings"

	"pgregory.net/rapid"

	"verif/harness/engine"
	"verif/harness/sim"
)

// Profile biases the server-side script generator towards one property.
type Profile struct {
	MinSteps, MaxSteps int
	Limits             []int // Concurrency choices
	IDPool             []string
	PNote              int // weight of notifications among valid members (out of 100)
	PGate              int // weight of parking handlers among valid members (out of 100)
	PInvalid           int // weight of invalid members (out of 100)
	PUnknown           int // weight of unknown / reserved methods (out of 100)
	PTopInvalid        int // probability of a record that is no JSON at all or an empty array (out of 100)
	PBatch             int // probability of a batch record (out of 100)
	MaxBatch           int
	PCancel            int // weight of cancel steps (out of 100 steps)
	PRelease           int // weight of release steps while something is parked (out of 100 steps; 0 = 40)
	PBurst             int // probability that a step races with the next one
	PObey              int // probability that a parking handler returns when cancelled
	Builtins           bool
	Outcomes           []string // release outcomes
	AllowPush          bool
	PHandlerPush       int // probability (out of 100) that a parking handler first makes a callback (push-enabled servers)
	PSendFault         int // probability (out of 100) that the channel refuses one of the server's first Sends
	PPush              int // weight of Callback steps issued from outside on a push-enabled server (out of 100 steps)
	Pins               bool
	Chans              []string
	PBaseDeadline      int    // probability (out of 100) of a server whose request contexts have a 50ms deadline
	PLongWait          int    // weight (out of 100 steps) of a step that lets 6 s or 61 s of fake time pass: nothing in the library may give up waiting on its own
	OwnBase            bool   // half of the servers give every request a base context of its own (ServerOptions.NewContext) that outcome "endbase" ends
	PrefixGates        [2]int // the script opens with this many (min, max; capped below the limit) single parking calls, one per record
}

// State is the generator's picture of the script so far.
type State struct {
	nextK   int
	nextID  int
	Pending []int           // gate nonces sent and not yet released
	IDOf    map[int]string  // nonce -> id text ("" for notifications)
	LiveIDs []string        // ids of calls sent so far (for cancel)
	window  map[string]bool // ids sent in the current burst window
	push    bool            // the server is push-enabled
	HCB     []int           // nonces of handlers that make a callback before parking
}

func pick[T any](t *rapid.T, label string, xs []T) T { return rapid.SampledFrom(xs).Draw(t, label) }

var invalidShapes = []string{
	`{"jsonrpc":"1.0",%s"method":"ret"}`,
	`{%s"method":"ret"}`,
	`{"jsonrpc":"2.0",%s"method":"ret","params":5}`,
	`{"jsonrpc":"2.0",%s"method":7}`,
	`{"jsonrpc":"2.0",%s"method":"ret","extra":true}`,
	`{"jsonrpc":"2.0",%s"method":""}`,
	`{"jsonrpc":"2.0",%s"method":"ret","result":1}`,
	`{"jsonrpc":"2.0","id":[1],"method":"ret"}`,
	`17`,
	`"str"`,
}

// Member generates one member; it returns its text.
func (s *State) Member(t *rapid.T, p Profile) string {
	roll := rapid.IntRange(0, 99).Draw(t, "kind")
	newID := func() string {
		if len(p.IDPool) > 0 {
			return pick(t, "id", p.IDPool)
		}
		s.nextID++
		switch rapid.IntRange(0, 11).Draw(t, "idstr") {
		case 0, 1, 2:
			return fmt.Sprintf(`"s%d"`, s.nextID)
		case 3:
			// numbers no int64 holds, and exponent notation: ids all the same
			return fmt.Sprintf("922337203685477580%d", 800+s.nextID)
		case 4:
			return fmt.Sprintf("%de3", 100+s.nextID)
		}
		return fmt.Sprint(s.nextID)
	}
	switch {
	case roll < p.PInvalid:
		shape := pick(t, "shape", invalidShapes)
		idpart := ""
		if strings.Contains(shape, "%s") {
			if rapid.Bool().Draw(t, "withid") {
				idpart = `"id":` + newID() + `,`
			}
			return fmt.Sprintf(shape, idpart)
		}
		return shape
	case roll < p.PInvalid+p.PUnknown:
		m := pick(t, "umethod", []string{"nope", "nope", "rpc.x", "rpc.", "Ret", "svc.nope"})
		if p.Builtins && rapid.IntRange(0, 2).Draw(t, "info") == 0 {
			m = "rpc.serverInfo"
		}
		if rapid.IntRange(0, 3).Draw(t, "unote") == 0 && m != "rpc.serverInfo" {
			return fmt.Sprintf(`{"jsonrpc":"2.0","method":%q}`, m)
		}
		id := newID()
		s.LiveIDs = append(s.LiveIDs, id)
		s.window[id] = true
		return fmt.Sprintf(`{"jsonrpc":"2.0","id":%s,"method":%q}`, id, m)
	}
	s.nextK++
	k := s.nextK
	note := rapid.IntRange(0, 99).Draw(t, "note") < p.PNote
	method := "ret"
	params := fmt.Sprintf(`{"k":%d}`, k)
	if rapid.IntRange(0, 99).Draw(t, "gate") < p.PGate {
		method = "gate"
		if s.push && p.PHandlerPush > 0 && rapid.IntRange(0, 99).Draw(t, "hpush") < p.PHandlerPush {
			// calls back to the peer, waits for the reply, then parks like any gate handler
			method = "cbgate"
			s.HCB = append(s.HCB, k)
		}
		s.Pending = append(s.Pending, k)
		if rapid.IntRange(0, 99).Draw(t, "obey") < p.PObey {
			params = fmt.Sprintf(`{"k":%d,"obey":true}`, k)
		}
	} else if rapid.IntRange(0, 5).Draw(t, "err") == 0 {
		method = "err"
		params = fmt.Sprintf(`{"k":%d,"c":%d}`, k, pick(t, "code", []int{-32000, 1, -5, 0, -32600, -32700, -32601}))
	} else if rapid.IntRange(0, 5).Draw(t, "arr") == 0 {
		params = fmt.Sprintf(`[%d]`, k)
	}
	if method == "ret" && rapid.IntRange(0, 7).Draw(t, "rpcname") == 0 {
		method = "rpcret" // a name that merely begins like the reserved prefix: a method like any other
	}
	if note {
		s.IDOf[k] = ""
		if rapid.IntRange(0, 4).Draw(t, "nullid") == 0 {
			return fmt.Sprintf(`{"jsonrpc":"2.0","id":null,"method":%q,"params":%s}`, method, params)
		}
		return fmt.Sprintf(`{"jsonrpc":"2.0","method":%q,"params":%s}`, method, params)
	}
	id := newID()
	s.IDOf[k] = id
	s.LiveIDs = append(s.LiveIDs, id)
	s.window[id] = true
	return fmt.Sprintf(`{"jsonrpc":"2.0","id":%s,"method":%q,"params":%s}`, id, method, params)
}

// Record generates one inbound record (single member or batch).
func (s *State) Record(t *rapid.T, p Profile) string {
	if p.PTopInvalid > 0 && rapid.IntRange(0, 99).Draw(t, "topinvalid") < p.PTopInvalid {
		return pick(t, "garbage", []string{`[]`, `[]`, `{`, `nope`, `[1,`, `{"jsonrpc":"2.0","id":1,"method":"ret"`, `}`, ` [ ] `})
	}
	if rapid.IntRange(0, 99).Draw(t, "batch") < p.PBatch {
		n := rapid.IntRange(1, p.MaxBatch).Draw(t, "n")
		var ms []string
		for i := 0; i < n; i++ {
			ms = append(ms, s.Member(t, p))
		}
		return "[" + strings.Join(ms, ",") + "]"
	}
	return s.Member(t, p)
}

// ServerScenario draws a configuration and a script.
func ServerScenario(t *rapid.T, p Profile) sim.Scenario {
	sc := sim.Scenario{}
	sc.Cfg.Concurrency = pick(t, "limit", p.Limits)
	sc.Cfg.Salt = rapid.Uint64().Draw(t, "salt")
	sc.Cfg.AllowPush = p.AllowPush && rapid.Bool().Draw(t, "push")
	if len(p.Chans) > 0 {
		sc.Cfg.Chan = pick(t, "chan", p.Chans)
	}
	if p.Pins && rapid.IntRange(0, 2).Draw(t, "pins") == 0 {
		n := rapid.IntRange(1, 3).Draw(t, "npins")
		for i := 0; i < n; i++ {
			sc.Cfg.Pins = append(sc.Cfg.Pins, sim.Pin{
				Site:  pick(t, "site", []string{"srv.read.recv", "srv.next.wake", "srv.barrier.wait", "srv.barrier.add", "srv.dispatch.run", "srv.invoke.acquire", "srv.invoke.run", "srv.invoke.done", "srv.deliver.lock", "srv.cancel.lock", "srv.stop.lock"}),
				Delay: pick(t, "delay", []int{1, 2, 50, 9000, 20000, 200000}),
			})
		}
	}
	if rapid.IntRange(0, 9).Draw(t, "nohooks") == 0 {
		sc.Cfg.NoHooks = true
	}
	sc.Cfg.Yield = pick(t, "yield", []int{0, 0, 1, 3})
	if p.PBaseDeadline > 0 && rapid.IntRange(0, 99).Draw(t, "basedl") < p.PBaseDeadline {
		sc.Cfg.BaseDeadlineMs = 50
	}
	if p.OwnBase && sc.Cfg.BaseDeadlineMs == 0 && rapid.Bool().Draw(t, "ownbase") {
		sc.Cfg.OwnBase = true
	}
	if p.PSendFault > 0 && rapid.IntRange(0, 99).Draw(t, "sendfault") < p.PSendFault {
		// a transient failure: the Send returns an error, the connection stays up
		sc.Cfg.Faults = append(sc.Cfg.Faults, sim.Fault{Op: "send", At: rapid.IntRange(1, 6).Draw(t, "faultat"), Kind: "err"})
	}
	st := &State{IDOf: map[int]string{}, window: map[string]bool{}, push: sc.Cfg.AllowPush}
	if p.PrefixGates[1] > 0 {
		hi := min(p.PrefixGates[1], sc.Cfg.Concurrency-1)
		m := rapid.IntRange(min(p.PrefixGates[0], hi), hi).Draw(t, "prefixgates")
		for i := 0; i < m; i++ {
			st.nextK++
			st.nextID++
			k, id := st.nextK, fmt.Sprint(st.nextID)
			st.IDOf[k] = id
			st.LiveIDs = append(st.LiveIDs, id)
			st.Pending = append(st.Pending, k)
			sc.Steps = append(sc.Steps, sim.Step{Op: "send", Burst: rapid.Bool().Draw(t, "pburst"),
				Rec: engine.Bytes(fmt.Sprintf(`{"jsonrpc":"2.0","id":%s,"method":"gate","params":{"k":%d}}`, id, k))})
		}
		sc.Steps[len(sc.Steps)-1].Burst = false
	}
	n := rapid.IntRange(p.MinSteps, p.MaxSteps).Draw(t, "nsteps")
	outcomes := p.Outcomes
	if len(outcomes) == 0 {
		outcomes = []string{"ok"}
	}
	npush := 0
	prel := p.PRelease
	if prel == 0 {
		prel = 40
	}
	for i := 0; i < n; i++ {
		var step sim.Step
		roll := rapid.IntRange(0, 99).Draw(t, "op")
		switch {
		case sc.Cfg.BaseDeadlineMs > 0 && roll >= 88:
			// let every context created so far expire (never inside a burst)
			if len(sc.Steps) > 0 {
				sc.Steps[len(sc.Steps)-1].Burst = false
			}
			st.window = map[string]bool{}
			sc.Steps = append(sc.Steps, sim.Step{Op: "advance", D: 200})
			continue
		case p.PLongWait > 0 && sc.Cfg.BaseDeadlineMs == 0 && roll >= 50 && roll < 50+p.PLongWait:
			// (never inside a burst: everything in flight has settled before the wait)
			if len(sc.Steps) > 0 {
				sc.Steps[len(sc.Steps)-1].Burst = false
			}
			st.window = map[string]bool{}
			sc.Steps = append(sc.Steps, sim.Step{Op: "advance", D: pick(t, "longwait", []int{6000, 6000, 61000})})
			continue
		case len(st.HCB) > 0 && roll >= 60 && roll < 60+p.PHandlerPush/2+4:
			// the peer answers the callback of one of the handlers (again, perhaps)
			j := rapid.IntRange(0, len(st.HCB)-1).Draw(t, "hcb")
			step = sim.Step{Op: "cbreply", Push: "handler", K: st.HCB[j], Out: pick(t, "cbout", []string{"result", "result", "error"}), D: 1}
			if rapid.IntRange(0, 3).Draw(t, "hcbonce") != 0 {
				st.HCB = append(st.HCB[:j:j], st.HCB[j+1:]...)
			}
		case sc.Cfg.AllowPush && p.PPush > 0 && npush > 0 && roll >= 100-p.PPush-p.PPush/2-1 && roll < 100-p.PPush:
			// the peer answers one of the callbacks (or answers it again): a record
			// that holds nothing but a reply has nothing to report
			step = sim.Step{Op: "cbreply", Push: "push", K: rapid.IntRange(1, npush).Draw(t, "cbk"), Out: pick(t, "cbout", []string{"result", "result", "error"}), D: 1}
		case sc.Cfg.AllowPush && p.PPush > 0 && roll >= 100-p.PPush:
			// a server callback that stays outstanding: its id (1, 2, 3 ...) lives in
			// a space of its own and must not interfere with the peer's request ids
			npush++
			step = sim.Step{Op: "push", Push: "callback", K: npush}
		case roll < p.PCancel && len(st.LiveIDs) > 0:
			id := pick(t, "cancelid", st.LiveIDs)
			if rapid.IntRange(0, 9).Draw(t, "bogus") == 0 {
				id = pick(t, "bogusid", []string{"999", `"zz"`, "0"})
			}
			if st.window[id] {
				// A cancel must not race with the arrival of its own target:
				// close the burst window first.
				if len(sc.Steps) > 0 {
					sc.Steps[len(sc.Steps)-1].Burst = false
				}
				st.window = map[string]bool{}
			}
			step = sim.Step{Op: "cancel", ID: id}
		case roll < p.PCancel+prel && len(st.Pending) > 0:
			j := rapid.IntRange(0, len(st.Pending)-1).Draw(t, "which")
			k := st.Pending[j]
			st.Pending = append(st.Pending[:j:j], st.Pending[j+1:]...)
			step = sim.Step{Op: "release", K: k, Out: pick(t, "outcome", outcomes)}
		default:
			// (legal white space in front of a record changes nothing)
			lead := pick(t, "leadws", []string{"", "", "", "", "\n", "\r\n", " \t", "\n\n "})
			step = sim.Step{Op: "send", Rec: engine.Bytes(lead + st.Record(t, p))}
		}
		step.Burst = rapid.IntRange(0, 99).Draw(t, "burst") < p.PBurst
		if !step.Burst {
			st.window = map[string]bool{}
		}
		sc.Steps = append(sc.Steps, step)
	}
	if len(sc.Steps) > 0 {
		sc.Steps[len(sc.Steps)-1].Burst = false
	}
	return sc
}

// CancelRaceScenario: all slots taken by parked calls, then one more call that
// a pin holds in front of the slot semaphore while CancelRequest names it and
// (often) a slot is given back; then everything is released.
func CancelRaceScenario(t *rapid.T) sim.Scenario {
	sc := sim.Scenario{}
	limit := pick(t, "limit", []int{1, 1, 2, 3})
	sc.Cfg.Concurrency = limit
	sc.Cfg.Salt = rapid.Uint64().Draw(t, "salt")
	sc.Cfg.Chan = pick(t, "chan", []string{"direct", "pipe"})
	// held either in front of the semaphore or just behind it (slot taken, handler not yet started)
	sc.Cfg.Pins = []sim.Pin{{Site: pick(t, "holdsite", []string{"srv.invoke.acquire", "srv.invoke.acquire", "srv.invoke.run"}), Delay: pick(t, "hold", []int{200000, 200000, 100000})}}
	if rapid.Bool().Draw(t, "slowcancel") {
		sc.Cfg.Pins = append(sc.Cfg.Pins, sim.Pin{Site: "srv.cancel.lock", Delay: pick(t, "cdelay", []int{1, 50, 9000, 300000})})
	}
	k, id := 0, 0
	call := func(method string, burst bool) (int, int) {
		k++
		id++
		sc.Steps = append(sc.Steps, sim.Step{Op: "send", Burst: burst,
			Rec: engine.Bytes(fmt.Sprintf(`{"jsonrpc":"2.0","id":%d,"method":%q,"params":{"k":%d}}`, id, method, k))})
		return k, id
	}
	var fillers []int
	nfill := rapid.IntRange(max(0, limit-1), limit).Draw(t, "fillers")
	for i := 0; i < nfill; i++ {
		fk, _ := call("gate", false)
		fillers = append(fillers, fk)
	}
	var parked []int
	rounds := rapid.IntRange(1, 3).Draw(t, "rounds")
	for r := 0; r < rounds; r++ {
		xk, xid := call(pick(t, "xmethod", []string{"ret", "ret", "gate"}), true)
		parked = append(parked, xk)
		// the cancel and, perhaps, a slot coming back - all while the call is held
		order := rapid.IntRange(0, 2).Draw(t, "order")
		// (the call needs a few hook delays to get there, and stays for the pin's delay)
		cancel := sim.Step{Op: "cancel", ID: fmt.Sprint(xid), Burst: true, After: pick(t, "cafter", []int{45000, 45000, 30000, 5000})}
		var release *sim.Step
		if len(fillers) > 0 && rapid.IntRange(0, 3).Draw(t, "giveback") != 0 {
			release = &sim.Step{Op: "release", K: fillers[0], Out: "ok", Burst: true, After: pick(t, "rafter", []int{0, 40000, 47000, 60000, 150000})}
			fillers = fillers[1:]
		}
		switch {
		case release == nil:
			sc.Steps = append(sc.Steps, cancel)
		case order == 0:
			sc.Steps = append(sc.Steps, cancel, *release)
		default:
			sc.Steps = append(sc.Steps, *release, cancel)
		}
		sc.Steps[len(sc.Steps)-1].Burst = false
		if rapid.Bool().Draw(t, "refill") {
			fk, _ := call("gate", false)
			fillers = append(fillers, fk)
		}
	}
	for _, fk := range append(fillers, parked...) {
		sc.Steps = append(sc.Steps, sim.Step{Op: "release", K: fk, Out: "ok"})
	}
	// afterwards every slot is still there: as many parking calls as the limit all start
	var probes []int
	for i := 0; i < limit; i++ {
		pk, _ := call("gate", false)
		probes = append(probes, pk)
	}
	for _, pk := range probes {
		sc.Steps = append(sc.Steps, sim.Step{Op: "release", K: pk, Out: "ok"})
	}
	return sc
}
