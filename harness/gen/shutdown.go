package gen

import (
	"fmt"

	"pgregory.net/rapid"

	"verif/harness/engine"
	"verif/harness/sim"
)

// ShutdownScenario draws traffic mixed with one or more stop causes (Stop,
// peer close, injected Recv/Send faults) at any position, records arriving
// after the stop, WaitStatus, and a restart on a fresh channel with a probe.
func ShutdownScenario(t *rapid.T) sim.Scenario { return shutdownScenario(t, nil) }

// ShutdownScenarioPool is ShutdownScenario with every request id drawn from a
// small pool, always a restart, and more traffic on the second connection: ids
// that were in flight when the first connection ended come round again.
func ShutdownScenarioPool(t *rapid.T, pool []string) sim.Scenario { return shutdownScenario(t, pool) }

func shutdownScenario(t *rapid.T, pool []string) sim.Scenario {
	p := Profile{
		// a limit below 1 means one slot per CPU
		Limits: []int{1, 2, 32, 32, -1, 0}, PNote: 40, PGate: 60, PInvalid: 15, PUnknown: 8, PBatch: 35, MaxBatch: 3, PTopInvalid: 8,
		PObey: 50, Builtins: true, AllowPush: true,
	}
	if pool != nil {
		p.IDPool = pool
		p.PNote, p.PInvalid, p.PTopInvalid = 10, 4, 2
	}
	sc := sim.Scenario{}
	sc.Cfg.Concurrency = pick(t, "limit", p.Limits)
	sc.Cfg.Salt = rapid.Uint64().Draw(t, "salt")
	sc.Cfg.AllowPush = rapid.Bool().Draw(t, "push")
	sc.Cfg.Chan = pick(t, "chan", []string{"direct", "direct", "pipe"})
	sc.Cfg.Yield = pick(t, "yield", []int{0, 0, 2})
	sc.Cfg.LogYield = pick(t, "logyield", []int{0, 0, 0, 2, 6})
	if rapid.IntRange(0, 9).Draw(t, "nohooks") < 2 {
		sc.Cfg.NoHooks = true
	}
	if rapid.IntRange(0, 2).Draw(t, "pins") == 0 {
		sc.Cfg.Pins = append(sc.Cfg.Pins, sim.Pin{
			Site:  pick(t, "site", []string{"srv.read.recv", "srv.next.wake", "srv.barrier.wait", "srv.dispatch.run", "srv.invoke.acquire", "srv.deliver.lock", "srv.stop.lock", "srv.push.lock", "srv.waitcb.lock"}),
			Delay: pick(t, "delay", []int{1, 50, 9000, 200000}),
		})
	}
	if rapid.IntRange(0, 3).Draw(t, "fault") == 0 {
		op := pick(t, "faultop", []string{"recv", "recv", "send"})
		f := sim.Fault{Op: op, At: rapid.IntRange(1, 6).Draw(t, "faultat"), Kind: "err"}
		if op == "recv" {
			f.Kind = pick(t, "faultkind", []string{"err", "data+eof", "data+err", "netclosed", "chanclosed", "wrapeof"})
		}
		sc.Cfg.Faults = append(sc.Cfg.Faults, f)
	}
	if rapid.IntRange(0, 5).Draw(t, "closefails") == 0 {
		// the channel's Close does close it, and reports an error
		sc.Cfg.Faults = append(sc.Cfg.Faults, sim.Fault{Op: "close", At: 1, Kind: "err"})
	}
	st := &State{IDOf: map[int]string{}, window: map[string]bool{}}
	pushes := 0
	traffic := func(n int, burstP int) {
		for i := 0; i < n; i++ {
			var step sim.Step
			roll := rapid.IntRange(0, 99).Draw(t, "op")
			switch {
			case roll < 25 && len(st.Pending) > 0:
				j := rapid.IntRange(0, len(st.Pending)-1).Draw(t, "which")
				k := st.Pending[j]
				st.Pending = append(st.Pending[:j:j], st.Pending[j+1:]...)
				step = sim.Step{Op: "release", K: k, Out: pick(t, "outcome", []string{"ok", "err:-32000", "ctxerr"})}
			case roll < 33:
				pushes++
				step = sim.Step{Op: "push", Push: pick(t, "pushkind", []string{"notify", "callback"}), K: pushes, D: pick(t, "deadline", []int{0, 0, 5000, -1, -2})}
			case roll < 38 && len(st.LiveIDs) > 0:
				step = sim.Step{Op: "cancel", ID: pick(t, "cancelid", st.LiveIDs)}
			case roll < 46 && sc.Cfg.AllowPush:
				// a handler (of a call or of a notification, whose context cannot end)
				// that pushes and then parks
				st.nextK++
				k := st.nextK
				st.Pending = append(st.Pending, k)
				m := pick(t, "hpush", []string{"cbgate", "cbgate", "notegate"})
				if rapid.Bool().Draw(t, "asnote") {
					st.IDOf[k] = ""
					step = sim.Step{Op: "send", Rec: engine.Bytes(fmt.Sprintf(`{"jsonrpc":"2.0","method":%q,"params":{"k":%d}}`, m, k))}
				} else {
					st.nextID++
					id := fmt.Sprint(st.nextID)
					st.IDOf[k] = id
					st.LiveIDs = append(st.LiveIDs, id)
					step = sim.Step{Op: "send", Rec: engine.Bytes(fmt.Sprintf(`{"jsonrpc":"2.0","id":%s,"method":%q,"params":{"k":%d}}`, id, m, k))}
				}
			default:
				step = sim.Step{Op: "send", Rec: engine.Bytes(st.Record(t, p))}
			}
			step.Burst = rapid.IntRange(0, 99).Draw(t, "burst") < burstP
			sc.Steps = append(sc.Steps, step)
		}
	}
	traffic(rapid.IntRange(0, 8).Draw(t, "before"), 35)
	if rapid.IntRange(0, 9).Draw(t, "queuebuilder") < 4 {
		// a parked notification in front, so that later records pile up in the queue
		st.nextK++
		k := st.nextK
		st.Pending = append(st.Pending, k)
		sc.Steps = append(sc.Steps, sim.Step{Op: "send", Rec: engine.Bytes(fmt.Sprintf(`{"jsonrpc":"2.0","method":"gate","params":{"k":%d}}`, k))})
		q := p
		q.PGate, q.PInvalid = 30, 30
		n := rapid.IntRange(1, 4).Draw(t, "queued")
		for i := 0; i < n; i++ {
			sc.Steps = append(sc.Steps, sim.Step{Op: "send", Rec: engine.Bytes(st.Record(t, q)), Burst: rapid.Bool().Draw(t, "qburst")})
		}
	}
	// the stop causes
	ncauses := rapid.IntRange(1, 2).Draw(t, "ncauses")
	for i := 0; i < ncauses; i++ {
		op := pick(t, "cause", []string{"stop", "stop", "peerclose"})
		sc.Steps = append(sc.Steps, sim.Step{Op: op, Burst: rapid.IntRange(0, 99).Draw(t, "cburst") < 45})
		if i+1 < ncauses {
			traffic(rapid.IntRange(0, 2).Draw(t, "between"), 50)
		}
	}
	// records (valid, invalid, reply-shaped) and pushes after the stop
	traffic(rapid.IntRange(0, 5).Draw(t, "after"), 30)
	if rapid.Bool().Draw(t, "wait") {
		sc.Steps = append(sc.Steps, sim.Step{Op: "waitstatus"})
	}
	if pool != nil || rapid.IntRange(0, 2).Draw(t, "restart") != 0 {
		// release everything so that WaitStatus can return, then restart
		for _, k := range st.Pending {
			sc.Steps = append(sc.Steps, sim.Step{Op: "release", K: k, Out: "ok"})
		}
		st.Pending = nil
		sc.Steps = append(sc.Steps, sim.Step{Op: "peerclose"}, sim.Step{Op: "waitstatus"}, sim.Step{Op: "restart"},
			sim.Step{Op: "send", Rec: engine.Bytes(fmt.Sprintf(`{"jsonrpc":"2.0","id":"probe","method":"ret","params":{"k":%d}}`, 800000))})
		if pool != nil {
			traffic(rapid.IntRange(2, 8).Draw(t, "second"), 20)
		} else if rapid.Bool().Draw(t, "more") {
			traffic(rapid.IntRange(0, 3).Draw(t, "second"), 20)
		}
	}
	if len(sc.Steps) > 0 {
		sc.Steps[len(sc.Steps)-1].Burst = false
	}
	return sc
}
