package refrpc

import (
	"fmt"
	"math/big"
	"strconv"

	"verif/harness/ref/refjson"
)

// Response is one decoded JSON-RPC 2.0 response object.
type Response struct {
	ID      string // id text as written
	IsError bool
	Result  []byte
	Code    int
	Message string
	Data    []byte
}

// ParseResponse validates raw as a JSON-RPC 2.0 response object per the
// specification: version "2.0", an id, and exactly one of result or an error
// object with an integer code and a string message.
func ParseResponse(raw []byte) (Response, error) {
	var r Response
	ms, ok := refjson.Members(raw)
	if !ok {
		return r, fmt.Errorf("not a JSON object: %.80q", raw)
	}
	seen := map[string]bool{}
	var hasResult, hasError bool
	for _, kv := range ms {
		if seen[kv.Key] {
			return r, fmt.Errorf("duplicate member %q", kv.Key)
		}
		seen[kv.Key] = true
		switch kv.Key {
		case "jsonrpc":
			if kindOf(kv.Value) != 's' {
				return r, fmt.Errorf("jsonrpc is not a string")
			}
			if s, _ := refjson.DecodeString(kv.Value); s != "2.0" {
				return r, fmt.Errorf("jsonrpc is %q", s)
			}
		case "id":
			if k := kindOf(kv.Value); k != 's' && k != 'n' && k != 'z' {
				return r, fmt.Errorf("id %s is not a string, number or null", kv.Value)
			}
			r.ID = string(kv.Value)
		case "result":
			hasResult = true
			r.Result = kv.Value
		case "error":
			hasError = true
			r.IsError = true
			es, ok := refjson.Members(kv.Value)
			if !ok {
				return r, fmt.Errorf("error is not an object: %.60q", kv.Value)
			}
			var haveCode, haveMsg bool
			for _, e := range es {
				switch e.Key {
				case "code":
					haveCode = true
					if kindOf(e.Value) != 'n' {
						return r, fmt.Errorf("error code %s is not a number", e.Value)
					}
					n, err := strconv.Atoi(string(e.Value))
					if err != nil {
						q, ok := new(big.Rat).SetString(string(e.Value))
						if !ok || !q.IsInt() || !q.Num().IsInt64() {
							return r, fmt.Errorf("error code %s is not an integer", e.Value)
						}
						n = int(q.Num().Int64())
					}
					r.Code = n
				case "message":
					haveMsg = true
					if kindOf(e.Value) != 's' {
						return r, fmt.Errorf("error message %.40q is not a string", e.Value)
					}
					r.Message, _ = refjson.DecodeString(e.Value)
				case "data":
					r.Data = e.Value
				default:
					return r, fmt.Errorf("unexpected member %q in error object", e.Key)
				}
			}
			if !haveCode || !haveMsg {
				return r, fmt.Errorf("error object lacks code or message: %.80q", kv.Value)
			}
		default:
			return r, fmt.Errorf("unexpected member %q in response", kv.Key)
		}
	}
	if !seen["jsonrpc"] {
		return r, fmt.Errorf("jsonrpc member missing")
	}
	if !seen["id"] {
		return r, fmt.Errorf("id member missing")
	}
	if hasResult == hasError {
		return r, fmt.Errorf("response must have exactly one of result and error (result=%v error=%v)", hasResult, hasError)
	}
	return r, nil
}

// SplitReply splits one outbound record into its response objects and says
// whether it was an array.
func SplitReply(rec []byte) (items [][]byte, isArray bool, err error) {
	if !refjson.Valid(rec) {
		return nil, false, fmt.Errorf("not valid JSON: %.80q", rec)
	}
	p := refjson.SkipSpace(rec, 0)
	if rec[p] == '[' {
		es, _ := refjson.Elements(rec)
		if len(es) == 0 {
			return nil, true, fmt.Errorf("empty array sent")
		}
		return es, true, nil
	}
	e, _ := refjson.Scan(rec, p)
	return [][]byte{rec[p:e]}, false, nil
}
