// Package refrpc is an independent classifier of inbound JSON-RPC 2.0 records,
// written from the JSON-RPC 2.0 specification, jrpc2's README and the
// statement of property C02 (DESIGN.md appendix A). It does not use jrpc2's
// parser. For one record it says, per member, which outcomes are admissible.
package refrpc

import (
	"math/big"
	"strings"

	"verif/harness/ref/refjson"
)

// Config is the part of the server's state the classification depends on.
type Config struct {
	AllowPush bool
	Builtin   bool                     // rpc.* built-ins enabled
	Resolve   func(method string) bool // does the assigner map this name to a handler?
	InFlight  func(idText string) bool // is a call with this id text currently in flight?
	Callback  func(idText string) bool // is a server callback with this id outstanding?
	// MaybeCallback: a server callback with this id may be outstanding (the
	// caller does not know exactly when): a member that is not request-shaped
	// and bears such an id is consumed as its reply or answered - either way.
	MaybeCallback func(idText string) bool
}

// Class of a member.
type Class int

const (
	NonObject    Class = iota // not a JSON object
	Invalid                   // structurally invalid object
	Call                      // valid request with an id
	Notification              // valid request without id (or id null)
	ReplyShaped               // valid, no method, has result or error
	Neither                   // valid, neither method nor result/error
)

func (c Class) String() string {
	return [...]string{"nonobject", "invalid", "call", "notification", "reply-shaped", "neither"}[c]
}

// Reply expectation for a member.
type Reply int

const (
	NoReply      Reply = iota // the member must not be answered
	ErrorReply                // an error object with Echo as id and a code from Codes
	HandlerReply              // the result or error of exactly one handler invocation, with the call's id
	InfoReply                 // the rpc.serverInfo result
	AnyReply                  // the property is silent (answered with an error or dropped)
)

// Member is the expectation for one member of a record.
type Member struct {
	Raw      []byte
	Class    Class
	Defects  []string
	Reply    Reply
	Echo     string // expected id of the reply: the id text, or "null"
	Codes    []int  // admissible error codes for ErrorReply
	Handler  bool   // a handler must run exactly once (false: none may run)
	Consumed bool   // the member is a reply consumed by an outstanding callback
	// IDUncertain: the member has several "id" keys, so the id a parser sees is unspecified.
	IDUncertain bool
	DontCare    string // non-empty: which don't-care class applies (Reply == AnyReply, or relaxed checks)

	Method string
	IDText string // "" when absent or null
	Params []byte
	HasID  bool
}

// Record is the expectation for one inbound record.
type Record struct {
	Top     string // "parse-error", "empty-batch", "members"
	Batch   bool
	Members []Member
}

var invalidCodes = []int{-32700, -32600}

// kind of a JSON value text
func kindOf(v []byte) byte {
	switch v[0] {
	case '{':
		return 'o'
	case '[':
		return 'a'
	case '"':
		return 's'
	case 't', 'f':
		return 'b'
	case 'n':
		return 'z'
	}
	return 'n'
}

// Classify classifies one record.
func Classify(cfg Config, rec []byte) Record {
	if !refjson.Valid(rec) {
		return Record{Top: "parse-error"}
	}
	p := refjson.SkipSpace(rec, 0)
	var raws [][]byte
	batch := false
	if rec[p] == '[' {
		batch = true
		raws, _ = refjson.Elements(rec)
		if len(raws) == 0 {
			return Record{Top: "empty-batch", Batch: true}
		}
	} else {
		e, _ := refjson.Scan(rec, p)
		raws = [][]byte{rec[p:e]}
	}
	out := Record{Top: "members", Batch: batch}
	for _, raw := range raws {
		out.Members = append(out.Members, classifyMember(cfg, raw))
	}
	// Duplicate ids inside one record: both fail.
	seen := map[string][]int{}
	for i, m := range out.Members {
		if m.IDText != "" {
			seen[m.IDText] = append(seen[m.IDText], i)
		}
	}
	for _, idx := range seen {
		if len(idx) < 2 {
			continue
		}
		// An id shared between a request and a member that is not a request (a
		// reply-shaped one is consumed or discarded before requests are looked at
		// on a push-enabled server, and answered like a request otherwise): the
		// property only speaks about two *requests* with one id.
		mixed := false
		for _, i := range idx {
			if c := out.Members[i].Class; c == ReplyShaped || c == Neither || out.Members[i].IDUncertain || out.Members[i].DontCare != "" {
				// (a member the reference cannot classify for certain - duplicate keys,
				// exotic strings - may or may not count as a request with this id)
				mixed = true
			}
		}
		if mixed {
			for _, i := range idx {
				m := &out.Members[i]
				if m.DontCare == "" {
					m.DontCare = "id shared with a member that is not a request"
				}
				m.Reply, m.Handler = AnyReply, false
			}
			continue
		}
		for _, i := range idx {
			m := &out.Members[i]
			if m.Class == ReplyShaped || m.Class == Neither || m.Reply == AnyReply {
				if m.DontCare == "" {
					m.DontCare = "duplicate id on a non-request member"
				}
				m.Reply = AnyReply
				m.Handler = false
				continue
			}
			m.Defects = append(m.Defects, "id duplicated within the record")
			m.Reply, m.Codes, m.Handler = ErrorReply, []int{-32600, -32700}, false
			if m.Class == Call || m.Class == Notification {
				m.Codes = []int{-32600}
			}
			m.Class = Invalid
		}
	}
	// Ids that are JSON-equal but textually different used side by side: silent.
	for i := range out.Members {
		for j := i + 1; j < len(out.Members); j++ {
			a, b := out.Members[i], out.Members[j]
			if a.IDText != "" && b.IDText != "" && a.IDText != b.IDText && IDEqual(a.IDText, b.IDText) {
				out.Members[i].DontCare, out.Members[j].DontCare = "ids equal in value but not in text", "ids equal in value but not in text"
				out.Members[i].Reply, out.Members[j].Reply = AnyReply, AnyReply
			}
		}
	}
	return out
}

func classifyMember(cfg Config, raw []byte) Member {
	m := Member{Raw: raw, Echo: "null"}
	if kindOf(raw) != 'o' {
		m.Class, m.Reply, m.Codes = NonObject, ErrorReply, invalidCodes
		m.Defects = []string{"not an object"}
		return m
	}
	ms, _ := refjson.Members(raw)
	var hasVersion, hasMethod, hasResult, hasError, errorNonNull bool
	keys := map[string]bool{}
	for _, kv := range ms {
		if kv.Exotic {
			m.DontCare = "key with invalid UTF-8 or a lone surrogate"
		}
		if keys[kv.Key] {
			m.DontCare = "duplicate keys in one object"
		}
		keys[kv.Key] = true
		v := kv.Value
		switch kv.Key {
		case "jsonrpc":
			hasVersion = true
			if kindOf(v) != 's' {
				m.Defects = append(m.Defects, "version is not a string")
			} else if s, ex := refjson.DecodeString(v); s != "2.0" {
				m.Defects = append(m.Defects, "version is not 2.0")
				if ex {
					m.DontCare = "exotic string"
				}
			}
		case "id":
			if keys["\x00id-seen"] {
				// two "id" keys: which one a parser keeps is not specified, so neither
				// this member's id nor its clash with another member's is decidable
				m.IDUncertain = true
			}
			keys["\x00id-seen"] = true
			switch kindOf(v) {
			case 's', 'n':
				m.HasID, m.IDText, m.Echo = true, string(v), string(v)
				if kindOf(v) == 's' {
					if _, ex := refjson.DecodeString(v); ex {
						m.DontCare = "id string with invalid UTF-8"
					}
				}
			case 'z':
			default:
				m.Defects = append(m.Defects, "id is not a string, number or null")
			}
		case "method":
			switch kindOf(v) {
			case 's':
				hasMethod = true
				var ex bool
				m.Method, ex = refjson.DecodeString(v)
				if ex {
					m.DontCare = "method name with invalid UTF-8"
				}
			case 'z':
			default:
				m.Defects = append(m.Defects, "method is not a string")
			}
		case "params":
			switch kindOf(v) {
			case 'a', 'o':
				m.Params = v
			case 'z':
			default:
				m.Defects = append(m.Defects, "params is not structured")
			}
		case "result":
			hasResult = true
		case "error":
			hasError = true
			if kindOf(v) != 'z' {
				errorNonNull = true
				ok, silent := validErrorObject(v)
				if silent != "" {
					m.DontCare = silent
				} else if !ok {
					m.Defects = append(m.Defects, "malformed error object")
				}
			}
		default:
			m.Defects = append(m.Defects, "unknown field "+kv.Key)
		}
	}
	_ = hasError
	if !hasVersion {
		m.Defects = append(m.Defects, "version missing")
	}
	replyFields := hasResult || errorNonNull
	if hasMethod && m.Method != "" && replyFields {
		m.Defects = append(m.Defects, "mixed request and reply fields")
	}
	isRequest := m.Method != "" && !replyFields

	if len(m.Defects) != 0 && cfg.AllowPush && cfg.MaybeCallback != nil && m.HasID && cfg.MaybeCallback(m.IDText) && !isRequest && !(m.Method != "" && !hasResult && !errorNonNull) {
		// a defective member that is not request-shaped: consumed as the reply
		// to that callback while it is outstanding, answered with an error otherwise
		m.DontCare = "may be taken for the reply to a server callback with this id"
	}
	if len(m.Defects) != 0 {
		m.Class, m.Reply, m.Codes = Invalid, ErrorReply, invalidCodes
		if cfg.AllowPush && m.Method == "" && replyFields {
			// A reply-shaped member that is also otherwise invalid: dropped or answered.
			m.Reply, m.DontCare = AnyReply, "reply-shaped member with other defects on a push-enabled server"
		}
		if m.DontCare != "" {
			m.Reply = AnyReply
		}
		return m
	}
	if m.DontCare != "" {
		m.Class, m.Reply = Invalid, AnyReply
		if isRequest {
			m.Class = Call
			if !m.HasID {
				m.Class = Notification
			}
		}
		return m
	}
	if !isRequest {
		m.Class = Neither
		if replyFields {
			m.Class = ReplyShaped
		}
		switch {
		case !cfg.AllowPush:
			m.Reply, m.Codes = ErrorReply, []int{-32600}
		case m.Class == Neither && m.HasID && ((cfg.Callback != nil && cfg.Callback(m.IDText)) || (cfg.MaybeCallback != nil && cfg.MaybeCallback(m.IDText))):
			// it bears the id of an outstanding callback: taken for that callback's (empty) reply, or answered
			m.Reply, m.DontCare = AnyReply, "member with neither method nor result/error that bears a callback id"
		case m.Class == Neither:
			// not reply-shaped: an invalid member like on any other server
			m.Reply, m.Codes = ErrorReply, []int{-32600}
		case m.HasID && cfg.Callback != nil && cfg.Callback(m.IDText):
			m.Reply, m.Consumed = NoReply, true
		default:
			m.Reply = NoReply // late, duplicate or unsolicited reply: discarded
		}
		return m
	}
	if !m.HasID {
		m.Class, m.Reply = Notification, NoReply
		m.Handler = resolves(cfg, m.Method)
		return m
	}
	m.Class = Call
	switch {
	case cfg.InFlight != nil && cfg.InFlight(m.IDText):
		m.Reply, m.Codes = ErrorReply, []int{-32600}
		m.Defects = []string{"id in flight"}
	case cfg.Builtin && strings.HasPrefix(m.Method, "rpc."):
		if m.Method == "rpc.serverInfo" {
			m.Reply = InfoReply
		} else {
			m.Reply, m.Codes = ErrorReply, []int{-32601}
		}
	case resolves(cfg, m.Method):
		m.Reply, m.Handler = HandlerReply, true
	default:
		m.Reply, m.Codes = ErrorReply, []int{-32601}
	}
	return m
}

func resolves(cfg Config, method string) bool {
	if cfg.Builtin && strings.HasPrefix(method, "rpc.") {
		return false // withheld from the assigner; rpc.serverInfo is handled by the caller
	}
	return cfg.Resolve != nil && cfg.Resolve(method)
}

// validErrorObject reports whether v is an object with an integer code and a
// string message (data optional). silent names a don't-care class instead.
func validErrorObject(v []byte) (ok bool, silent string) {
	if kindOf(v) != 'o' {
		return false, ""
	}
	ms, _ := refjson.Members(v)
	var haveCode, haveMsg bool
	seen := map[string]bool{}
	for _, kv := range ms {
		if seen[strings.ToLower(kv.Key)] {
			return false, "duplicate keys in one object"
		}
		seen[strings.ToLower(kv.Key)] = true
		switch kv.Key {
		case "code":
			haveCode = true
			if kindOf(kv.Value) == 'z' {
				return false, "error object with a null member"
			}
			if kindOf(kv.Value) != 'n' {
				return false, ""
			}
			r, okr := new(big.Rat).SetString(string(kv.Value))
			if len(kv.Value) > 40 || !okr {
				return false, "error code of unusual size"
			}
			if !r.IsInt() {
				return false, ""
			}
			if r.Num().BitLen() > 31 {
				return false, "error code outside int32"
			}
			if strings.ContainsAny(string(kv.Value), ".eE") {
				return false, "integer error code written with fraction or exponent"
			}
		case "message":
			haveMsg = true
			if kindOf(kv.Value) == 'z' {
				return false, "error object with a null member"
			}
			if kindOf(kv.Value) != 's' {
				return false, ""
			}
		case "data":
		default:
			if l := strings.ToLower(kv.Key); l == "code" || l == "message" || l == "data" {
				return false, "error object keys differing from code/message/data only by case"
			}
			// unknown members of an error object: the spec does not forbid them
			return false, "error object with additional members"
		}
	}
	if !haveCode || !haveMsg {
		return false, "error object lacking code or message"
	}
	return true, ""
}

// IDEqual reports whether two id texts denote the same JSON value.
func IDEqual(a, b string) bool {
	if a == b {
		return true
	}
	if a == "" || b == "" {
		return false
	}
	ka, kb := kindOf([]byte(a)), kindOf([]byte(b))
	if ka != kb {
		return false
	}
	switch ka {
	case 's':
		sa, _ := refjson.DecodeString([]byte(a))
		sb, _ := refjson.DecodeString([]byte(b))
		return sa == sb
	case 'n':
		return NumEqual(a, b)
	}
	return false
}

// NumEqual compares two JSON number texts as exact decimal values.
func NumEqual(a, b string) bool {
	if a == b {
		return true
	}
	if len(a) > 64 || len(b) > 64 || bigExp(a) || bigExp(b) {
		return false
	}
	ra, ok1 := new(big.Rat).SetString(a)
	rb, ok2 := new(big.Rat).SetString(b)
	return ok1 && ok2 && ra.Cmp(rb) == 0
}

func bigExp(s string) bool {
	i := strings.IndexAny(s, "eE")
	if i < 0 {
		return false
	}
	e := strings.TrimLeft(s[i+1:], "+-0")
	return len(e) > 3
}
