// Package refframe holds reference decoders for the channel package's stream
// framings, written from the package documentation (DESIGN.md appendix B),
// not from its code. For a whole byte stream they say what each successive
// Recv call must yield.
package refframe

import (
	"bytes"
	"strings"

	"verif/harness/ref/refjson"
)

// Kind of expectation for one Recv call.
type Kind int

const (
	Exact      Kind = iota // exactly Rec and a nil error
	RecWithErr             // exactly Rec together with a non-nil error (documented content-type case)
	ErrReq                 // a non-nil error; any data returned with it must be the complete Rec
	DontCare               // the property is silent; only the universal invariants apply from here on
	ExactOrErr             // a field name is malformed (a bare CR in it): the field is ignored - then exactly Rec - or the frame is refused with an error; never read as a known field
)

func (k Kind) String() string {
	return [...]string{"exact", "record+error", "error-required", "dont-care", "exact-or-error"}[k]
}

// Step is the expectation for one Recv call.
type Step struct {
	Kind  Kind
	Rec   []byte
	Final bool   // the stream is exhausted: every later call must fail as well
	Why   string // the rule that applies
}

// Framing identifies a framing and its parameter.
type Framing struct {
	Name  string // "split", "strict", "header", "rawjson"
	Split byte   // for split
	Mime  string // for strict / header
}

func (f Framing) String() string {
	switch f.Name {
	case "split":
		return "split(" + string([]byte{f.Split}) + ")"
	case "rawjson":
		return "rawjson"
	}
	return f.Name + "(" + f.Mime + ")"
}

// Expect returns the expectations for successive Recv calls on stream, ending
// with a Final step or a DontCare step.
func Expect(f Framing, stream []byte) []Step {
	switch f.Name {
	case "split":
		return expectSplit(f.Split, stream)
	case "strict", "header":
		return expectHeader(f.Mime, f.Name == "strict", stream)
	case "rawjson":
		return expectRawJSON(stream)
	}
	panic("unknown framing " + f.Name)
}

func expectSplit(sep byte, s []byte) []Step {
	var out []Step
	for {
		i := bytes.IndexByte(s, sep)
		if i < 0 {
			break
		}
		out = append(out, Step{Kind: Exact, Rec: s[:i], Why: "record before terminator"})
		s = s[i+1:]
	}
	if len(s) == 0 {
		return append(out, Step{Kind: ErrReq, Final: true, Why: "end of stream"})
	}
	return append(out, Step{Kind: ErrReq, Rec: s, Final: true, Why: "unterminated final record"})
}

func isDigits(s string) bool {
	if s == "" {
		return false
	}
	for i := 0; i < len(s); i++ {
		if s[i] < '0' || s[i] > '9' {
			return false
		}
	}
	return true
}

func expectHeader(mime string, strict bool, s []byte) []Step {
	var out []Step
	for {
		if len(s) == 0 {
			return append(out, Step{Kind: ErrReq, Final: true, Why: "end of stream"})
		}
		var clen, ctype string
		var haveLen, haveType bool
		odd := ""
		lenient := false
		for {
			i := bytes.IndexByte(s, '\n')
			if i < 0 {
				// The header is cut off by the end of the stream.
				if len(s) != 0 && strings.Trim(string(s), "\r") == "" {
					return append(out, Step{Kind: DontCare, Why: "stream ends inside the CRLF of the blank line"})
				}
				return append(out, Step{Kind: ErrReq, Final: true, Why: "truncated header"})
			}
			line := string(s[:i])
			s = s[i+1:]
			line = strings.TrimSuffix(line, "\r")
			if strings.ContainsAny(line, "\r") {
				if nm, _, ok := strings.Cut(line, ":"); ok && strings.Contains(nm, "\r") && !strings.Contains(line[len(nm):], "\r") &&
					!strings.EqualFold(nm, "content-length") && !strings.EqualFold(nm, "content-type") && nm == strings.TrimSpace(nm) {
					lenient = true // an unknown, malformed field name: ignored, or the frame refused
				} else {
					odd = "bare CR in header"
				}
			}
			if line == "" {
				break
			}
			name, value, ok := strings.Cut(line, ":")
			if !ok {
				if odd != "" {
					return append(out, Step{Kind: DontCare, Why: odd})
				}
				return append(out, Step{Kind: ErrReq, Why: "header line without colon"}, Step{Kind: DontCare, Why: "after a framing error"})
			}
			if name != strings.TrimSpace(name) {
				odd = "blanks around a field name"
			}
			value = strings.Trim(value, " \t")
			if value != strings.TrimSpace(value) {
				odd = "exotic white space around a field value"
			}
			switch strings.ToLower(strings.TrimSpace(name)) {
			case "content-length":
				if haveLen {
					odd = "repeated field"
				}
				haveLen, clen = true, value
			case "content-type":
				if haveType {
					odd = "repeated field"
				}
				haveType, ctype = true, value
			}
		}
		if odd != "" {
			return append(out, Step{Kind: DontCare, Why: odd})
		}
		if !haveLen {
			return append(out, Step{Kind: ErrReq, Why: "no Content-Length"}, Step{Kind: DontCare, Why: "after a framing error"})
		}
		n := -1
		switch {
		case isDigits(clen):
			if len(clen) > 1 && clen[0] == '0' {
				return append(out, Step{Kind: DontCare, Why: "Content-Length with leading zeros"})
			}
			if len(clen) <= 18 {
				n = 0
				for i := 0; i < len(clen); i++ {
					n = n*10 + int(clen[i]-'0')
				}
			} else if len(clen) == 19 && clen <= "9223372036854775807" {
				n = 1 << 62 // representable, but it exceeds any stream we build
			} else {
				return append(out, Step{Kind: ErrReq, Why: "Content-Length not representable"}, Step{Kind: DontCare, Why: "after a framing error"})
			}
		case len(clen) > 1 && clen[0] == '+' && isDigits(clen[1:]):
			return append(out, Step{Kind: DontCare, Why: "signed Content-Length"})
		case len(clen) > 1 && clen[0] == '-' && isDigits(clen[1:]) && strings.Trim(clen[1:], "0") == "":
			return append(out, Step{Kind: DontCare, Why: "signed Content-Length"})
		default:
			return append(out, Step{Kind: ErrReq, Why: "Content-Length not a non-negative decimal"}, Step{Kind: DontCare, Why: "after a framing error"})
		}
		if n > len(s) {
			return append(out, Step{Kind: ErrReq, Final: true, Why: "body shorter than Content-Length"})
		}
		rec := s[:n]
		s = s[n:]
		mismatch := ctype != mime
		if !strict && ctype == "" {
			mismatch = false
		}
		switch {
		case lenient && mismatch:
			return append(out, Step{Kind: DontCare, Why: "malformed field name next to a content type mismatch"})
		case lenient:
			out = append(out, Step{Kind: ExactOrErr, Rec: rec, Why: "framed record; a field name with a bare CR in it is ignored or refused"})
		case mismatch:
			out = append(out, Step{Kind: RecWithErr, Rec: rec, Why: "content type mismatch"})
		default:
			out = append(out, Step{Kind: Exact, Rec: rec, Why: "framed record"})
		}
	}
}

func expectRawJSON(s []byte) []Step {
	var out []Step
	p := 0
	for {
		p = refjson.SkipSpace(s, p)
		if p >= len(s) {
			return append(out, Step{Kind: ErrReq, Final: true, Why: "end of stream"})
		}
		q, st := refjson.Scan(s, p)
		if st != refjson.Complete {
			// Malformed or truncated: this and every later call fails.
			return append(out, Step{Kind: ErrReq, Final: true, Why: "malformed or truncated JSON"})
		}
		rec := s[p:q]
		if string(rec) == "null" {
			rec = nil
		}
		out = append(out, Step{Kind: Exact, Rec: rec, Why: "next JSON value"})
		p = q
	}
}
