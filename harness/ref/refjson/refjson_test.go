package refjson

import (
	"encoding/json"
	"testing"

	"pgregory.net/rapid"
)

// Self-test of the reference: agreement with encoding/json on validity and
// string decoding (this tests the reference, not the library under test).
func TestSelf(t *testing.T) {
	alpha := []byte(`{}[]":,-0123456789.eEtruefalsn é\\ /bAdD8`)
	alpha = append(alpha, '\n', '\t', 0x01, 0xff, 0xc3, 0xa9)
	rapid.Check(t, func(t *rapid.T) {
		n := rapid.IntRange(0, 14).Draw(t, "n")
		b := make([]byte, n)
		for i := range b {
			b[i] = alpha[rapid.IntRange(0, len(alpha)-1).Draw(t, "c")]
		}
		if Valid(b) != json.Valid(b) {
			t.Fatalf("Valid(%q)=%v json.Valid=%v", b, Valid(b), json.Valid(b))
		}
		if Valid(b) && SkipSpace(b, 0) < len(b) && b[SkipSpace(b, 0)] == '"' {
			e, _ := Scan(b, SkipSpace(b, 0))
			got, _ := DecodeString(b[SkipSpace(b, 0):e])
			var want string
			json.Unmarshal(b, &want)
			if got != want {
				t.Fatalf("DecodeString(%q)=%q want %q", b, got, want)
			}
		}
	})
}

func TestStrings(t *testing.T) {
	for _, s := range []string{`"a😀b"`, `"\ud83d"`, `"\ud83dx"`, `"\ud83dA"`, `"\ude00"`, `"é\n\"\\\/"`, "\"\xff\"", `"\ud83d😀"`} {
		got, _ := DecodeString([]byte(s))
		var want string
		if err := json.Unmarshal([]byte(s), &want); err != nil {
			t.Fatal(err)
		}
		if got != want {
			t.Errorf("DecodeString(%s)=%q want %q", s, got, want)
		}
	}
}
