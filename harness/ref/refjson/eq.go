package refjson

import (
	"bytes"
	"encoding/json"
	"math/big"
	"strings"
)

// Equal reports whether two JSON texts denote the same value: objects as
// unordered maps, numbers as exact decimal values.
func Equal(a, b []byte) bool {
	var x, y any
	da := json.NewDecoder(bytes.NewReader(a))
	da.UseNumber()
	db := json.NewDecoder(bytes.NewReader(b))
	db.UseNumber()
	if da.Decode(&x) != nil || db.Decode(&y) != nil {
		return len(bytes.TrimSpace(a)) == 0 && len(bytes.TrimSpace(b)) == 0
	}
	return deepEq(x, y)
}

func deepEq(x, y any) bool {
	switch a := x.(type) {
	case map[string]any:
		b, ok := y.(map[string]any)
		if !ok || len(a) != len(b) {
			return false
		}
		for k, v := range a {
			w, ok := b[k]
			if !ok || !deepEq(v, w) {
				return false
			}
		}
		return true
	case []any:
		b, ok := y.([]any)
		if !ok || len(a) != len(b) {
			return false
		}
		for i := range a {
			if !deepEq(a[i], b[i]) {
				return false
			}
		}
		return true
	case json.Number:
		b, ok := y.(json.Number)
		if !ok {
			return false
		}
		if a == b {
			return true
		}
		if len(a) > 400 || len(b) > 400 || bigExp(string(a)) || bigExp(string(b)) {
			return false
		}
		ra, ok1 := new(big.Rat).SetString(string(a))
		rb, ok2 := new(big.Rat).SetString(string(b))
		return ok1 && ok2 && ra.Cmp(rb) == 0
	default:
		return x == y
	}
}

func bigExp(s string) bool {
	i := strings.IndexAny(s, "eE")
	if i < 0 {
		return false
	}
	return len(strings.TrimLeft(s[i+1:], "+-0")) > 4
}
