// Package refjson is a small JSON scanner written from RFC 8259, independent of
// encoding/json. It is the reference the framing, parsing and wire-format
// oracles are built on.
package refjson

import (
	"unicode/utf16"
	"unicode/utf8"
)

// Status of a scan.
type Status int

const (
	Complete  Status = iota // a complete value ends at the returned offset
	Truncated               // the input ended inside a value (or before one began)
	Invalid                 // the bytes at the returned offset cannot continue a value
)

func isSpace(c byte) bool { return c == ' ' || c == '\t' || c == '\r' || c == '\n' }

// SkipSpace returns the offset of the first non-whitespace byte at or after pos.
func SkipSpace(b []byte, pos int) int {
	for pos < len(b) && isSpace(b[pos]) {
		pos++
	}
	return pos
}

// Scan scans one JSON value starting exactly at pos (no leading whitespace
// is skipped). It returns the offset just past the value when Complete, else
// the offset at which scanning stopped. A number is Complete at the end of
// its longest valid prefix; a number ending at the end of input is Complete.
func Scan(b []byte, pos int) (int, Status) {
	return scanValue(b, pos, 0)
}

const maxDepth = 10000 // encoding/json rejects deeper nesting

func scanValue(b []byte, pos, depth int) (int, Status) {
	if pos >= len(b) {
		return pos, Truncated
	}
	switch c := b[pos]; {
	case c == '{':
		return scanObject(b, pos, depth+1)
	case c == '[':
		return scanArray(b, pos, depth+1)
	case c == '"':
		return scanString(b, pos)
	case c == '-' || (c >= '0' && c <= '9'):
		return scanNumber(b, pos)
	case c == 't':
		return scanLit(b, pos, "true")
	case c == 'f':
		return scanLit(b, pos, "false")
	case c == 'n':
		return scanLit(b, pos, "null")
	}
	return pos, Invalid
}

func scanLit(b []byte, pos int, lit string) (int, Status) {
	for i := 0; i < len(lit); i++ {
		if pos+i >= len(b) {
			return pos + i, Truncated
		}
		if b[pos+i] != lit[i] {
			return pos + i, Invalid
		}
	}
	return pos + len(lit), Complete
}

func digits(b []byte, pos int) int {
	for pos < len(b) && b[pos] >= '0' && b[pos] <= '9' {
		pos++
	}
	return pos
}

func scanNumber(b []byte, pos int) (int, Status) {
	p := pos
	if b[p] == '-' {
		p++
		if p >= len(b) {
			return p, Truncated
		}
	}
	switch {
	case b[p] == '0':
		p++
	case b[p] >= '1' && b[p] <= '9':
		p = digits(b, p)
	default:
		return p, Invalid
	}
	if p < len(b) && b[p] == '.' {
		q := digits(b, p+1)
		if q == p+1 {
			if q >= len(b) {
				return q, Truncated
			}
			return q, Invalid
		}
		p = q
	}
	if p < len(b) && (b[p] == 'e' || b[p] == 'E') {
		q := p + 1
		if q < len(b) && (b[q] == '+' || b[q] == '-') {
			q++
		}
		r := digits(b, q)
		if r == q {
			if r >= len(b) {
				return r, Truncated
			}
			return r, Invalid
		}
		p = r
	}
	return p, Complete
}

func isHex(c byte) bool {
	return c >= '0' && c <= '9' || c >= 'a' && c <= 'f' || c >= 'A' && c <= 'F'
}

func scanString(b []byte, pos int) (int, Status) {
	p := pos + 1
	for {
		if p >= len(b) {
			return p, Truncated
		}
		c := b[p]
		switch {
		case c == '"':
			return p + 1, Complete
		case c < 0x20:
			return p, Invalid
		case c == '\\':
			p++
			if p >= len(b) {
				return p, Truncated
			}
			switch b[p] {
			case '"', '\\', '/', 'b', 'f', 'n', 'r', 't':
				p++
			case 'u':
				p++
				for i := 0; i < 4; i++ {
					if p >= len(b) {
						return p, Truncated
					}
					if !isHex(b[p]) {
						return p, Invalid
					}
					p++
				}
			default:
				return p, Invalid
			}
		default:
			p++
		}
	}
}

func scanArray(b []byte, pos, depth int) (int, Status) {
	if depth > maxDepth {
		return pos, Invalid
	}
	p := SkipSpace(b, pos+1)
	if p >= len(b) {
		return p, Truncated
	}
	if b[p] == ']' {
		return p + 1, Complete
	}
	for {
		q, st := scanValue(b, p, depth)
		if st != Complete {
			return q, st
		}
		p = SkipSpace(b, q)
		if p >= len(b) {
			return p, Truncated
		}
		switch b[p] {
		case ',':
			p = SkipSpace(b, p+1)
		case ']':
			return p + 1, Complete
		default:
			return p, Invalid
		}
	}
}

func scanObject(b []byte, pos, depth int) (int, Status) {
	if depth > maxDepth {
		return pos, Invalid
	}
	p := SkipSpace(b, pos+1)
	if p >= len(b) {
		return p, Truncated
	}
	if b[p] == '}' {
		return p + 1, Complete
	}
	for {
		if p >= len(b) {
			return p, Truncated
		}
		if b[p] != '"' {
			return p, Invalid
		}
		q, st := scanString(b, p)
		if st != Complete {
			return q, st
		}
		p = SkipSpace(b, q)
		if p >= len(b) {
			return p, Truncated
		}
		if b[p] != ':' {
			return p, Invalid
		}
		p = SkipSpace(b, p+1)
		q, st = scanValue(b, p, depth)
		if st != Complete {
			return q, st
		}
		p = SkipSpace(b, q)
		if p >= len(b) {
			return p, Truncated
		}
		switch b[p] {
		case ',':
			p = SkipSpace(b, p+1)
		case '}':
			return p + 1, Complete
		default:
			return p, Invalid
		}
	}
}

// Valid reports whether b is exactly one JSON value with optional surrounding
// whitespace.
func Valid(b []byte) bool {
	p := SkipSpace(b, 0)
	q, st := Scan(b, p)
	if st != Complete {
		return false
	}
	return SkipSpace(b, q) == len(b)
}

// Member is one key/value pair of an object, as raw text.
type Member struct {
	Key    string // the decoded key
	Exotic bool   // the key contains invalid UTF-8 or a lone surrogate (decoded with U+FFFD)
	KeyRaw []byte // the key as written, including quotes
	Value  []byte
}

// Members splits a valid JSON object text into its members in order.
// It reports ok=false when b is not an object.
func Members(b []byte) (ms []Member, ok bool) {
	p := SkipSpace(b, 0)
	if p >= len(b) || b[p] != '{' {
		return nil, false
	}
	if end, st := Scan(b, p); st != Complete || SkipSpace(b, end) != len(b) {
		return nil, false
	}
	p = SkipSpace(b, p+1)
	if b[p] == '}' {
		return nil, true
	}
	for {
		q, _ := scanString(b, p)
		kraw := b[p:q]
		p = SkipSpace(b, q) + 1 // past ':'
		p = SkipSpace(b, p)
		q, _ = Scan(b, p)
		k, exotic := DecodeString(kraw)
		ms = append(ms, Member{Key: k, Exotic: exotic, KeyRaw: kraw, Value: b[p:q]})
		p = SkipSpace(b, q)
		if b[p] == '}' {
			return ms, true
		}
		p = SkipSpace(b, p+1)
	}
}

// Elements splits a valid JSON array text into its elements in order.
func Elements(b []byte) (es [][]byte, ok bool) {
	p := SkipSpace(b, 0)
	if p >= len(b) || b[p] != '[' {
		return nil, false
	}
	if end, st := Scan(b, p); st != Complete || SkipSpace(b, end) != len(b) {
		return nil, false
	}
	p = SkipSpace(b, p+1)
	if b[p] == ']' {
		return nil, true
	}
	for {
		q, _ := Scan(b, p)
		es = append(es, b[p:q])
		p = SkipSpace(b, q)
		if b[p] == ']' {
			return es, true
		}
		p = SkipSpace(b, p+1)
	}
}

func hexval(c byte) rune {
	switch {
	case c >= '0' && c <= '9':
		return rune(c - '0')
	case c >= 'a' && c <= 'f':
		return rune(c-'a') + 10
	}
	return rune(c-'A') + 10
}

// DecodeString decodes a valid JSON string text (with its quotes). Invalid
// UTF-8 and lone surrogates become U+FFFD and are reported as exotic.
func DecodeString(raw []byte) (s string, exotic bool) {
	var out []byte
	b := raw[1 : len(raw)-1]
	for i := 0; i < len(b); {
		c := b[i]
		if c == '\\' {
			i++
			switch b[i] {
			case '"', '\\', '/':
				out = append(out, b[i])
			case 'b':
				out = append(out, '\b')
			case 'f':
				out = append(out, '\f')
			case 'n':
				out = append(out, '\n')
			case 'r':
				out = append(out, '\r')
			case 't':
				out = append(out, '\t')
			case 'u':
				r := hexval(b[i+1])<<12 | hexval(b[i+2])<<8 | hexval(b[i+3])<<4 | hexval(b[i+4])
				i += 4
				if utf16.IsSurrogate(r) {
					var r2 rune = -1
					if i+6 < len(b) && b[i+1] == '\\' && b[i+2] == 'u' {
						r2 = hexval(b[i+3])<<12 | hexval(b[i+4])<<8 | hexval(b[i+5])<<4 | hexval(b[i+6])
					}
					if d := utf16.DecodeRune(r, r2); r2 >= 0 && d != utf8.RuneError {
						r = d
						i += 6
					} else {
						r = utf8.RuneError
						exotic = true
					}
				}
				out = utf8.AppendRune(out, r)
			}
			i++
			continue
		}
		if c < utf8.RuneSelf {
			out = append(out, c)
			i++
			continue
		}
		r, n := utf8.DecodeRune(b[i:])
		if r == utf8.RuneError && n == 1 {
			exotic = true
		}
		out = utf8.AppendRune(out, r)
		i += n
	}
	return string(out), exotic
}
