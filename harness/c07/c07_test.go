// Package c07 checks property C07: cancellation hits only its target; request
// ids are reserved exactly while a call carrying them is in flight.
package c07

import (
	"fmt"
	"testing"

	"pgregory.net/rapid"

	"verif/harness/engine"
	"verif/harness/gen"
	"verif/harness/oracle"
	"verif/harness/sim"
)

var profile = gen.Profile{
	MinSteps: 4, MaxSteps: 28, Limits: []int{32},
	IDPool: []string{"1", "2", `"1"`, "3", `"s"`},
	PNote:  0, PGate: 75, PInvalid: 5, PUnknown: 22, PBatch: 30, MaxBatch: 3,
	PCancel: 18, PBurst: 25, PObey: 35, Builtins: true, Pins: true,
	PSendFault: 20,             // the channel refuses a reply now and then: the id is free again all the same
	AllowPush:  true, PPush: 7, // outstanding server callbacks use ids 1, 2, 3 of their own
	Outcomes: []string{"ok", "ok", "endbase", "err:-32000", "ctxerr", "bad", "baderr", "badraw", "emptyraw"},
	OwnBase:  true, // "its base context ends": a handler that ends its own must not end a batch-mate's
	Chans:    []string{"direct", "pipe"},
}

func genCase(t *rapid.T) sim.Scenario { return gen.ServerScenario(t, profile) }

// withNotes: the same histories with parking notifications among them, so that
// records wait in the queue behind the barrier while ids are cancelled and reused.
func genNotes(t *rapid.T) sim.Scenario {
	p := profile
	p.PNote = 14
	p.PCancel = 24
	// No server callbacks here: on a push-enabled server a member without a
	// method that bears the id of an outstanding callback is consumed by it, a
	// record made of such members may thus never enter the queue, and the
	// sequential model (which has to know which record waits at the barrier)
	// cannot tell. Part scenarios keeps the callbacks; nothing waits there.
	p.AllowPush, p.PPush = false, 0
	return gen.ServerScenario(t, p)
}

func run(t *testing.T, sc sim.Scenario) engine.Verdict {
	return oracle.RunServer(t, sc, []string{"C07/"}, func(f oracle.Facts) bool {
		return f.IDReuse && (f.IDReuseInFlight || f.IDReuseAfterError || f.IDReuseAfterCancel)
	})
}

var parts = []engine.AnyPart{
	engine.Part[sim.Scenario]{Name: "scenarios", Run: run, Gen: genCase,
		Rule: "rapid-generated histories of calls whose ids come from the pool {1, 2, \"1\", 3, \"s\"} (constant reuse), to parking / immediate / failing handlers, unknown and reserved methods, duplicates inside one array, CancelRequest for in-flight, finished and never-seen ids, at every quiescent point the context of each parked invocation must be cancelled iff a CancelRequest named its id while it was in flight, the reserved-id snapshot must equal the model's in-flight set, duplicates of in-flight ids are answered -32600 without disturbing the first call, ids are accepted again after any reply; non-trivial = an id is reused while the first use is in flight, or after an error reply, or after a CancelRequest; distinct = hash of the scenario"},
}

func init() {
	parts = append(parts, engine.Part[sim.Scenario]{Name: "queued", Run: run, Gen: genNotes,
		Rule: "the histories of part scenarios with parking notifications among the members (one valid member in seven), so that later records wait in the inbound queue behind the notification barrier while CancelRequest names in-flight, finished and never-seen ids and ids are used again; same clauses (suppressed where the same scenario shows a C01 or C03 problem); non-trivial and distinct as in scenarios"})
}

// restart: reservations must not outlive the connection they were made on.
func genRestart(t *rapid.T) sim.Scenario {
	if rapid.IntRange(0, 3).Draw(t, "stale") == 0 {
		// a reply that is still on its way out (pin) when the connection ends and
		// the same Server already serves the next one, where its id is in use again
		sc := sim.Scenario{}
		sc.Cfg.Concurrency = pick(t, "limit", []int{2, 3, 32})
		sc.Cfg.Salt = rapid.Uint64().Draw(t, "salt")
		sc.Cfg.Chan = pick(t, "chan", []string{"direct", "pipe"})
		sc.Cfg.Pins = []sim.Pin{{Site: "srv.deliver.lock", Delay: pick(t, "hold", []int{200000, 100000, 9000})}}
		id := pick(t, "id", []string{"1", `"a"`, "7"})
		call := func(k int, burst bool) sim.Step {
			return sim.Step{Op: "send", Burst: burst, Rec: engine.Bytes(fmt.Sprintf(`{"jsonrpc":"2.0","id":%s,"method":"gate","params":{"k":%d}}`, id, k))}
		}
		sc.Steps = append(sc.Steps, call(1, false),
			sim.Step{Op: "release", K: 1, Out: pick(t, "out", []string{"ok", "err:-32000"}), Burst: true},
			sim.Step{Op: pick(t, "end", []string{"peerclose", "stop"}), Burst: true},
			sim.Step{Op: "restartnow", Burst: true},
			call(2, false),
			sim.Step{Op: "release", K: 2, Out: "ok"})
		return sc
	}
	return gen.ShutdownScenarioPool(t, []string{"1", "2", `"1"`, "3"})
}

func pick[T any](t *rapid.T, label string, xs []T) T { return rapid.SampledFrom(xs).Draw(t, label) }

func runRestart(t *testing.T, sc sim.Scenario) engine.Verdict {
	h := sim.Run(t, sc)
	if h.BubbleErr != "" {
		return engine.Verdict{Labels: []string{"other-clause:bubble-error"}} // judged by C08
	}
	for _, p := range oracle.ReservationAcrossRestart(sc, h) {
		return engine.Failf(p.Sig, "%s\nscript:\n%s\nhistory:\n%s", p.Msg, oracle.ScriptText(sc), oracle.HistoryText(h))
	}
	inflightAtStop, secondTraffic := false, 0
	stopSeen := false
	for _, e := range h.Events {
		switch {
		case e.Kind == "quiesce" && e.Snap != nil && !stopSeen:
			inflightAtStop = len(e.Snap.Reserved) > 0
		case e.Kind == "stop" || e.Kind == "peerclose" || e.Kind == "recvfault":
			stopSeen = true
		case e.Kind == "sending" && e.Conn > 1:
			secondTraffic++
		}
	}
	staleScript := len(sc.Cfg.Pins) == 1 && sc.Cfg.Pins[0].Site == "srv.deliver.lock"
	return engine.Verdict{NonTrivial: (inflightAtStop && secondTraffic > 1) || staleScript, Labels: []string{fmt.Sprintf("in-flight-at-stop:%v", inflightAtStop), fmt.Sprintf("records-on-second-connection:%d", min(secondTraffic, 6))}}
}

func init() {
	parts = append(parts, engine.Part[sim.Scenario]{Name: "restart", Run: runRestart, Gen: genRestart,
		Rule: "shutdown scripts (traffic, Stop / peer close / channel faults at any point, WaitStatus, Start of the same Server on a fresh channel, 2-8 more steps of traffic) with every request id drawn from the pool {1, 2, \"1\", 3}: on each connection an id in the reserved set at a quiescent point was sent on that connection, and a duplicate-id rejection names an id sent at least twice on that connection; in a quarter of the scripts a reply is still on its way out (pin) when the connection ends, the Server is started again within the same step and the id is used at once on the new connection: a call whose handler is running has its id reserved; non-trivial = calls were in flight at the last quiescent point before the stop and the second connection carried more than the probe, or the script is of the second kind; distinct = hash of the scenario"})
}

func TestProp(t *testing.T)   { engine.RunParts(t, "C07", parts) }
func TestReplay(t *testing.T) { engine.ReplayParts(t, "C07", parts) }
