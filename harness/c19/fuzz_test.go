package c19

import (
	"testing"

	"verif/harness/engine"
)

// FuzzQuery: coverage-guided search over raw paths and query strings with the
// documented-typing oracle.
func FuzzQuery(f *testing.F) {
	for _, w := range words {
		f.Add("/m", "v="+w)
	}
	f.Add("//a/b//", "x=1&x=2&y=%22s%22")
	f.Add("/", "a=1")
	f.Add("/m", "a=%zz")
	f.Add("/m", "a=1;b=2")
	part := engine.Part[Query]{Name: "fuzz", Run: runQuery}
	f.Fuzz(func(t *testing.T, path, query string) {
		if len(path)+len(query) > 4096 {
			return
		}
		engine.RunOne(t, "C19", part, Query{Path: path, Query: query})
	})
}
