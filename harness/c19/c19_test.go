// Package c19 checks property C19: HTTP Getter, query parsing and the HTTP
// client channel are total and faithful.
package c19

import (
	"context"
	"encoding/base64"
	"encoding/json"
	"errors"
	"fmt"
	"io"
	"math"
	"net/http"
	"net/http/httptest"
	"net/url"
	"regexp"
	"strconv"
	"strings"
	"sync"
	"testing"
	"testing/synctest"

	"github.com/creachadair/jrpc2"
	"github.com/creachadair/jrpc2/channel"
	"github.com/creachadair/jrpc2/handler"
	"github.com/creachadair/jrpc2/jhttp"
	"pgregory.net/rapid"

	"verif/harness/engine"
	"verif/harness/ref/refjson"
)

// ---- (a) query parsing ----------------------------------------------------------

// Query is one URL (path + raw query) and optionally a form body.
type Query struct {
	Path  string `json:"path"`
	Query string `json:"query"`
	Form  string `json:"form,omitempty"` // POST body, application/x-www-form-urlencoded
}

var decimalRe = regexp.MustCompile(`^[+-]?[0-9]+(\.[0-9]+)?$`)
var looseNumRe = regexp.MustCompile(`^[+-]?([0-9]+\.?|\.[0-9]+|[0-9]+\.[0-9]*)$`)

// refType: the documented typing of one query value. kind is one of
// string number bool null bytes error dontcare.
func refType(v string) (kind string, val any) {
	switch {
	case len(v) >= 2 && v[0] == '"' && v[len(v)-1] == '"':
		var s string
		if json.Unmarshal([]byte(v), &s) != nil {
			return "error", nil
		}
		return "string", s
	case v != "" && (v[0] == '"' || v[len(v)-1] == '"'):
		return "error", nil
	case decimalRe.MatchString(v):
		if !strings.Contains(v, ".") {
			if z, err := strconv.ParseInt(v, 10, 64); err == nil {
				return "number", float64(z)
			}
		}
		f, err := strconv.ParseFloat(v, 64)
		if err != nil || math.IsInf(f, 0) {
			return "dontcare", nil // beyond float64: a number cannot carry it
		}
		return "number", f
	case looseNumRe.MatchString(v):
		return "dontcare", nil // .5  5.  +.5
	case v == "true":
		return "bool", true
	case v == "false":
		return "bool", false
	case v == "null":
		return "null", nil
	case len(v) >= 2 && v[0] == '\'' && v[len(v)-1] == '\'':
		dec, err := base64.RawStdEncoding.DecodeString(strings.TrimRight(v[1:len(v)-1], "="))
		if err != nil {
			return "error", nil
		}
		return "bytes", dec
	case v != "" && (v[0] == '\'' || v[len(v)-1] == '\''):
		return "error", nil
	}
	return "string", v
}

func runQuery(_ *testing.T, q Query) (v engine.Verdict) {
	target := "http://h" + q.Path
	if q.Query != "" {
		target += "?" + q.Query
	}
	u, err := url.Parse(target)
	if err != nil {
		return engine.Verdict{Labels: []string{"skipped:url-does-not-parse"}}
	}
	mk := func() *http.Request {
		if q.Form != "" {
			r := httptest.NewRequest("POST", "/", strings.NewReader(q.Form))
			r.URL = u
			r.Header.Set("Content-Type", "application/x-www-form-urlencoded")
			return r
		}
		r := httptest.NewRequest("GET", "/", nil)
		r.URL = u
		return r
	}
	defer func() {
		if p := recover(); p != nil {
			v = engine.Failf("C19/query/panic", "parsing %+v panicked: %v", q, p)
		}
	}()
	wantMethod := strings.Trim(u.Path, "/")
	// expected form values: the standard library's own decoding of query and body
	form, ferr := url.ParseQuery(u.RawQuery)
	if q.Form != "" {
		body, berr := url.ParseQuery(q.Form)
		if berr != nil && ferr == nil {
			ferr = berr
		}
		for k, vs := range form {
			body[k] = append(body[k], vs...)
		}
		form = body
	}
	// ParseBasic
	bm, bp, berr := jhttp.ParseBasic(mk())
	if berr == nil {
		if bm == "" || bm != wantMethod {
			return engine.Failf("C19/query/method", "ParseBasic method %q, path %q trimmed is %q", bm, u.Path, wantMethod)
		}
		if _, err := json.Marshal(bp); err != nil {
			return engine.Failf("C19/query/params-not-marshalable", "ParseBasic params %v: %v", bp, err)
		}
		if m, ok := bp.(map[string]string); ok {
			for k, val := range m {
				if vs := form[k]; len(vs) == 0 || vs[0] != val {
					return engine.Failf("C19/query/basic-value", "ParseBasic %q=%q, the form has %q", k, val, vs)
				}
			}
		}
	} else if wantMethod != "" && ferr == nil {
		return engine.Failf("C19/query/unexpected-error", "ParseBasic(%+v) failed: %v", q, berr)
	}
	// ParseQuery
	m, p, err := jhttp.ParseQuery(mk())
	if err != nil {
		cause := wantMethod == "" || ferr != nil
		for _, vs := range form {
			if k, _ := refType(vs[0]); k == "error" {
				cause = true
			}
		}
		if !cause {
			return engine.Failf("C19/query/unexpected-error", "ParseQuery(%+v) failed with %v although the path is not empty, the encoding is well-formed and no value starts or ends with a quote", q, err)
		}
		return engine.Verdict{NonTrivial: true, Labels: []string{"error"}}
	}
	if m == "" || m != wantMethod {
		return engine.Failf("C19/query/method", "ParseQuery method %q, path %q trimmed is %q", m, u.Path, wantMethod)
	}
	raw, merr := json.Marshal(p)
	if merr != nil {
		return engine.Failf("C19/query/params-not-marshalable", "ParseQuery(%+v) params %#v cannot be marshalled: %v", q, p, merr)
	}
	nt := false
	var labels []string
	if p != nil {
		pm, ok := p.(map[string]any)
		if !ok {
			return engine.Failf("C19/query/params-type", "ParseQuery params have type %T", p)
		}
		for k, vs := range form {
			kind, want := refType(vs[0])
			got, present := pm[k]
			labels = append(labels, "kind:"+kind)
			if !present {
				return engine.Failf("C19/query/key-missing", "key %q missing from %s", k, raw)
			}
			isPlain := regexp.MustCompile(`^([A-Za-z_]+|[0-9]+)$`).MatchString(vs[0])
			if !isPlain {
				nt = true
			}
			switch kind {
			case "dontcare", "error":
				continue
			case "string":
				if s, ok := got.(string); !ok || s != want.(string) {
					return engine.Failf("C19/query/typing", "value %q of key %q must be the string %q, got %#v", vs[0], k, want, got)
				}
			case "number":
				var f float64
				switch n := got.(type) {
				case int64:
					f = float64(n)
					if strings.Contains(vs[0], ".") {
						return engine.Failf("C19/query/typing", "value %q has a fraction but became int64", vs[0])
					}
				case float64:
					f = n
				default:
					return engine.Failf("C19/query/typing", "value %q of key %q must be a number, got %#v", vs[0], k, got)
				}
				if f != want.(float64) {
					return engine.Failf("C19/query/typing", "value %q became %v", vs[0], got)
				}
			case "bool":
				if b, ok := got.(bool); !ok || b != want.(bool) {
					return engine.Failf("C19/query/typing", "value %q must be %v, got %#v", vs[0], want, got)
				}
			case "null":
				if got != nil {
					return engine.Failf("C19/query/typing", "value null must be nil, got %#v", got)
				}
			case "bytes":
				if b, ok := got.([]byte); !ok || string(b) != string(want.([]byte)) {
					return engine.Failf("C19/query/typing", "value %q must be the bytes %q, got %#v", vs[0], want, got)
				}
			}
		}
	}
	return engine.Verdict{NonTrivial: nt, Labels: labels}
}

var words = []string{"inf", "Inf", "INF", "-inf", "+Inf", "Infinity", "-Infinity", "nan", "NaN", "NAN", "true", "TRUE", "True", "false", "null", "NULL", "nil",
	"1e5", "1E5", "0x1p4", "0x10", "1_0", "1__0", "0b1", "0o7", "1e", "e1", ".5", "5.", "+.5", "-.", ".", "+", "-", "--1", "+-1", "1.2.3", "00", "-0", "+0", "007", "1e400", "1e-400",
	strings.Repeat("9", 19), strings.Repeat("9", 40), strings.Repeat("9", 310), strings.Repeat("9", 400) + ".5", "-" + strings.Repeat("1", 330), "9223372036854775807", "9223372036854775808", "-9223372036854775808", "-9223372036854775809",
	`"str"`, `"a\nb"`, `"é"`, `"unterminated`, `bad"`, `"`, `""`, `"\x"`, `"""`, `""""`, `"x"x"`, `"1"_"`, `"true"-1.5"`, `"a" "b"`, `"a"\n"`, `'aGVsbG8'`, `'aGVsbG8='`, `'aGVsbG8sIHdvcmxk'`, `''`, `'`, `'!!!'`, `'abc`, `abc'`, `'YQ=='`, `'YQ'`,
	// the standard alphabet (+ and /) is base64 here, the URL-safe one (- and _) is not
	`'+/+/'`, `'ab+/'`, `'/w=='`, `'-_-_'`, `'ab-_'`, `'_w=='`,
	"plain", "with space", "é", "a=b", "3.14159", "-16", "25", "+7", "1.0", "100.000"}

func genValue(t *rapid.T) string {
	if rapid.IntRange(0, 2).Draw(t, "word") != 0 {
		return rapid.SampledFrom(words).Draw(t, "w")
	}
	n := rapid.IntRange(0, 7).Draw(t, "vlen")
	var sb strings.Builder
	for i := 0; i < n; i++ {
		sb.WriteString(rapid.SampledFrom([]string{"0", "1", "9", ".", "+", "-", "e", "E", "x", "_", "p", "0", "1", "a", "n", "i", "f", "N", "t", " ", "=", "%", "&", "\\", ".", "5"}).Draw(t, "vc"))
	}
	return sb.String()
}

func genQuery(t *rapid.T) Query {
	q := Query{Path: rapid.SampledFrom([]string{"", "/", "//", "/m", "//m//", "/a/b", "/a/b/", "/é", "/%2F", "/a%20b", "/m/", "m", "/m", "/m", "/svc.m", "/svc.m", "/x/y/z", "/m", "/q", "/q/", "//q", "/m", "/M", "/m.n"}).Draw(t, "path")}
	n := rapid.IntRange(0, 4).Draw(t, "nkeys")
	enc := func(n int, label string) string {
		var parts []string
		for i := 0; i < n; i++ {
			k := rapid.SampledFrom([]string{"a", "b", "x", "k", "a", ""}).Draw(t, label+"k")
			v := genValue(t)
			switch rapid.IntRange(0, 29).Draw(t, label+"enc") {
			case 0:
				parts = append(parts, k+"="+v) // raw, possibly with broken escapes or separators
			case 1:
				parts = append(parts, url.QueryEscape(k)+"="+url.QueryEscape(v)+rapid.SampledFrom([]string{"%", "%zz", ";", "%2"}).Draw(t, label+"broken"))
			default:
				parts = append(parts, url.QueryEscape(k)+"="+url.QueryEscape(v))
			}
		}
		return strings.Join(parts, "&")
	}
	q.Query = enc(n, "q")
	if rapid.IntRange(0, 5).Draw(t, "form") == 0 {
		q.Form = enc(rapid.IntRange(1, 3).Draw(t, "nform"), "f")
	}
	return q
}

// every word as the single query value
func enumWords(env engine.Env, yield func(Query) bool) {
	i := 0
	for _, w := range words {
		for _, path := range []string{"/m", "//svc.m/"} {
			i++
			if env.Mine(i) && !yield(Query{Path: path, Query: "v=" + url.QueryEscape(w)}) {
				return
			}
		}
	}
}

// ---- (b) Getter ------------------------------------------------------------------

// Get is one HTTP request to a Getter.
type Get struct {
	Target string `json:"target"`
	Query  bool   `json:"query"` // use ParseQuery instead of ParseBasic
	// Verb: the HTTP method ("" = GET). AsForm: the query travels as an
	// urlencoded body instead (both parsers read http.Request.ParseForm, which
	// takes parameters from the body of POST, PUT and PATCH requests).
	Verb   string `json:"verb,omitempty"`
	AsForm bool   `json:"as_form,omitempty"`
}

func getterMux(echoed *string) handler.Map {
	return handler.Map{
		"ok": func(ctx context.Context, req *jrpc2.Request) (any, error) {
			return map[string]any{"fine": true, "n": 1.5}, nil
		},
		"echo": func(ctx context.Context, req *jrpc2.Request) (any, error) {
			if echoed != nil {
				*echoed = orNull(req.ParamString())
			}
			return json.RawMessage(orNull(req.ParamString())), nil
		},
		"fail": func(ctx context.Context, req *jrpc2.Request) (any, error) { return nil, errors.New("plain failure") },
		"coded": func(ctx context.Context, req *jrpc2.Request) (any, error) {
			return nil, jrpc2.Errorf(-32000, "coded failure").WithData([]int{1})
		},
		"bad":      func(ctx context.Context, req *jrpc2.Request) (any, error) { return make(chan int), nil },
		"a/b":      func(ctx context.Context, req *jrpc2.Request) (any, error) { return "nested", nil },
		"notfound": func(ctx context.Context, req *jrpc2.Request) (any, error) { return nil, jrpc2.MethodNotFound.Err() },
		// failures of the handler's own making that carry the context codes
		"ctxc": func(ctx context.Context, req *jrpc2.Request) (any, error) { return nil, context.Canceled },
		"ctxd": func(ctx context.Context, req *jrpc2.Request) (any, error) {
			return nil, fmt.Errorf("inner timeout: %w", context.DeadlineExceeded)
		},
	}
}

func orNull(s string) string {
	if s == "" {
		return "null"
	}
	return s
}

func runGet(_ *testing.T, g Get) (v engine.Verdict) {
	u, err := url.Parse("http://h" + g.Target)
	if err != nil {
		return engine.Verdict{Labels: []string{"skipped:url-does-not-parse"}}
	}
	opts := &jhttp.GetterOptions{}
	if g.Query {
		opts.ParseRequest = jhttp.ParseQuery
	}
	echoed := ""
	gt := jhttp.NewGetter(getterMux(&echoed), opts)
	defer gt.Close()
	verb := g.Verb
	if verb == "" {
		verb = "GET"
	}
	req := httptest.NewRequest(verb, "/", nil)
	req.URL = u
	if g.AsForm {
		bu := *u
		bu.RawQuery = ""
		req = httptest.NewRequest(verb, "/", strings.NewReader(u.RawQuery))
		req.Header.Set("Content-Type", "application/x-www-form-urlencoded")
		req.URL = &bu
	}
	rec := httptest.NewRecorder()
	defer func() {
		if p := recover(); p != nil {
			v = engine.Failf("C19/getter/panic", "Getter panicked on %q: %v", g.Target, p)
		}
	}()
	gt.ServeHTTP(rec, req)
	body := rec.Body.Bytes()
	if !refjson.Valid(body) {
		return engine.Failf("C19/getter/body-not-json", "GET %q: status %d body %q is not valid JSON", g.Target, rec.Code, body)
	}
	method := strings.Trim(u.Path, "/")
	_, ferr := url.ParseQuery(u.RawQuery)
	parseFails := method == "" || ferr != nil
	if g.Query && !parseFails {
		form, _ := url.ParseQuery(u.RawQuery)
		for _, vs := range form {
			if k, _ := refType(vs[0]); k == "error" {
				parseFails = true
			}
		}
	}
	want := 0
	switch {
	case parseFails:
		want = 400
	case method == "ok" || method == "echo" || method == "a/b" || method == "rpc.serverInfo":
		want = 200
	case method == "fail" || method == "coded" || method == "bad" || method == "ctxc" || method == "ctxd":
		want = 500
	default:
		want = 404
	}
	if rec.Code != want {
		return engine.Failf("C19/getter/status", "GET %q: status %d, want %d (body %s)", g.Target, rec.Code, want, body)
	}
	if want == 200 {
		switch method {
		case "ok":
			if !refjson.Equal(body, []byte(`{"fine":true,"n":1.5}`)) {
				return engine.Failf("C19/getter/result", "GET %q: body %s is not the handler's result", g.Target, body)
			}
		case "echo":
			// the handler's result is the parameter text it was given
			if !refjson.Equal(body, []byte(echoed)) {
				return engine.Failf("C19/getter/result", "GET %q: body %s is not the handler's result %s", g.Target, body, echoed)
			}
		case "a/b":
			if string(body) != `"nested"` {
				return engine.Failf("C19/getter/result", "GET %q: body %s", g.Target, body)
			}
		}
	} else if method != "ctxc" && method != "ctxd" { // (for those the property asks for valid JSON only; the body is {})
		var eo struct {
			Code *int `json:"code"`
		}
		if json.Unmarshal(body, &eo) != nil || eo.Code == nil {
			return engine.Failf("C19/getter/error-body", "GET %q: status %d body %s is not an error object with an integer code", g.Target, rec.Code, body)
		}
	}
	return engine.Verdict{NonTrivial: want != 200 || method == "echo", Labels: []string{fmt.Sprintf("status:%d", want)}}
}

func genGet(t *rapid.T) Get {
	path := rapid.SampledFrom([]string{"/ok", "//ok//", "/echo", "/fail", "/coded", "/bad", "/ctxc", "/ctxd", "/nope", "/notfound", "/a/b", "/a/b/", "/", "", "//", "/Ok", "/ok/x", "/rpc.serverInfo", "/rpc.x"}).Draw(t, "path")
	q := genQuery(t)
	g := Get{Target: path, Query: rapid.Bool().Draw(t, "useparsequery")}
	if q.Query != "" {
		g.Target += "?" + q.Query
	}
	// "A Getter maps each HTTP request to one JSON-RPC call": whatever its method
	g.Verb = rapid.SampledFrom([]string{"", "", "", "POST", "PUT", "PATCH", "DELETE", "HEAD"}).Draw(t, "verb")
	if g.Verb == "POST" || g.Verb == "PUT" || g.Verb == "PATCH" {
		g.AsForm = rapid.Bool().Draw(t, "asform")
	}
	return g
}

// ---- (c) jhttp.Channel against a Bridge, in-process --------------------------------

// Work is a client workload over the HTTP channel, with Close at some point.
type Work struct {
	Ops        []string `json:"ops"`               // call notify batch callerr callnf
	CloseAfter int      `json:"close_after"`       // number of operations started before Close (they are all in flight when Close runs if Hold)
	Hold       bool     `json:"hold"`              // the HTTP client holds every response until Close has begun
	Fail500    bool     `json:"fail500,omitempty"` // finally one more call is answered by the HTTP endpoint with status 500
	// TransportFailAt: the k-th HTTP round trip (1-based) fails with a transport
	// error instead of yielding a response (hold mode: when it is released).
	TransportFailAt int `json:"transport_fail_at,omitempty"`
	// BodyFailAt: the k-th HTTP round trip yields a response whose body breaks off
	// with a read error after its first bytes (the connection died after the header).
	BodyFailAt int `json:"body_fail_at,omitempty"`
	// BadURL: the channel was made for a URL no request can be built for: every
	// Send fails, and Close still has to return.
	BadURL bool `json:"bad_url,omitempty"`
	// Raw: the channel is used without a Client: CloseAfter requests are sent,
	// nothing is received, and Close has to deal with all of them.
	Raw bool `json:"raw,omitempty"`
	// Opts: how the channel is given its HTTP client: "" an explicit Client,
	// "nil" nil options, "empty" options whose Client is unset - the last two
	// are documented to use http.DefaultClient (whose transport the harness replaces).
	Opts string `json:"opts,omitempty"`
}

type rtFunc func(*http.Request) (*http.Response, error)

func (f rtFunc) RoundTrip(r *http.Request) (*http.Response, error) { return f(r) }

type spyBody struct {
	io.Reader
	closed *int32
	mu     *sync.Mutex
}

func (s spyBody) Close() error {
	s.mu.Lock()
	*s.closed++
	s.mu.Unlock()
	return nil
}

type fakeHTTP struct {
	b       jhttp.Bridge
	mu      sync.Mutex
	bodies  []*int32
	release chan struct{}
	hold    bool
	fail500 bool
	inDo    int
	failAt  int
	bodyAt  int
}

type errReader struct{}

func (errReader) Read([]byte) (int, error) { return 0, errors.New("connection reset while reading the body") }

func (f *fakeHTTP) Do(req *http.Request) (*http.Response, error) {
	f.mu.Lock()
	f.inDo++
	k := f.inDo
	f.mu.Unlock()
	if f.failAt > 0 && k == f.failAt {
		if f.hold {
			<-f.release
		}
		return nil, errors.New("transport failure: connection reset")
	}
	rec := httptest.NewRecorder()
	if f.fail500 {
		rec.WriteHeader(500)
		rec.WriteString("upstream failure")
	} else {
		f.b.ServeHTTP(rec, req)
	}
	if f.hold {
		<-f.release
	}
	res := rec.Result()
	n := new(int32)
	f.mu.Lock()
	f.bodies = append(f.bodies, n)
	f.mu.Unlock()
	var rd io.Reader = res.Body
	if f.bodyAt > 0 && k == f.bodyAt {
		rd = io.MultiReader(io.LimitReader(res.Body, 3), errReader{})
	}
	res.Body = spyBody{Reader: rd, closed: n, mu: &f.mu}
	return res, nil
}

func workMux() handler.Map {
	return handler.Map{
		"add": handler.New(func(ctx context.Context, xs []int) int {
			s := 0
			for _, x := range xs {
				s += x
			}
			return s
		}),
		"fail": func(ctx context.Context, req *jrpc2.Request) (any, error) {
			return nil, jrpc2.Errorf(-32000, "no").WithData("d")
		},
		"note": func(ctx context.Context, req *jrpc2.Request) (any, error) { return nil, nil },
	}
}

func doOp(cli *jrpc2.Client, op string, i int) string {
	ctx := context.Background()
	switch op {
	case "call":
		var out int
		err := cli.CallResult(ctx, "add", []int{i, 2 * i}, &out)
		return fmt.Sprintf("call:%d:%v", out, err)
	case "bigcall":
		// a request of more than a megabyte
		xs := make([]int, 160000)
		for j := range xs {
			xs[j] = 100000 + j%7
		}
		xs[0] = i
		var out int
		err := cli.CallResult(ctx, "add", xs, &out)
		return fmt.Sprintf("bigcall:%d:%v", out, err)
	case "callerr":
		_, err := cli.Call(ctx, "fail", nil)
		return fmt.Sprintf("callerr:%v", err)
	case "callnf":
		_, err := cli.Call(ctx, "nosuch", nil)
		return fmt.Sprintf("callnf:%v", err)
	case "notify":
		return fmt.Sprintf("notify:%v", cli.Notify(ctx, "note", []int{i}))
	case "batch":
		rsps, err := cli.Batch(ctx, []jrpc2.Spec{{Method: "add", Params: []int{i}}, {Method: "note", Notify: true}, {Method: "fail"}, {Method: "add", Params: []int{1, i}}})
		s := fmt.Sprintf("batch:%v", err)
		for _, r := range rsps {
			s += "|" + r.ResultString() + "/" + fmt.Sprint(r.Error())
		}
		return s
	}
	return "?"
}

func runWork(t *testing.T, w Work) (v engine.Verdict) {
	stuck := ""
	var overHTTP, overDirect []string
	var unclosed, total int
	func() {
		defer func() {
			if p := recover(); p != nil {
				stuck = fmt.Sprint(p)
			}
		}()
		synctest.Test(t, func(t *testing.T) {
			// reference run over a direct connection
			cpipe, spipe := channel.Direct()
			srv := jrpc2.NewServer(workMux(), nil).Start(spipe)
			dcli := jrpc2.NewClient(cpipe, nil)
			for i, op := range w.Ops {
				overDirect = append(overDirect, doOp(dcli, op, i))
			}
			dcli.Close()
			srv.Wait()
			// the same workload over jhttp.Channel against a Bridge
			b := jhttp.NewBridge(workMux(), nil)
			fh := &fakeHTTP{b: b, release: make(chan struct{}), hold: w.Hold, failAt: w.TransportFailAt, bodyAt: w.BodyFailAt}
			copts := &jhttp.ChannelOptions{Client: fh}
			if w.Opts != "" {
				saved := http.DefaultClient.Transport
				http.DefaultClient.Transport = rtFunc(fh.Do)
				defer func() { http.DefaultClient.Transport = saved }()
				copts = nil
				if w.Opts == "empty" {
					copts = &jhttp.ChannelOptions{}
				}
			}
			target := "http://bridge/"
			if w.BadURL {
				target = "http://bridge\x7f/%zz"
			}
			hch := jhttp.NewChannel(target, copts)
			var cli *jrpc2.Client
			if !w.Raw {
				cli = jrpc2.NewClient(hch, nil)
			}
			n := w.CloseAfter
			if n > len(w.Ops) {
				n = len(w.Ops)
			}
			results := make([]string, n)
			var wg sync.WaitGroup
			if w.Raw {
				for i := 0; i < n; i++ {
					hch.Send([]byte(fmt.Sprintf(`{"jsonrpc":"2.0","id":%d,"method":"add","params":[%d]}`, i+1, i)))
				}
				synctest.Wait()
				closed := make(chan struct{})
				go func() { hch.Close(); close(closed) }()
				synctest.Wait()
				close(fh.release)
				<-closed
				results = nil
			} else if w.Hold {
				for i := 0; i < n; i++ {
					wg.Add(1)
					go func(i int) {
						defer wg.Done()
						results[i] = doOp(cli, w.Ops[i], i)
					}(i)
				}
				synctest.Wait()
				closed := make(chan struct{})
				go func() { cli.Close(); close(closed) }()
				synctest.Wait()
				close(fh.release)
				<-closed
				wg.Wait()
			} else {
				for i := 0; i < n; i++ {
					results[i] = doOp(cli, w.Ops[i], i)
				}
				if w.Fail500 {
					fh.mu.Lock()
					fh.fail500 = true
					fh.mu.Unlock()
					if _, err := cli.Call(context.Background(), "add", []int{1}); err == nil {
						results = append(results, "call over a failing HTTP endpoint succeeded")
					}
				}
				cli.Close()
			}
			overHTTP = results
			b.Close()
			synctest.Wait()
			fh.mu.Lock()
			total = len(fh.bodies)
			for _, c := range fh.bodies {
				if *c == 0 {
					unclosed++
				}
			}
			fh.mu.Unlock()
		})
	}()
	if stuck != "" {
		return engine.Failf("C19/channel/goroutines-left-or-deadlock", "%s (workload %+v)", stuck, w)
	}
	if unclosed > 0 {
		return engine.Failf("C19/channel/body-not-closed", "%d of %d HTTP response bodies were never closed (workload %+v)", unclosed, total, w)
	}
	if !w.Hold && !w.Raw && w.TransportFailAt == 0 && w.BodyFailAt == 0 && !w.BadURL {
		if len(overHTTP) > len(overDirect) || (len(overHTTP) > 0 && strings.HasPrefix(overHTTP[len(overHTTP)-1], "call over a failing")) {
			return engine.Failf("C19/channel/http-failure-ignored", "a call answered with HTTP status 500 reported success")
		}
		for i := range overHTTP {
			if overHTTP[i] != overDirect[i] {
				return engine.Failf("C19/channel/result-differs", "operation %d (%s): over HTTP %q, over a direct connection %q", i, w.Ops[i], overHTTP[i], overDirect[i])
			}
		}
	}
	labels := []string{fmt.Sprintf("hold:%v", w.Hold)}
	if w.TransportFailAt > 0 {
		labels = append(labels, "transport-failure")
	}
	if w.BodyFailAt > 0 {
		labels = append(labels, "body-read-failure")
	}
	if w.BadURL {
		labels = append(labels, "unusable-url")
	}
	return engine.Verdict{NonTrivial: (w.Hold && w.CloseAfter > 0 && len(w.Ops) > 0) || w.Fail500 || w.TransportFailAt > 0 || w.BodyFailAt > 0, Labels: labels}
}

func genWork(t *testing.T) func(*rapid.T) Work {
	return func(t *rapid.T) Work {
		w := Work{Hold: rapid.Bool().Draw(t, "hold")}
		n := rapid.IntRange(0, 6).Draw(t, "nops")
		for i := 0; i < n; i++ {
			w.Ops = append(w.Ops, rapid.SampledFrom([]string{"call", "call", "notify", "batch", "callerr", "callnf", "call", "notify", "batch", "call", "call", "notify", "batch", "callerr", "callnf", "call", "notify", "batch", "call", "call", "notify", "batch", "callerr", "callnf", "bigcall"}).Draw(t, "op"))
		}
		w.CloseAfter = rapid.IntRange(0, n).Draw(t, "closeafter")
		w.Fail500 = !w.Hold && rapid.IntRange(0, 2).Draw(t, "fail500") == 0
		if w.Hold && rapid.IntRange(0, 3).Draw(t, "raw") == 0 {
			w.Raw = true
		}
		w.Opts = rapid.SampledFrom([]string{"", "", "nil", "empty"}).Draw(t, "opts")
		if n > 0 && rapid.IntRange(0, 3).Draw(t, "transportfail") == 0 {
			w.TransportFailAt = rapid.IntRange(1, n).Draw(t, "failat")
			w.Fail500 = false
		} else if rapid.IntRange(0, 7).Draw(t, "badurl") == 0 {
			w.BadURL, w.Fail500 = true, false
		} else if n > 0 && rapid.IntRange(0, 3).Draw(t, "bodyfail") == 0 {
			w.BodyFailAt = rapid.IntRange(1, n).Draw(t, "bodyfailat")
			w.Fail500 = false
		}
		return w
	}
}

var parts = []engine.AnyPart{
	engine.Part[Query]{Name: "words", Run: runQuery, Enum: enumWords,
		Rule:           "every entry of a table of ~90 hostile query values (inf/nan/true/false/null in all cases, exponent / hex / underscore / binary forms, sign and dot corner cases, 19-400 digit numbers around int64 and float64 limits, quoted strings valid and broken, base64 valid / padded / broken) as the single query value of two paths; oracle = the documented typing rules as a regular-expression cascade, params must marshal; non-trivial = a value that is neither a plain identifier nor a plain integer",
		EnumExhaustive: "the table of hostile query values"},
	engine.Part[Query]{Name: "query", Run: runQuery, Gen: genQuery,
		Rule: "paths from a table (empty, slashes, nested, unicode, escapes) with 0-4 query keys whose values come from the table or from an alphabet of digits, signs, dots, e E x _ p, quotes, percent and separators, encoded correctly or with broken escapes / semicolons, optionally merged with a form body; ParseBasic and ParseQuery must not panic, return the trimmed non-empty path, marshalable params typed per the documented rules, and fail only for an empty path, a malformed encoding or a value that starts or ends with a quote"},
	engine.Part[Get]{Name: "getter", Run: runGet, Gen: genGet,
		Rule: "GET requests to a Getter (default parser and ParseQuery) over a map with ok / echo / failing / coded / unmarshalable / nested / not-found methods and generated query strings: status in {200,400,404,500} per the documented table, body always valid JSON, 200 bodies equal to the result, error bodies objects with an integer code; non-trivial = not a plain 200"},
	engine.Part[Work]{Name: "channel", Run: runWork, Gen: genWork(nil),
		Rule: "a jrpc2.Client over jhttp.Channel whose HTTPClient calls Bridge.ServeHTTP in-process (bodies wrapped in close spies), inside a bubble: workloads of calls / notifications / batches / failing calls; metamorphic oracle = the same workload over channel.Direct gives the same results; with hold=true every response is withheld until Close has begun, after which no goroutine may be left and every response body handed out must have been closed; non-trivial = Close with at least one HTTP request in flight"},
}

func TestProp(t *testing.T)   { engine.RunParts(t, "C19", parts) }
func TestReplay(t *testing.T) { engine.ReplayParts(t, "C19", parts) }
