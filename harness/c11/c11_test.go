// Package c11 checks property C11: framing round trip under any fragmentation.
package c11

import (
	"bytes"
	"fmt"
	"io"
	"sort"
	"testing"

	"github.com/creachadair/jrpc2/channel"
	"pgregory.net/rapid"

	"verif/harness/engine"
)

// RecSpec describes one record compactly (so multi-megabyte records fit in a replay file).
type RecSpec struct {
	Kind string       `json:"kind"`           // "fill" (pattern bytes), "json" (a JSON string value of that size), "lit" (literal bytes)
	Size int          `json:"size,omitempty"` // for fill/json
	Seed int          `json:"seed,omitempty"`
	Lit  engine.Bytes `json:"lit,omitempty"`
	// Inject: for json, the byte (value+1) put in the middle of the record - the
	// split byte of the framing, which makes a record of any size unrepresentable.
	Inject int `json:"inject,omitempty"`
}

// Case: records are sent pipelined by the library's own Send, the stream is
// then read back through a chunk-controlled reader.
type Case struct {
	// RecvFraming: the receiving end uses this framing instead (a header framing
	// that expects a content type reading from a peer that sends none).
	RecvFraming string    `json:"recv_framing,omitempty"`
	Framing     string    `json:"framing"` // line, split1e, split00, splitsp, hdr, hdrbin, strict, stricttp, lsp, rawjson, direct
	Records     []RecSpec `json:"records"`
	Cuts        []int     `json:"cuts,omitempty"`
	OneByte     bool      `json:"one_byte,omitempty"`
	MaxRead     int       `json:"max_read,omitempty"` // every read returns at most this many bytes (0 = no limit)
	EOFWithData bool      `json:"eof_with_data,omitempty"`
	AllCutSets  bool      `json:"all_cut_sets,omitempty"` // run every cut set of the stream (stream must be short)
	// SharedBuf: the sender keeps all its records side by side in one buffer and
	// hands Send a sub-slice for each (so every slice has spare capacity, namely
	// the records behind it).
	SharedBuf bool `json:"shared_buf,omitempty"`
	// SendBetween: after each Recv the receiving endpoint sends a record of its
	// own before it looks at what it received.
	SendBetween bool `json:"send_between,omitempty"`
}

var framingNames = []string{"line", "split1e", "split00", "splitsp", "splitff", "split80", "splitc2", "hdr", "hdrbin", "hdrcaps", "hdrcolon", "strict", "stricttp", "strictcaps", "lsp", "rawjson", "direct"}

func framingOf(name string) (channel.Framing, byte, bool) {
	switch name {
	case "line":
		return channel.Line, '\n', true
	case "split1e":
		return channel.Split(0x1e), 0x1e, true
	case "split00":
		return channel.Split(0), 0, true
	case "splitsp":
		return channel.Split(' '), ' ', true
	case "splitff": // terminators outside ASCII: bytes, not characters
		return channel.Split(0xff), 0xff, true
	case "split80":
		return channel.Split(0x80), 0x80, true
	case "splitc2":
		return channel.Split(0xc2), 0xc2, true
	case "hdr":
		return channel.Header(""), 0, false
	case "hdrbin":
		return channel.Header("binary/octet-stream"), 0, false
	case "hdrcaps": // a content type is compared as given, letter case included
		return channel.Header("Application/JSON; charset=UTF-8"), 0, false
	case "hdrcolon": // the value of a header field may contain colons
		return channel.StrictHeader(`application/json; profile="urn:example:rpc"`), 0, false
	case "strictcaps":
		return channel.StrictHeader("application/vnd.Example+json; Charset=UTF-8"), 0, false
	case "strict":
		return channel.StrictHeader(""), 0, false
	case "stricttp":
		return channel.StrictHeader("text/plain"), 0, false
	case "lsp":
		return channel.LSP, 0, false
	case "rawjson":
		return channel.RawJSON, 0, false
	}
	panic("framing " + name)
}

func (r RecSpec) bytes() []byte {
	switch r.Kind {
	case "lit":
		return append([]byte{}, r.Lit...)
	case "json":
		n := r.Size
		if n < 2 {
			n = 2
		}
		b := make([]byte, n)
		for i := range b {
			b[i] = "abcdefghij klmnop"[(i*7+r.Seed)%17]
		}
		b[0], b[n-1] = '"', '"'
		if r.Inject > 0 {
			b[n/2] = byte(r.Inject - 1)
		}
		return b
	}
	b := make([]byte, r.Size)
	x := uint32(r.Seed)*2654435761 + 12345
	for i := range b {
		x = x*1664525 + 1013904223
		b[i] = byte(x >> 24)
	}
	return b
}

type chunkReader struct {
	data        []byte
	pos         int
	cuts        []int // sorted
	oneByte     bool
	maxRead     int
	eofWithData bool
}

func (r *chunkReader) Read(p []byte) (int, error) {
	if r.pos >= len(r.data) {
		return 0, io.EOF
	}
	if len(p) == 0 {
		return 0, nil
	}
	end := len(r.data)
	if r.oneByte {
		end = r.pos + 1
	} else {
		i := sort.SearchInts(r.cuts, r.pos+1)
		if i < len(r.cuts) && r.cuts[i] < end {
			end = r.cuts[i]
		}
	}
	if r.maxRead > 0 && end-r.pos > r.maxRead {
		end = r.pos + r.maxRead
	}
	if end-r.pos > len(p) {
		end = r.pos + len(p)
	}
	n := copy(p, r.data[r.pos:end])
	r.pos = end
	if r.pos >= len(r.data) && r.eofWithData {
		return n, io.EOF
	}
	return n, nil
}

type bufWC struct {
	bytes.Buffer
	writes int
	closed int
}

func (b *bufWC) Write(p []byte) (int, error) { b.writes++; return b.Buffer.Write(p) }
func (b *bufWC) Close() error                { b.closed++; return nil }

type emptyReader struct{}

func (emptyReader) Read([]byte) (int, error) { return 0, io.EOF }

func safely(f func()) (p any) {
	defer func() { p = recover() }()
	f()
	return nil
}

func run(_ *testing.T, c Case) engine.Verdict {
	if c.Framing == "direct" {
		return runDirect(c)
	}
	fr, sep, isSplit := framingOf(c.Framing)
	sig := "C11/" + c.Framing
	// Sender side: the library's own Send, pipelined into a buffer.
	w := &bufWC{}
	snd := fr(emptyReader{}, w)
	var want [][]byte
	var bounds []int // stream offset after each accepted record
	var hdrEnds []int
	refused := 0
	var arena, pristine []byte
	var offs []int
	if c.SharedBuf {
		for _, rs := range c.Records {
			offs = append(offs, len(arena))
			arena = append(arena, rs.bytes()...)
		}
		offs = append(offs, len(arena))
		arena = append(arena, "<-guard>"...)
		pristine = append([]byte(nil), arena...)
	}
	for i, rs := range c.Records {
		rec := rs.bytes()
		before, wbefore := w.Len(), w.writes
		orig := append([]byte(nil), rec...)
		var err error
		if len(rec) == 0 && i%2 == 1 {
			rec = nil // an empty record may be handed over as a nil slice as well
		}
		if c.SharedBuf {
			rec = arena[offs[i]:offs[i+1]]
		}
		if p := safely(func() { err = snd.Send(rec) }); p != nil {
			return engine.Failf(sig+"/send-panic", "Send of record %d panicked: %v", i, p)
		}
		if c.SharedBuf && !bytes.Equal(arena, pristine) {
			d := 0
			for d < len(arena) && arena[d] == pristine[d] {
				d++
			}
			return engine.Failf(sig+"/sender-buffer-modified", "the sender keeps its records side by side in one buffer; Send of record %d (bytes %d..%d of that buffer) changed byte %d of the buffer from %q to %q (Send returned %v): the records behind it are no longer the ones the sender meant to send", i, offs[i], offs[i+1], d, pristine[d], arena[d], err)
		}
		if isSplit && bytes.IndexByte(orig, sep) >= 0 {
			refused++
			if err == nil {
				return engine.Failf(sig+"/unrepresentable-accepted", "Send accepted record %d %s which contains the split byte %q", i, engine.Q(orig), sep)
			}
			if w.Len() != before || w.writes != wbefore {
				return engine.Failf(sig+"/refusal-wrote-bytes", "Send refused record %d but wrote %d bytes", i, w.Len()-before)
			}
			continue
		}
		if err != nil {
			return engine.Failf(sig+"/send-error", "Send of legal record %d (%d bytes) failed: %v", i, len(orig), err)
		}
		if c.Framing == "rawjson" && string(orig) == "null" {
			orig = nil
		}
		want = append(want, orig)
		hdrEnds = append(hdrEnds, w.Len()-len(orig))
		bounds = append(bounds, w.Len())
	}
	if err := snd.Close(); err != nil || w.closed != 1 {
		return engine.Failf(sig+"/close", "Close: err=%v, writer closed %d times", err, w.closed)
	}
	stream := append([]byte(nil), w.Bytes()...)

	check := func(cuts []int, oneByte bool, maxRead int, eofWithData bool) engine.Verdict {
		rd := &chunkReader{data: stream, cuts: cuts, oneByte: oneByte, maxRead: maxRead, eofWithData: eofWithData}
		rfr := fr
		if c.RecvFraming != "" {
			rfr, _, _ = framingOf(c.RecvFraming)
		}
		rcv := rfr(rd, &bufWC{})
		for i, exp := range want {
			var got []byte
			var err error
			if p := safely(func() { got, err = rcv.Recv() }); p != nil {
				return engine.Failf(sig+"/recv-panic", "Recv #%d panicked: %v", i, p)
			}
			if c.SendBetween && err == nil {
				if serr := rcv.Send([]byte(`{"s":1}`)); serr != nil {
					return engine.Failf(sig+"/send-error", "Send on the receiving endpoint after Recv #%d: %v", i, serr)
				}
				if !bytes.Equal(got, exp) {
					return engine.Failf(sig+"/record-differs", "Recv #%d returned %s; after the same endpoint sent a record of its own the returned bytes read %s", i, engine.Q(clip(exp)), engine.Q(clip(got)))
				}
			}
			got = append([]byte(nil), got...) // buffers are reused
			if err != nil {
				return engine.Failf(sig+"/record-lost", "Recv #%d: want record of %d bytes, got error %v (cuts %v oneByte %v eofWithData %v)", i, len(exp), err, cuts, oneByte, eofWithData)
			}
			if !bytes.Equal(got, exp) {
				return engine.Failf(sig+"/record-differs", "Recv #%d: got %d bytes %s, want %d bytes %s (cuts %v oneByte %v maxRead %d)", i, len(got), engine.Q(clip(got)), len(exp), engine.Q(clip(exp)), cuts, oneByte, maxRead)
			}
		}
		for k := 0; k < 3; k++ {
			var got []byte
			var err error
			if p := safely(func() { got, err = rcv.Recv() }); p != nil {
				return engine.Failf(sig+"/recv-panic", "Recv after the last record panicked: %v", p)
			}
			if err != io.EOF || len(got) != 0 {
				return engine.Failf(sig+"/no-clean-eof", "Recv #%d after %d records: got (%s, %v), want (nil, io.EOF) (cuts %v oneByte %v eofWithData %v)", len(want)+k, len(want), engine.Q(clip(got)), err, cuts, oneByte, eofWithData)
			}
		}
		return engine.Verdict{}
	}

	if c.AllCutSets {
		n := len(stream)
		if n > 22 {
			return engine.Verdict{Labels: []string{"skipped:stream-too-long-for-all-cut-sets"}}
		}
		total := 1
		if n > 1 {
			total = 1 << (n - 1)
		}
		for mask := 0; mask < total; mask++ {
			var cuts []int
			for b := 0; b < n-1; b++ {
				if mask&(1<<b) != 0 {
					cuts = append(cuts, b+1)
				}
			}
			for _, eofd := range []bool{false, true} {
				if v := check(cuts, false, 0, eofd); v.Fail {
					return v
				}
			}
		}
		return engine.Verdict{NonTrivial: len(want) >= 2 || refused > 0, Labels: []string{"framing:" + c.Framing, "allcuts", fmt.Sprintf("cutsets:%d", total)},
			Desc: fmt.Sprintf("allcuts|%s|%x", c.Framing, stream)}
	}

	cuts := append([]int(nil), c.Cuts...)
	sort.Ints(cuts)
	v := check(cuts, c.OneByte, c.MaxRead, c.EOFWithData)
	if v.Fail {
		return v
	}
	// Non-trivial rule.
	inside := c.OneByte || (c.MaxRead > 0 && c.MaxRead < 8)
	start := 0
	for i := range bounds {
		for _, cut := range cuts {
			if isSplit && cut == bounds[i]-1 {
				inside = true // the terminator arrives in a different read than the data
			}
			if !isSplit && cut > start && cut < hdrEnds[i] {
				inside = true // cut strictly inside the header
			}
		}
		start = bounds[i]
	}
	transition := false
	for i := 1; i < len(want); i++ {
		a, b := len(want[i-1]), len(want[i])
		for _, th := range []int{4096, 1 << 20, 1 << 24} {
			if (a <= th) != (b <= th) {
				transition = true
			}
		}
	}
	v.NonTrivial = (len(want) >= 2 && (inside || transition || c.EOFWithData)) || refused > 0
	v.Labels = []string{"framing:" + c.Framing}
	if inside {
		v.Labels = append(v.Labels, "cut-inside-frame-syntax")
	}
	if transition {
		v.Labels = append(v.Labels, "size-transition")
	}
	if refused > 0 {
		v.Labels = append(v.Labels, "split-byte-record")
	}
	return v
}

func clip(b []byte) []byte {
	if len(b) > 60 {
		return append(append([]byte(nil), b[:40]...), []byte("...")...)
	}
	return b
}

func runDirect(c Case) engine.Verdict {
	cli, srv := channel.Direct()
	var want [][]byte
	for _, rs := range c.Records {
		want = append(want, rs.bytes())
	}
	done := make(chan error, 1)
	go func() {
		for i, rec := range want {
			if len(rec) == 0 && i%2 == 1 {
				rec = nil // an empty record may be handed over as a nil slice as well
			}
			if err := cli.Send(rec); err != nil {
				done <- err
				return
			}
		}
		done <- cli.Close()
	}()
	for i, exp := range want {
		got, err := srv.Recv()
		if err != nil || !bytes.Equal(got, exp) {
			return engine.Failf("C11/direct/record-differs", "Recv #%d: got (%s,%v) want %s", i, engine.Q(clip(got)), err, engine.Q(clip(exp)))
		}
	}
	for k := 0; k < 2; k++ {
		if got, err := srv.Recv(); err != io.EOF || got != nil {
			return engine.Failf("C11/direct/no-clean-eof", "after Close: got (%v,%v) want (nil, io.EOF)", got, err)
		}
	}
	if err := <-done; err != nil {
		return engine.Failf("C11/direct/send-error", "sender: %v", err)
	}
	return engine.Verdict{NonTrivial: len(want) >= 2, Labels: []string{"framing:direct"}}
}

// ---- generators ------------------------------------------------------------

func genRecord(t *rapid.T, framing string, big bool) RecSpec {
	var sep byte
	var isSplit bool
	if framing != "direct" {
		_, sep, isSplit = framingOf(framing)
	}
	sizes := []int{0, 1, 2, 3, 17, 100, 4094, 4095, 4096, 4097, 5000, 8192, 65536}
	if big {
		sizes = append(sizes, 262143, 1<<20, 1<<20+1, 3<<20)
	}
	if framing == "rawjson" {
		switch rapid.IntRange(0, 3).Draw(t, "jkind") {
		case 0:
			return RecSpec{Kind: "lit", Lit: engine.Bytes(rapid.SampledFrom([]string{`{}`, `[]`, `{"a":[1,2,{"b":null}]}`, `["x","y"]`, `""`, `"\né"`, `{"jsonrpc":"2.0","id":1,"method":"m"}`, ``, `null`, `[[[[]]]]`,
				// insignificant white space inside a value is part of the record
				`{"id": 2}`, `[1, 2 ,3]`, `{ "a" : [ ] }`, "{\n\t\"k\": \"v\"\n}", "[\r\n]"}).Draw(t, "lit"))}
		default:
			return RecSpec{Kind: "json", Size: rapid.SampledFrom(sizes).Draw(t, "size"), Seed: rapid.IntRange(0, 9).Draw(t, "seed")}
		}
	}
	if rapid.IntRange(0, 3).Draw(t, "kind") == 0 {
		// short literal over a hostile alphabet (may contain split bytes)
		n := rapid.IntRange(0, 6).Draw(t, "n")
		b := make([]byte, n)
		for i := range b {
			b[i] = rapid.SampledFrom([]byte{'a', '\n', '\r', 0x1e, 0, ' ', ':', '{', 'C'}).Draw(t, "b")
		}
		if isSplit && bytes.IndexByte(b, sep) >= 0 && rapid.IntRange(0, 2).Draw(t, "keepsplit") != 0 {
			b = bytes.ReplaceAll(b, []byte{sep}, []byte{'z'})
		}
		return RecSpec{Kind: "lit", Lit: b}
	}
	rs := RecSpec{Kind: "fill", Size: rapid.SampledFrom(sizes).Draw(t, "size"), Seed: rapid.IntRange(0, 1000).Draw(t, "seed")}
	if isSplit {
		// make it legal: pattern bytes equal to the split byte are replaced
		b := bytes.ReplaceAll(rs.bytes(), []byte{sep}, []byte{sep + 1})
		if len(b) <= 64 {
			return RecSpec{Kind: "lit", Lit: b}
		}
		js := RecSpec{Kind: "json", Size: rs.Size, Seed: rs.Seed % 10} // printable pattern without control bytes
		if rapid.IntRange(0, 5).Draw(t, "bigsplit") == 0 {
			js.Inject = int(sep) + 1 // ... with the split byte in the middle: Send must refuse it whatever its size
		}
		return js
	}
	return rs
}

func genCase(big bool) func(t *rapid.T) Case {
	return func(t *rapid.T) Case {
		c := Case{Framing: rapid.SampledFrom(framingNames).Draw(t, "framing")}
		if (c.Framing == "hdr" || c.Framing == "strict") && rapid.IntRange(0, 2).Draw(t, "asym") == 0 {
			// the sender writes no Content-Type; Header(mime) and LSP accept that
			c.RecvFraming = rapid.SampledFrom([]string{"hdrbin", "hdrcaps", "lsp"}).Draw(t, "rfr")
		}
		n := rapid.IntRange(0, 12).Draw(t, "nrec")
		if big {
			n = rapid.IntRange(1, 6).Draw(t, "nrec")
		}
		total := 0
		for i := 0; i < n; i++ {
			r := genRecord(t, c.Framing, big)
			if c.Framing == "splitsp" && r.Kind == "json" {
				r = RecSpec{Kind: "lit", Lit: bytes.ReplaceAll(r.bytes(), []byte(" "), []byte("_"))}
			}
			c.Records = append(c.Records, r)
			total += len(r.bytes()) + 60
		}
		if total < 2 {
			total = 2
		}
		switch rapid.IntRange(0, 4).Draw(t, "delivery") {
		case 0:
		case 1:
			if total < 300000 {
				c.OneByte = true
			} else {
				c.MaxRead = rapid.SampledFrom([]int{1, 2, 3, 7, 4095, 4096, 4097}).Draw(t, "maxread")
			}
		case 2:
			c.MaxRead = rapid.SampledFrom([]int{2, 3, 5, 16, 4095, 4096, 4097, 10000}).Draw(t, "maxread")
		default:
			k := rapid.IntRange(1, 8).Draw(t, "ncuts")
			for i := 0; i < k; i++ {
				// cuts are offsets into the stream; bias to small offsets and frame starts
				c.Cuts = append(c.Cuts, rapid.IntRange(1, total).Draw(t, "cut"))
			}
		}
		c.EOFWithData = rapid.Bool().Draw(t, "eofWithData")
		c.SharedBuf = rapid.IntRange(0, 3).Draw(t, "sharedbuf") == 0
		c.SendBetween = rapid.IntRange(0, 3).Draw(t, "sendbetween") == 0
		return c
	}
}

// small streams, every cut set
func enumAllCuts(env engine.Env, yield func(Case) bool) {
	lits := func(ss ...string) []RecSpec {
		var out []RecSpec
		for _, s := range ss {
			out = append(out, RecSpec{Kind: "lit", Lit: engine.Bytes(s)})
		}
		return out
	}
	var cases []Case
	for _, f := range []string{"line", "split1e", "split00", "splitsp", "splitff", "split80", "splitc2"} {
		cases = append(cases,
			Case{Framing: f, Records: lits("ab", "", "c")},
			Case{Framing: f, Records: lits("", "", "")},
			Case{Framing: f, Records: lits("abcdefgh", "ij")},
			Case{Framing: f, Records: lits("a\rb", "\r", "x")},
			Case{Framing: f, Records: lits("{}", "[1]", "\"s\"", "")},
			Case{Framing: f, Records: lits("a", "b", "c", "d", "e", "f")},
		)
		// a record that contains the split byte (refused, nothing written), and for
		// split bytes above 0x7f a record that contains the UTF-8 encoding of the
		// rune with that number (legal: it does not contain the byte ... unless it does)
		_, sep, _ := framingOf(f)
		cases = append(cases,
			Case{Framing: f, Records: lits("ab", string([]byte{'x', sep, 'y'}), "c")},
			Case{Framing: f, Records: lits(string([]byte{sep}), "z")},
			Case{Framing: f, Records: lits("u"+string(rune(sep))+"v", "w")},
		)
	}
	cases = append(cases,
		Case{Framing: "rawjson", Records: lits(`{}`, `[]`, `""`, `{"a":1}`)},
		Case{Framing: "rawjson", Records: lits(`"ab"`, ``, `[[]]`)},
		Case{Framing: "rawjson", Records: lits(`null`, `{}`, `null`)},
		Case{Framing: "rawjson", Records: lits(`[1,2]`, `{"k":"v"}`)},
		Case{Framing: "rawjson", Records: lits(`[1, 2]`, `{"k": 1}`)},
	)
	cases = append(cases, Case{Framing: "hdr", Records: lits("")})
	if env.Thorough() {
		cases = append(cases, Case{Framing: "strict", Records: lits("")}, Case{Framing: "hdr", Records: lits("x")}, Case{Framing: "strict", Records: lits("x")})
	}
	for i, c := range cases {
		if env.Mine(i) {
			c.AllCutSets = true
			if !yield(c) {
				return
			}
		}
	}
}

// header framings: every single cut and every pair of cuts of a two-record stream
func enumPairs(env engine.Env, yield func(Case) bool) {
	idx := 0
	for _, f := range []string{"hdr", "hdrbin", "hdrcaps", "hdrcolon", "strict", "stricttp", "strictcaps", "lsp"} {
		recs := []RecSpec{{Kind: "lit", Lit: engine.Bytes(`{"a":1}`)}, {Kind: "lit", Lit: nil}, {Kind: "lit", Lit: engine.Bytes("xy")}}
		// stream length is at most 3*(60+len(mime)) bytes
		n := 3*(len("Content-Type: application/vscode-jsonrpc; charset=utf-8\r\nContent-Length: 0\r\n\r\n")) + 9
		for a := 1; a < n; a++ {
			for b := a; b < n; b++ {
				idx++
				if !env.Mine(idx) {
					continue
				}
				c := Case{Framing: f, Records: recs, Cuts: []int{a, b}, EOFWithData: (a+b)%2 == 0}
				if !yield(c) {
					return
				}
			}
		}
	}
}

// multi-megabyte growing and shrinking sequences, including the path above the pre-allocation threshold
func enumHuge(env engine.Env, yield func(Case) bool) {
	seqs := [][]int{
		{1 << 20, 1<<20 + 1, 10, 3 << 20, 100, 5 << 20, 0, 70000, 1},
		{5 << 20, 1, 5 << 20, 1<<18 - 1, 2},
	}
	if env.Thorough() {
		seqs = append(seqs, []int{1<<24 - 1, 1 << 24, 1<<24 + 1, 5, 1<<24 + 4097, 0}, []int{20 << 20, 3, 20 << 20})
	}
	idx := 0
	for _, f := range []string{"hdr", "stricttp", "lsp", "line", "rawjson"} {
		for _, seq := range seqs {
			for _, mr := range []int{0, 4097, 65536} {
				idx++
				if !env.Mine(idx) {
					continue
				}
				c := Case{Framing: f, MaxRead: mr, EOFWithData: mr == 0}
				for i, n := range seq {
					kind := "fill"
					if f == "line" || f == "rawjson" {
						kind = "json"
					}
					c.Records = append(c.Records, RecSpec{Kind: kind, Size: n, Seed: i})
				}
				if !yield(c) {
					return
				}
			}
		}
	}
}

const ntRule = "non-trivial = at least two records and (a read boundary strictly inside a frame header / separating a terminator from its data, or consecutive record sizes on different sides of a buffer threshold 4096/1MiB/16MiB, or the final bytes delivered together with io.EOF), or a record containing the split byte; distinct = (framing, records, delivery)"

var parts = []engine.AnyPart{
	engine.Part[Case]{Name: "allcuts", Run: run, Enum: enumAllCuts,
		Rule:           "short record sequences per framing; EVERY cut set of the resulting stream (2^(len-1) sets, each with and without data+EOF) is executed inside one case; " + ntRule,
		EnumExhaustive: "all cut sets of the listed short streams (split/rawjson streams up to 12 bytes, header streams of one 0/1-byte record)"},
	engine.Part[Case]{Name: "pairs", Run: run, Enum: enumPairs,
		Rule:           "three-record streams on the five header framings; every single cut and every pair of cuts; " + ntRule,
		EnumExhaustive: "all one- and two-cut fragmentations of the three-record header streams"},
	engine.Part[Case]{Name: "huge", Run: run, Enum: enumHuge,
		Rule: "growing and shrinking multi-megabyte sequences (thorough: across the 16 MiB pre-allocation threshold); " + ntRule},
	engine.Part[Case]{Name: "random", Run: run, Gen: genCase(false),
		Rule: "0-12 records with sizes around 0/4096/65536, hostile short literals (some containing the split byte), random cuts / bounded reads / 1-byte reads; one sender in four keeps its records side by side in one buffer and sends sub-slices (the buffer must be unchanged after every Send); one receiver in four sends a record of its own after each Recv before it looks at the bytes it was given; " + ntRule},
	engine.Part[Case]{Name: "randombig", Run: run, Gen: genCase(true),
		Rule: "as random, with sizes up to 3 MiB; " + ntRule},
}

func TestProp(t *testing.T)   { engine.RunParts(t, "C11", parts) }
func TestReplay(t *testing.T) { engine.ReplayParts(t, "C11", parts) }
