package c11

import (
	"bytes"
	"fmt"
	"io"
	"testing"

	"verif/harness/engine"
)

// Duplex: a channel is used in both directions at once (one sender, one
// receiver - within the contract): while a large record is still arriving, the
// same channel sends small records.  The two directions share nothing a user
// can see, so the large record must arrive intact and so must the small ones.
type Duplex struct {
	Framing string `json:"framing"`
	Size    int    `json:"size"`     // size of the large inbound record
	PauseAt int    `json:"pause_at"` // offset into the inbound stream at which the outbound sends happen
	Sends   int    `json:"sends"`
	Last    bool   `json:"last,omitempty"` // the large record is the last one: the next Recv reports a clean end
}

// gatedReader delivers data[:pauseAt], then calls pause (once), then the rest.
type gatedReader struct {
	data    []byte
	off     int
	pauseAt int
	pause   func()
	paused  bool
}

func (g *gatedReader) Read(p []byte) (int, error) {
	if !g.paused && g.off >= g.pauseAt {
		g.paused = true
		g.pause()
	}
	if g.off >= len(g.data) {
		return 0, io.EOF
	}
	n := len(p)
	if n > 32768 {
		n = 32768
	}
	if !g.paused && g.off+n > g.pauseAt {
		n = g.pauseAt - g.off
	}
	if g.off+n > len(g.data) {
		n = len(g.data) - g.off
	}
	copy(p, g.data[g.off:g.off+n])
	g.off += n
	return n, nil
}

func runDuplex(_ *testing.T, d Duplex) engine.Verdict {
	fr, _, _ := framingOf(d.Framing)
	big := RecSpec{Kind: "fill", Size: d.Size, Seed: 7}.bytes()
	// the inbound stream, produced by the framing itself
	var in bufWC
	if err := fr(emptyReader{}, &in).Send(big); err != nil {
		return engine.Failf("C11/"+d.Framing+"/send-error", "Send of %d bytes: %v", len(big), err)
	}
	tail := []byte("tail")
	if !d.Last {
		if err := fr(emptyReader{}, &in).Send(tail); err != nil {
			return engine.Failf("C11/"+d.Framing+"/send-error", "Send: %v", err)
		}
	}
	var out bufWC
	var sent [][]byte
	var ch interface {
		Send([]byte) error
		Recv() ([]byte, error)
	}
	g := &gatedReader{data: in.Bytes(), pauseAt: d.PauseAt}
	g.pause = func() {
		// the receiver is in the middle of the large record: use the other direction
		for i := 0; i < d.Sends; i++ {
			rec := []byte(fmt.Sprintf(`{"jsonrpc":"2.0","id":%d,"method":"small","params":[%q]}`, i, bytes.Repeat([]byte{'s'}, 10+40*i)))
			sent = append(sent, rec)
			ch.Send(rec)
		}
	}
	ch = fr(g, &out)
	got, err := ch.Recv()
	if err != nil || !bytes.Equal(got, big) {
		at := 0
		for at < len(got) && at < len(big) && got[at] == big[at] {
			at++
		}
		return engine.Failf("C11/"+d.Framing+"/record-differs", "large record of %d bytes received while the channel sent %d small ones (at inbound offset %d): got %d bytes, err %v, first difference at byte %d", len(big), d.Sends, d.PauseAt, len(got), err, at)
	}
	if d.Last {
		if got2, err := ch.Recv(); err != io.EOF || len(got2) != 0 {
			return engine.Failf("C11/"+d.Framing+"/no-clean-eof", "the sender closed after a record of %d bytes: the next Recv returned (%s, %v), want (nil, io.EOF)", len(big), engine.Q(clip(got2)), err)
		}
	} else if got2, err := ch.Recv(); err != nil || !bytes.Equal(got2, tail) {
		return engine.Failf("C11/"+d.Framing+"/record-differs", "record after the large one: got %s, %v want %s", engine.Q(clip(got2)), err, engine.Q(tail))
	}
	// what went out must decode to exactly the small records
	rd := fr(bytes.NewReader(out.Bytes()), nopWC{})
	for i, want := range sent {
		g, err := rd.Recv()
		if err != nil || !bytes.Equal(g, want) {
			return engine.Failf("C11/"+d.Framing+"/record-differs", "outbound record #%d sent while a large record was arriving: the peer decodes %s, %v; want %s", i, engine.Q(clip(g)), err, engine.Q(want))
		}
	}
	return engine.Verdict{NonTrivial: true, Labels: []string{"duplex", "framing:" + d.Framing}}
}

type nopWC struct{}

func (nopWC) Write(p []byte) (int, error) { return len(p), nil }
func (nopWC) Close() error                { return nil }

func enumDuplex(env engine.Env, yield func(Duplex) bool) {
	sizes := []int{1<<24 + 7}
	if env.Thorough() {
		sizes = append(sizes, 1<<24, 1<<24+1, 1<<20, 1<<25+3)
	}
	idx := 0
	for _, f := range []string{"hdr", "stricttp", "lsp"} {
		for _, n := range sizes {
			for _, pause := range []int{10, 5000, n / 2, n - 1} {
				idx++
				if !env.Mine(idx) {
					continue
				}
				if !yield(Duplex{Framing: f, Size: n, PauseAt: pause, Sends: 1 + idx%3, Last: idx%2 == 0}) {
					return
				}
			}
		}
	}
}

func init() {
	parts = append(parts, engine.Part[Duplex]{Name: "duplex", Run: runDuplex, Enum: enumDuplex,
		Rule: "header framings used in both directions at once: while a record of 16 MiB and more is still arriving (paused inside its header, early and late in its body), the same channel sends 1-3 small records; the large record, the one after it and the small ones must all arrive byte for byte; every case is non-trivial; distinct = the case"})
}

// Twin: two channels made from one Framing value are independent: while one
// is in the middle of writing a record, the other sends one of its own.
type Twin struct {
	Framing string `json:"framing"`
	SizeA   int    `json:"size_a"`
	SizeB   int    `json:"size_b"`
}

// hookWriter calls hook once, inside its first Write, before it looks at the bytes.
type hookWriter struct {
	buf  bytes.Buffer
	hook func()
	done bool
}

func (h *hookWriter) Write(p []byte) (int, error) {
	if !h.done {
		h.done = true
		h.hook()
	}
	return h.buf.Write(p)
}
func (h *hookWriter) Close() error { return nil }

func runTwin(_ *testing.T, tw Twin) engine.Verdict {
	fr, _, _ := framingOf(tw.Framing)
	quoted := func(n int, c byte) []byte { // a JSON string of letters: legal on every framing
		b := bytes.Repeat([]byte{c}, n+2)
		b[0], b[len(b)-1] = '"', '"'
		return b
	}
	recA, recB := quoted(tw.SizeA, 'a'), quoted(tw.SizeB, 'B')
	var outB bufWC
	chB := fr(emptyReader{}, &outB)
	wa := &hookWriter{}
	var errB error
	wa.hook = func() { errB = chB.Send(recB) } // the other channel sends while this one is writing
	chA := fr(emptyReader{}, wa)
	if err := chA.Send(recA); err != nil || errB != nil {
		return engine.Failf("C11/"+tw.Framing+"/send-error", "Send: %v / %v", err, errB)
	}
	// Both peers decode; the first record is looked at again after the other
	// channel has received: a record handed out by Recv belongs to the caller
	// at least until the next Recv on the same channel.
	ra, rb := fr(bytes.NewReader(wa.buf.Bytes()), nopWC{}), fr(bytes.NewReader(outB.Bytes()), nopWC{})
	gotA, errA := ra.Recv()
	if errA != nil || !bytes.Equal(gotA, recA) {
		return engine.Failf("C11/"+tw.Framing+"/record-differs", "two channels made from one framing value, the second sends while the first is writing: the first channel's peer decodes %s (%v), want %s", engine.Q(clip(gotA)), errA, engine.Q(clip(recA)))
	}
	gotB, errB2 := rb.Recv()
	if errB2 != nil || !bytes.Equal(gotB, recB) {
		return engine.Failf("C11/"+tw.Framing+"/record-differs", "two channels made from one framing value, the second sends while the first is writing: the second channel's peer decodes %s (%v), want %s", engine.Q(clip(gotB)), errB2, engine.Q(clip(recB)))
	}
	if !bytes.Equal(gotA, recA) {
		return engine.Failf("C11/"+tw.Framing+"/record-differs", "the record one channel's Recv returned changed when another channel of the same framing received: it is now %s, was %s", engine.Q(clip(gotA)), engine.Q(clip(recA)))
	}
	return engine.Verdict{NonTrivial: true, Labels: []string{"twin", "framing:" + tw.Framing}}
}

func enumTwin(env engine.Env, yield func(Twin) bool) {
	idx := 0
	for _, f := range framingNames {
		if f == "direct" {
			continue
		}
		for _, a := range []int{2, 40, 5000} {
			for _, b := range []int{2, 41, 70000} {
				idx++
				if env.Mine(idx) && !yield(Twin{Framing: f, SizeA: a, SizeB: b}) {
					return
				}
			}
		}
	}
}

func init() {
	parts = append(parts, engine.Part[Twin]{Name: "twin", Run: runTwin, Enum: enumTwin,
		Rule:           "two channels made from the same Framing value (every stream framing): the second sends a record from inside the first one's transport Write; both peers must decode exactly the record sent to them; every case is non-trivial; distinct = the case",
		EnumExhaustive: "all framings x three record sizes on either side"})
}
