// Package c01 checks property C01: exactly one correlated response per call,
// none per notification; one outbound message per inbound message, in request
// order, only after all of its handlers have returned.
package c01

import (
	"fmt"
	"strings"
	"testing"

	"pgregory.net/rapid"

	"verif/harness/engine"
	"verif/harness/gen"
	"verif/harness/oracle"
	"verif/harness/sim"
)

var profile = gen.Profile{
	MinSteps: 3, MaxSteps: 24, Limits: []int{32, 32, 3, 2, 1}, // mostly far above the load; small limits so that a slot that is not given back starves later calls
	PNote: 25, PGate: 70, PInvalid: 14, PUnknown: 10, PBatch: 45, MaxBatch: 5, PTopInvalid: 4,
	PBurst: 35, Builtins: true, Pins: true, PLongWait: 2,
	AllowPush: true, PPush: 5, // half of the servers push-enabled: callbacks from outside and the peer's replies to them
	Outcomes:      []string{"ok", "ok", "err:-32000", "err:7", "bad", "baderr", "badraw", "emptyraw", "err:-32600", "err:-32700"},
	Chans:         []string{"direct", "pipe", "fragile"},
	PBaseDeadline: 0,
}

func genCase(t *rapid.T) sim.Scenario { return gen.ServerScenario(t, profile) }

// idreuse: the same profile over a small pool of ids that are used again and
// again after their calls were answered (with results, errors, unknown methods):
// a valid call whose id is free is run, whatever the id's past.
func genReuse(t *rapid.T) sim.Scenario {
	p := profile
	p.IDPool = []string{"1", "2", "3", `"a"`}
	p.PGate, p.PUnknown, p.PBurst, p.PNote = 45, 22, 20, 10
	p.PSendFault = 18 // ... also when the channel refused the reply: the call is over, its id free
	return gen.ServerScenario(t, p)
}

func run(t *testing.T, sc sim.Scenario) engine.Verdict {
	return oracle.RunServer(t, sc, []string{"C01/"}, func(f oracle.Facts) bool {
		return f.ParkedAcrossRecs || f.ExitOrderDiffers || f.BatchMixed
	})
}

func runDeadline(t *testing.T, sc sim.Scenario) engine.Verdict {
	v := oracle.RunServer(t, sc, []string{"C01/"}, func(f oracle.Facts) bool { return true })
	v.Labels = append(v.Labels, "base-deadline")
	return v
}

var parts = []engine.AnyPart{
	engine.Part[sim.Scenario]{Name: "deadline", Run: runDeadline, Gen: func(t *rapid.T) sim.Scenario { return gen.DeadlineScenario(t) },
		Rule: "structured scenarios on a server whose request contexts carry a 50ms deadline: slots filled with parked calls, further calls and notifications waiting for a slot or behind the barrier, the fake clock advanced past their deadline, fresh requests, slots given back; every later call must still get exactly one response; non-trivial by construction"},
	engine.Part[sim.Scenario]{Name: "scenarios", Run: run, Gen: genCase,
		Rule:        "rapid-generated scripts of 3-24 steps (inbound single/batch records mixing parking and immediate calls, notifications, unknown/reserved methods and 10 invalid shapes; releases in any order with result / error / unmarshalable outcomes; bursts of unsettled steps; hook delays from a generated salt and pins) run against a real Server in a synctest bubble and judged by the sequential model at every quiescent point; non-trivial = handlers of two records parked at once, or a batch whose handlers returned out of request order, or a batch mixing two of {call, notification, invalid}; distinct = hash of the whole scenario",
		Assumptions: []string{"interleavings are steered at the verifPoint sites, by bursts and by gated handlers; pre-emption inside a critical section is not explored"}},
}

// runReuse reports one clause only: with ids in constant reuse the model has
// to leave many races open, and what it then says about reply attribution is
// C07's business; what is C01's own is a valid call with a free id that is
// turned away without running.
func runReuse(t *testing.T, sc sim.Scenario) engine.Verdict {
	return oracle.RunServer(t, sc, []string{"C01/valid-call-turned-away"}, func(f oracle.Facts) bool {
		return f.ParkedAcrossRecs || f.ExitOrderDiffers || f.BatchMixed
	})
}

func init() {
	parts = append(parts, engine.Part[sim.Scenario]{Name: "idreuse", Run: runReuse, Gen: genReuse,
		Rule: "as scenarios, over a pool of four ids used again and again after their calls were answered with results, errors or method-not-found: a well-formed call whose id is free runs its handler exactly once and gets that handler's outcome (duplicates of ids still in flight are the subject of C07 and are not judged here); non-trivial as scenarios; distinct = hash of the scenario"})
}

// restart: "while a connection is up" holds for every connection of a Server,
// the second one after a stop and Start on a fresh channel included.
func genRestart(t *rapid.T) sim.Scenario { return gen.ShutdownScenario(t) }

func runRestart(t *testing.T, sc sim.Scenario) engine.Verdict {
	h := sim.Run(t, sc)
	if h.BubbleErr != "" {
		return engine.Verdict{Labels: []string{"other-clause:bubble-error"}} // judged by C08
	}
	probeSent, replies, faultLater := false, 0, false
	for _, e := range h.Events {
		switch {
		case e.Conn == 2 && e.Kind == "sent" && strings.Contains(e.Data, `"id":"probe"`) && e.Err == "":
			probeSent = true
		case e.Conn == 2 && e.Kind == "wire":
			replies += strings.Count(e.Data, `"id":"probe"`)
		case e.Conn == 2 && (e.Kind == "recvfault" || e.Kind == "sendfault"):
			faultLater = true
		}
	}
	if probeSent && !faultLater && replies != 1 {
		return engine.Failf("C01/call-on-second-connection", "the call with id \"probe\" sent on the second connection of the same Server got %d replies, want exactly 1\nscript:\n%s\nhistory:\n%s", replies, oracle.ScriptText(sc), oracle.HistoryText(h))
	}
	return engine.Verdict{NonTrivial: probeSent, Labels: []string{fmt.Sprintf("second-connection:%v", probeSent)}}
}

func init() {
	parts = append(parts, engine.Part[sim.Scenario]{Name: "restart", Run: runRestart, Gen: genRestart,
		Rule: "shutdown scripts (traffic, Stop / peer close / channel faults, WaitStatus, Start of the same Server on a fresh channel): the plain call sent first on the second connection gets exactly one reply (and the process survives: a panic raised in the library is reported with the journalled script); non-trivial = the script reached a second connection; distinct = hash of the scenario"})
}

func TestProp(t *testing.T)   { engine.RunParts(t, "C01", parts) }
func TestReplay(t *testing.T) { engine.ReplayParts(t, "C01", parts) }
