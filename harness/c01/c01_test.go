// Package c01 checks property C01: exactly one correlated response per call,
// none per notification; one outbound message per inbound message, in request
// order, only after all of its handlers have returned.
package c01

import (
	"testing"

	"pgregory.net/rapid"

	"verif/harness/engine"
	"verif/harness/gen"
	"verif/harness/oracle"
	"verif/harness/sim"
)

var profile = gen.Profile{
	MinSteps: 3, MaxSteps: 24, Limits: []int{32},
	PNote: 25, PGate: 70, PInvalid: 14, PUnknown: 10, PBatch: 45, MaxBatch: 5, PTopInvalid: 4,
	PBurst: 35, Builtins: true, Pins: true,
	AllowPush: true, PPush: 5, // half of the servers push-enabled: callbacks from outside and the peer's replies to them
	Outcomes:      []string{"ok", "ok", "err:-32000", "err:7", "bad", "baderr", "err:-32600", "err:-32700"},
	Chans:         []string{"direct", "pipe", "fragile"},
	PBaseDeadline: 0,
}

func genCase(t *rapid.T) sim.Scenario { return gen.ServerScenario(t, profile) }

func run(t *testing.T, sc sim.Scenario) engine.Verdict {
	return oracle.RunServer(t, sc, []string{"C01/"}, func(f oracle.Facts) bool {
		return f.ParkedAcrossRecs || f.ExitOrderDiffers || f.BatchMixed
	})
}

func runDeadline(t *testing.T, sc sim.Scenario) engine.Verdict {
	v := oracle.RunServer(t, sc, []string{"C01/"}, func(f oracle.Facts) bool { return true })
	v.Labels = append(v.Labels, "base-deadline")
	return v
}

var parts = []engine.AnyPart{
	engine.Part[sim.Scenario]{Name: "deadline", Run: runDeadline, Gen: func(t *rapid.T) sim.Scenario { return gen.DeadlineScenario(t) },
		Rule: "structured scenarios on a server whose request contexts carry a 50ms deadline: slots filled with parked calls, further calls and notifications waiting for a slot or behind the barrier, the fake clock advanced past their deadline, fresh requests, slots given back; every later call must still get exactly one response; non-trivial by construction"},
	engine.Part[sim.Scenario]{Name: "scenarios", Run: run, Gen: genCase,
		Rule:        "rapid-generated scripts of 3-24 steps (inbound single/batch records mixing parking and immediate calls, notifications, unknown/reserved methods and 10 invalid shapes; releases in any order with result / error / unmarshalable outcomes; bursts of unsettled steps; hook delays from a generated salt and pins) run against a real Server in a synctest bubble and judged by the sequential model at every quiescent point; non-trivial = handlers of two records parked at once, or a batch whose handlers returned out of request order, or a batch mixing two of {call, notification, invalid}; distinct = hash of the whole scenario",
		Assumptions: []string{"interleavings are steered at the verifPoint sites, by bursts and by gated handlers; pre-emption inside a critical section is not explored"}},
}

func TestProp(t *testing.T)   { engine.RunParts(t, "C01", parts) }
func TestReplay(t *testing.T) { engine.ReplayParts(t, "C01", parts) }
