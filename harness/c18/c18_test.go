// Package c18 checks property C18: the HTTP bridge gives each caller exactly
// its own responses with its own ids.
package c18

import (
	"encoding/json"
	"fmt"
	"mime"
	"strings"
	"testing"

	"pgregory.net/rapid"

	"verif/harness/engine"
	"verif/harness/ref/refjson"
	"verif/harness/ref/refrpc"
	"verif/harness/sim"
)

type expect struct {
	kind     string // token handlererr code info any
	id       string // id text the response must carry ("null" allowed)
	k        int
	codes    []int
	optional bool
}

func cfg() refrpc.Config {
	return refrpc.Config{Builtin: true, Resolve: func(m string) bool { return sim.Known[m] }}
}

func nonce(params []byte) int {
	var o struct {
		K *int `json:"k"`
	}
	if len(params) > 0 && params[0] == '{' && json.Unmarshal(params, &o) == nil && o.K != nil {
		return *o.K
	}
	return -1
}

func run(t *testing.T, sc sim.BScenario) engine.Verdict {
	h := sim.RunBridge(t, sc)
	if h.BubbleErr != "" {
		return engine.Failf("C18/stuck", "the scenario did not end cleanly: %s", h.BubbleErr)
	}
	rets := map[int][]sim.BEvent{}
	enters := map[int][]sim.BEvent{}
	exitRet = map[int]string{}
	for _, e := range h.Events {
		switch e.Kind {
		case "exit":
			exitRet[e.Inv] = e.Ret
		case "http-ret":
			rets[e.K] = append(rets[e.K], e)
		case "enter":
			enters[e.K] = append(enters[e.K], e)
		}
	}
	usedNonce := map[int]bool{}
	overlap, sharedID, mixed := false, false, false
	idUsers := map[string]int{}
	fail := func(st sim.BStep, sig, f string, a ...any) engine.Verdict {
		return engine.Failf("C18/"+sig, "HTTP request #%d (%s %q %s): %s\nscript:\n%s", st.K, st.Method, st.CType, st.Body, fmt.Sprintf(f, a...), script(sc))
	}
	var labels []string
	for _, st := range sc.Steps {
		if st.Op != "http" {
			continue
		}
		rs := rets[st.K]
		if len(rs) != 1 {
			return fail(st, "http-return-count", "ServeHTTP returned %d times", len(rs))
		}
		r := rs[0]
		method := st.Method
		if method == "" {
			method = "POST"
		}
		exp := refrpc.Classify(cfg(), st.Body)
		// nonces of this body, to make sure no handler ran for refused requests
		var bodyNonces []int
		for _, m := range exp.Members {
			if k := nonce(m.Params); k >= 0 {
				bodyNonces = append(bodyNonces, k)
			}
		}
		noHandlers := func(why string) *engine.Verdict {
			for _, k := range bodyNonces {
				if len(enters[k]) != 0 {
					v := fail(st, "handler-ran-for-refused-request", "%s, yet a handler ran for nonce %d", why, k)
					return &v
				}
			}
			return nil
		}
		if method == "GET" && sc.GetHook {
			labels = append(labels, "dontcare:get-goes-to-getter") // the Getter's rules are C19's
			continue
		}
		if method != "POST" {
			if r.Status != 405 {
				return fail(st, "status", "status %d, want 405 for method %s", r.Status, method)
			}
			if v := noHandlers("answered 405"); v != nil {
				return *v
			}
			labels = append(labels, "refused:405")
			continue
		}
		ct := st.CType
		if ct == "" {
			ct = "application/json"
		}
		if ct == "-" {
			ct = ""
		}
		mt, ps, _ := mime.ParseMediaType(ct)
		cs, hasCS := ps["charset"]
		switch {
		case mt != "application/json" || (hasCS && strings.ToLower(cs) != "utf-8" && strings.ToLower(cs) != "utf8"):
			if r.Status != 415 {
				return fail(st, "status", "status %d, want 415 for content type %q", r.Status, st.CType)
			}
			if v := noHandlers("answered 415"); v != nil {
				return *v
			}
			labels = append(labels, "refused:415")
			continue
		case hasCS && cs != "utf-8" && cs != "utf8":
			labels = append(labels, "dontcare:charset-case")
			continue
		}
		if exp.Top == "parse-error" {
			if r.Status < 400 || r.Status == 405 || r.Status == 415 {
				return fail(st, "status", "status %d for a body that is not valid JSON, want an error status", r.Status)
			}
			labels = append(labels, "refused:invalid-json")
			continue
		}
		if exp.Top == "empty-batch" {
			labels = append(labels, "dontcare:empty-array")
			continue
		}
		// expected response objects
		var exps []expect
		kinds := map[string]bool{}
		dontcare := false
		for _, m := range exp.Members {
			dupOnly := m.Class == refrpc.Invalid && len(m.Defects) == 1 && m.Defects[0] == "id duplicated within the record"
			isReq := (m.Class == refrpc.Call || m.Class == refrpc.Notification)
			if dupOnly {
				// structurally a valid request whose id also occurs elsewhere in this body
				one := refrpc.Classify(cfg(), m.Raw)
				if len(one.Members) == 1 {
					mm := one.Members[0]
					exps = append(exps, expect{kind: "any", id: mm.Echo})
					if k := nonce(mm.Params); k >= 0 {
						usedNonce[k] = true // may or may not have run
						delete(enters, k)
					}
				}
				dontcare = true
				continue
			}
			switch {
			case m.DontCare != "" || m.Class == refrpc.Neither || m.Class == refrpc.ReplyShaped:
				exps = append(exps, expect{kind: "any", id: m.Echo, optional: true})
				dontcare = true
				if k := nonce(m.Params); k >= 0 {
					delete(enters, k)
				}
				continue
			case m.Class == refrpc.NonObject || m.Class == refrpc.Invalid:
				exps = append(exps, expect{kind: "code", id: m.Echo, codes: []int{-32700, -32600}})
				kinds["invalid"] = true
				if k := nonce(m.Params); k >= 0 && len(enters[k]) != 0 {
					return fail(st, "handler-ran-for-invalid-member", "a handler ran for the statically invalid member %s", m.Raw)
				}
				continue
			}
			k := nonce(m.Params)
			if isReq && m.Handler {
				if k < 0 || len(enters[k]) != 1 {
					return fail(st, "handler-count", "member %s: %d handler invocations, want exactly 1", m.Raw, len(enters[k]))
				}
				usedNonce[k] = true
				en := enters[k][0]
				if en.Note != (m.Class == refrpc.Notification) || en.Method != m.Method {
					return fail(st, "handler-request", "member %s reached the handler as method %q notification=%v", m.Raw, en.Method, en.Note)
				}
			}
			if m.Class == refrpc.Notification {
				kinds["note"] = true
				continue
			}
			kinds["call"] = true
			idUsers[m.IDText]++
			switch m.Reply {
			case refrpc.HandlerReply:
				if m.Method == "err" {
					exps = append(exps, expect{kind: "handlererr", id: m.IDText, k: k})
				} else {
					exps = append(exps, expect{kind: "token", id: m.IDText, k: k})
				}
			case refrpc.InfoReply:
				exps = append(exps, expect{kind: "info", id: m.IDText})
			default:
				exps = append(exps, expect{kind: "code", id: m.IDText, codes: m.Codes})
			}
		}
		if len(kinds) >= 2 {
			mixed = true
		}
		// the body actually returned
		var items [][]byte
		switch r.Status {
		case 204:
			if strings.TrimSpace(r.Body) != "" {
				return fail(st, "204-with-body", "status 204 with body %q", r.Body)
			}
		case 200:
			if !refjson.Valid([]byte(r.Body)) {
				return fail(st, "body-not-json", "status 200 with body %q", r.Body)
			}
			var isArr bool
			var err error
			items, isArr, err = refrpc.SplitReply([]byte(r.Body))
			if err != nil {
				return fail(st, "body-shape", "body %q: %v", r.Body, err)
			}
			if (len(items) == 1) == isArr {
				return fail(st, "body-shape", "%d response object(s) returned as array=%v: %s", len(items), isArr, r.Body)
			}
		default:
			return fail(st, "status", "status %d body %q, want 200 or 204", r.Status, r.Body)
		}
		// match response objects with expectations (multiset)
		used := make([]bool, len(exps))
		for _, it := range items {
			rsp, err := refrpc.ParseResponse(it)
			if err != nil {
				return fail(st, "malformed-response", "response object %s: %v", it, err)
			}
			found := false
			for pass := 0; pass < 2 && !found; pass++ {
				for i, e := range exps {
					if used[i] || (pass == 0 && e.kind == "any") {
						continue
					}
					if matches(e, rsp, enters) {
						used[i], found = true, true
						break
					}
				}
			}
			if !found {
				return fail(st, "foreign-or-wrong-response", "response object %s answers nothing this caller sent (expected: %s); body %s", it, describe(exps, used), r.Body)
			}
		}
		for i, e := range exps {
			if !used[i] && !e.optional {
				return fail(st, "response-missing", "no response for %s; body %s (status %d)", describe(exps[i:i+1], nil), r.Body, r.Status)
			}
		}
		if !dontcare {
			if (len(exps) == 0) != (r.Status == 204) {
				return fail(st, "status", "status %d with %d expected response objects", r.Status, len(exps))
			}
		}
		if dontcare {
			labels = append(labels, "dontcare-member")
		}
	}
	// no handler invocation that no request accounts for
	for k, es := range enters {
		if !usedNonce[k] && len(es) > 0 {
			return engine.Failf("C18/handler-for-nothing", "a handler ran for nonce %d which no valid request accounts for\nscript:\n%s", k, script(sc))
		}
	}
	// overlap: two HTTP requests in progress at once
	open := 0
	for _, e := range h.Events {
		switch e.Kind {
		case "http-start":
			open++
			if open >= 2 {
				overlap = true
			}
		case "http-ret":
			open--
		}
	}
	for _, n := range idUsers {
		if n >= 2 {
			sharedID = true
		}
	}
	v := engine.Verdict{NonTrivial: (overlap && sharedID) || mixed, Labels: labels}
	if overlap {
		v.Labels = append(v.Labels, "requests-overlap")
	}
	if sharedID {
		v.Labels = append(v.Labels, "ids-collide")
	}
	if mixed {
		v.Labels = append(v.Labels, "batch-mixed")
	}
	return v
}

var exitRet map[int]string

func matches(e expect, r refrpc.Response, enters map[int][]sim.BEvent) bool {
	if e.id != r.ID { // the caller's original id TEXT
		return false
	}
	switch e.kind {
	case "any":
		return true
	case "code":
		if !r.IsError {
			return false
		}
		for _, c := range e.codes {
			if r.Code == c {
				return true
			}
		}
		return false
	case "info":
		return !r.IsError && strings.Contains(string(r.Result), `"methods"`) || (!r.IsError && strings.Contains(string(r.Result), `"metrics"`))
	case "token", "handlererr":
		es := enters[e.k]
		if len(es) != 1 {
			return false
		}
		ret := exitRet[es[0].Inv]
		var tok sim.Token
		if ret == "baderr" {
			return r.IsError && r.Code == 7
		}
		if strings.HasPrefix(ret, "err:") {
			var code int
			fmt.Sscanf(ret[4:], "%d", &code)
			return r.IsError && r.Code == code && json.Unmarshal(r.Data, &tok) == nil && tok.K == e.k && tok.Inv == es[0].Inv
		}
		return !r.IsError && json.Unmarshal(r.Result, &tok) == nil && tok.K == e.k && tok.Inv == es[0].Inv
	}
	return false
}

func describe(exps []expect, used []bool) string {
	var xs []string
	for i, e := range exps {
		if used != nil && used[i] {
			continue
		}
		xs = append(xs, fmt.Sprintf("{%s id=%s k=%d codes=%v}", e.kind, e.id, e.k, e.codes))
	}
	return strings.Join(xs, " ")
}

func script(sc sim.BScenario) string {
	var sb strings.Builder
	fmt.Fprintf(&sb, "  concurrency=%d salt=%d pins=%v nohooks=%v\n", sc.Concurrency, sc.Salt, sc.Pins, sc.NoHooks)
	for i, s := range sc.Steps {
		fmt.Fprintf(&sb, "  %2d %s\n", i, s)
	}
	return sb.String()
}

var invalidShapes = []string{
	`{"jsonrpc":"1.0",%s"method":"ret"}`,
	`{%s"method":"ret"}`,
	`{"jsonrpc":"2.0",%s"method":"ret","params":5}`,
	`{"jsonrpc":"2.0",%s"method":7}`,
	`{"jsonrpc":"2.0",%s"method":"ret","extra":true}`,
	`{"jsonrpc":"2.0",%s"method":"ret","result":1}`,
	`17`, `"str"`, `null`,
	`{"jsonrpc":"2.0",%s"method":""}`,
	`{"jsonrpc":"2.0",%s"result":3}`,
}

func genScenario(t *rapid.T) sim.BScenario {
	sc := sim.BScenario{Concurrency: rapid.SampledFrom([]int{0, 1, 2, 8}).Draw(t, "limit"), Salt: rapid.Uint64().Draw(t, "salt")}
	sc.AllowPush = rapid.IntRange(0, 2).Draw(t, "push") == 0
	sc.GetHook = rapid.IntRange(0, 2).Draw(t, "gethook") == 0
	if rapid.IntRange(0, 9).Draw(t, "nohooks") == 0 {
		sc.NoHooks = true
	}
	if rapid.IntRange(0, 2).Draw(t, "pins") == 0 {
		sc.Pins = append(sc.Pins, sim.Pin{Site: rapid.SampledFrom([]string{"cli.send.lock", "cli.deliver.lock", "srv.deliver.lock", "srv.read.recv", "cli.wait.lock", "srv.dispatch.run"}).Draw(t, "site"), Delay: rapid.SampledFrom([]int{1, 50, 9000}).Draw(t, "delay")})
	}
	ids := []string{"1", "1", "1", `"1"`, "7", "1.5", `"x"`, "0", "-0", `""`, "12345678901234567890", "1e2", `"50%"`, `"%s"`, `"a%db%v"`}
	nreq := rapid.IntRange(1, 6).Draw(t, "nreq")
	k := 0
	var pending []int
	for r := 1; r <= nreq; r++ {
		st := sim.BStep{Op: "http", K: r, Chunked: rapid.IntRange(0, 5).Draw(t, "chunked") == 0}
		switch rapid.IntRange(0, 19).Draw(t, "reqkind") {
		case 0:
			st.Method = rapid.SampledFrom([]string{"GET", "PUT", "DELETE"}).Draw(t, "method")
		case 1:
			st.CType = rapid.SampledFrom([]string{"text/plain", "-", "application/json; charset=iso-8859-1", "application/xml", "application/json; charset=UTF-8",
				"application/json; Charset=iso-8859-1", "application/json; CHARSET=utf-16", "application/json; profile=rpc; charset=utf-16", "application/json ;charset=latin1",
				`application/json; charset="iso-8859-1"`, "application/jsonx", "application/json+x; charset=utf-8"}).Draw(t, "ctype")
		case 2:
			st.CType = rapid.SampledFrom([]string{"application/json; charset=utf-8", "application/json;charset=utf8", "Application/JSON", "application/json; profile=x; charset=utf-8", "application/json; Charset=utf-8", `application/json; charset="utf-8"`}).Draw(t, "okctype")
		case 3:
			st.Body = engine.Bytes(rapid.SampledFrom([]string{`{`, ``, `[1,`, `nul`, `{"jsonrpc":"2.0","id":1,"method":"ret"}}`}).Draw(t, "badjson"))
			sc.Steps = append(sc.Steps, st)
			continue
		}
		nm := 1
		batch := rapid.IntRange(0, 2).Draw(t, "batch") == 0
		if batch {
			nm = rapid.IntRange(1, 5).Draw(t, "nmembers")
		}
		var ms []string
		for i := 0; i < nm; i++ {
			roll := rapid.IntRange(0, 99).Draw(t, "mk")
			switch {
			case roll < 15:
				shape := rapid.SampledFrom(invalidShapes).Draw(t, "shape")
				if strings.Contains(shape, "%s") {
					idp := ""
					if rapid.Bool().Draw(t, "withid") {
						idp = `"id":` + rapid.SampledFrom(ids).Draw(t, "iid") + `,`
					}
					shape = fmt.Sprintf(shape, idp)
				}
				ms = append(ms, shape)
			case roll < 25:
				// (names nobody serves, some with characters that JSON writes as escapes:
				// the bridge passes them on to its server and brings back -32601)
				m := rapid.SampledFrom([]string{"nope", "rpc.x", "rpc.serverInfo", "Ret", "a\ab", "\x7f", "\x00x", "\U000E0001", "é\n\v"}).Draw(t, "um")
				mb, _ := json.Marshal(m)
				if rapid.IntRange(0, 3).Draw(t, "unote") == 0 {
					ms = append(ms, fmt.Sprintf(`{"jsonrpc":"2.0","method":%s}`, mb))
				} else {
					ms = append(ms, fmt.Sprintf(`{"jsonrpc":"2.0","id":%s,"method":%s}`, rapid.SampledFrom(ids).Draw(t, "uid"), mb))
				}
			default:
				k++
				method := rapid.SampledFrom([]string{"gate", "gate", "ret", "err", "rpcret"}).Draw(t, "method")
				params := fmt.Sprintf(`{"k":%d}`, k)
				if method == "err" {
					params = fmt.Sprintf(`{"k":%d,"c":%d}`, k, rapid.SampledFrom([]int{-32000, 7, -32601}).Draw(t, "code"))
				}
				if method == "gate" {
					pending = append(pending, k)
				}
				if rapid.IntRange(0, 4).Draw(t, "note") == 0 {
					idp := ""
					if rapid.Bool().Draw(t, "nullid") {
						idp = `"id":null,`
					}
					ms = append(ms, fmt.Sprintf(`{"jsonrpc":"2.0",%s"method":%q,"params":%s}`, idp, method, params))
				} else {
					ms = append(ms, fmt.Sprintf(`{"jsonrpc":"2.0","id":%s,"method":%q,"params":%s}`, rapid.SampledFrom(ids).Draw(t, "cid"), method, params))
				}
			}
		}
		if batch {
			// (white space in front of the array, a carriage return included, changes nothing)
			st.Body = engine.Bytes(rapid.SampledFrom([]string{"", "", "", "\r\n", " \r", "\n\t "}).Draw(t, "leadws") + "[" + strings.Join(ms, ",") + "]")
		} else {
			st.Body = engine.Bytes(ms[0])
		}
		st.Burst = rapid.IntRange(0, 9).Draw(t, "burst") < 6
		sc.Steps = append(sc.Steps, st)
		// sometimes release something in between
		for len(pending) > 0 && rapid.IntRange(0, 2).Draw(t, "rel") == 0 {
			j := rapid.IntRange(0, len(pending)-1).Draw(t, "which")
			sc.Steps = append(sc.Steps, sim.BStep{Op: "release", K: pending[j], Out: rapid.SampledFrom([]string{"ok", "ok", "err:-32000", "baderr"}).Draw(t, "out"), Burst: rapid.Bool().Draw(t, "rburst")})
			pending = append(pending[:j:j], pending[j+1:]...)
		}
	}
	for len(pending) > 0 {
		j := rapid.IntRange(0, len(pending)-1).Draw(t, "which")
		sc.Steps = append(sc.Steps, sim.BStep{Op: "release", K: pending[j], Out: "ok", Burst: rapid.Bool().Draw(t, "rburst")})
		pending = append(pending[:j:j], pending[j+1:]...)
	}
	sc.Steps[len(sc.Steps)-1].Burst = false
	return sc
}

var parts = []engine.AnyPart{
	engine.Part[sim.BScenario]{Name: "scenarios", Run: run, Gen: genScenario,
		Rule: "1-6 concurrent HTTP requests driven in-process (Bridge.ServeHTTP with httptest recorders inside a bubble) against one bridge with gated handlers, bodies single / batch of 1-5 mixing calls, notifications, 11 statically invalid shapes and unknown methods, ids colliding across callers (everyone uses 1) and exotic id texts, also non-POST methods, 8 content types and non-JSON bodies; per request the status, the body shape and the multiset of response objects (own id TEXT, token of the invocation that received this caller's params) are checked, and the handler log; non-trivial = at least two requests overlapping in time with a shared id, or a batch mixing two member kinds; distinct = hash of the scenario"},
}

func TestProp(t *testing.T)   { engine.RunParts(t, "C18", parts) }
func TestReplay(t *testing.T) { engine.ReplayParts(t, "C18", parts) }
