// Package c08 checks property C08: clean, crash-free, restartable shutdown
// for every stop cause and timing.
package c08

import (
	"fmt"
	"strings"
	"testing"

	"pgregory.net/rapid"

	"verif/harness/engine"
	"verif/harness/gen"
	"verif/harness/oracle"
	"verif/harness/sim"
)

// Case is a scenario; with Enumerate set, the scenario is first run without
// faults to count its channel operations and then once per (operation, fault kind).
type Case struct {
	Scenario  sim.Scenario `json:"scenario"`
	Enumerate bool         `json:"enumerate,omitempty"`
}

func genCase(t *rapid.T) Case { return Case{Scenario: gen.ShutdownScenario(t)} }

func genEnum(t *rapid.T) Case {
	sc := gen.ShutdownScenario(t)
	sc.Cfg.Faults = nil
	if len(sc.Steps) > 14 {
		sc.Steps = sc.Steps[:14]
		sc.Steps[13].Burst = false
	}
	return Case{Scenario: sc, Enumerate: true}
}

func judge(t *testing.T, sc sim.Scenario) (engine.Verdict, *sim.History) {
	h := sim.Run(t, sc)
	probs := oracle.ShutdownCheck(sc, h)
	for _, o := range h.Overlaps {
		probs = append(probs, oracle.Problem{Sig: "C10/channel-contract", Msg: o})
	}
	for _, p := range probs {
		if strings.HasPrefix(p.Sig, "C08/") {
			return engine.Failf(p.Sig, "%s\nscript:\n%s\nhistory:\n%s", p.Msg, oracle.ScriptText(sc), oracle.HistoryText(h)), h
		}
	}
	// classification
	parkedAtStop, queuedAtStop, afterStop, raced := false, false, false, false
	stopSeq := -1
	for _, e := range h.Events {
		if (e.Kind == "stop" || e.Kind == "peerclose" || e.Kind == "recvfault") && e.Flag != "epilogue" && stopSeq < 0 {
			stopSeq = e.Seq
		}
	}
	var lastSnap *sim.Snapshot
	for _, e := range h.Events {
		if e.Kind == "quiesce" && (stopSeq < 0 || e.Seq < stopSeq) {
			lastSnap = e.Snap
		}
		if e.Kind == "sending" && stopSeq >= 0 && e.Seq > stopSeq && e.Conn == 1 {
			afterStop = true
		}
	}
	if lastSnap != nil && stopSeq >= 0 {
		parkedAtStop = len(lastSnap.Parked) > 0
		queuedAtStop = lastSnap.Queued > 0
	}
	for i, s := range sc.Steps {
		if (s.Op == "stop" || s.Op == "peerclose") && (s.Burst || (i > 0 && sc.Steps[i-1].Burst)) {
			raced = true
		}
	}
	v := engine.Verdict{NonTrivial: stopSeq >= 0 && (parkedAtStop || queuedAtStop || afterStop || raced)}
	lab := func(b bool, s string) {
		if b {
			v.Labels = append(v.Labels, s)
		}
	}
	lab(parkedAtStop, "handler-parked-at-stop")
	lab(queuedAtStop, "records-queued-at-stop")
	lab(afterStop, "record-after-stop")
	lab(raced, "stop-raced")
	lab(len(sc.Cfg.Faults) > 0, "fault-injected")
	lab(sc.Cfg.Chan == "pipe", "close-unblocks-recv")
	for _, s := range sc.Steps {
		if s.Op == "restart" {
			lab(true, "restart")
			break
		}
	}
	for _, e := range h.Events {
		if e.Kind == "status" {
			v.Labels = append(v.Labels, "status:"+e.Flag+"/"+e.Err)
		}
	}
	return v, h
}

func run(t *testing.T, c Case) engine.Verdict {
	v, h := judge(t, c.Scenario)
	if v.Fail || !c.Enumerate {
		return v
	}
	// Fault enumeration: every channel operation index x every fault kind.
	nRecv, nSend := 0, 0
	for _, e := range h.Events {
		if e.Kind == "sent" && e.Conn == 1 {
			nRecv++
		}
	}
	nSend = len(h.SrvSent)
	runs := int64(1)
	for at := 1; at <= nRecv+1; at++ {
		for _, kind := range []string{"err", "data+eof", "data+err"} {
			sc := c.Scenario
			sc.Cfg.Faults = []sim.Fault{{Op: "recv", At: at, Kind: kind}}
			fv, _ := judge(t, sc)
			runs++
			if fv.Fail {
				fv.Msg = fmt.Sprintf("with fault recv#%d %s: %s", at, kind, fv.Msg)
				return fv
			}
		}
	}
	for at := 1; at <= nSend+1; at++ {
		sc := c.Scenario
		sc.Cfg.Faults = []sim.Fault{{Op: "send", At: at, Kind: "err"}}
		fv, _ := judge(t, sc)
		runs++
		if fv.Fail {
			fv.Msg = fmt.Sprintf("with fault send#%d: %s", at, fv.Msg)
			return fv
		}
	}
	v.NonTrivial = true
	v.Labels = append(v.Labels, "fault-enumeration")
	v.Counts = map[string]int64{"fault_positions_executed": runs}
	return v
}

// pushrestart: the restart half of C08 under push traffic - callbacks left
// outstanding by the old connection while the same Server already runs on a
// fresh channel and issues new ones.
func genPushRestart(t *rapid.T) Case { return Case{Scenario: gen.PushRestartScenario(t)} }

func runPushRestart(t *testing.T, c Case) engine.Verdict {
	h := sim.Run(t, c.Scenario)
	if h.BubbleErr != "" {
		return engine.Failf("C08/goroutines-left-or-deadlock", "%s\nscript:\n%s\nhistory:\n%s", h.BubbleErr, oracle.ScriptText(c.Scenario), oracle.HistoryText(h))
	}
	for _, p := range oracle.ShutdownCheck(c.Scenario, h) {
		if strings.HasPrefix(p.Sig, "C08/") {
			return engine.Failf(p.Sig, "%s\nscript:\n%s\nhistory:\n%s", p.Msg, oracle.ScriptText(c.Scenario), oracle.HistoryText(h))
		}
	}
	restarts, probeOK := 0, false
	for _, e := range h.Events {
		if e.Kind == "restart" {
			restarts++
		}
		if e.Kind == "wire" && e.Conn > 1 {
			probeOK = true
		}
	}
	return engine.Verdict{NonTrivial: restarts > 0, Labels: []string{fmt.Sprintf("restarts:%d", restarts), fmt.Sprintf("second-connection-spoke:%v", probeOK)}}
}

// deadlines: requests whose contexts (ServerOptions.NewContext) expire while
// they wait for a slot or behind the barrier - whatever that does to them, the
// server must still wind down: every handler returns, WaitStatus returns.
func genDeadlines(t *rapid.T) Case { return Case{Scenario: gen.DeadlineScenario(t)} }

func runDeadlines(t *testing.T, c Case) engine.Verdict {
	h := sim.Run(t, c.Scenario)
	// (only termination is judged: a notification whose own deadline passed
	// while it waited for a slot is legitimately never handed to its handler,
	// which the shutdown predicates of the other parts would call a loss)
	if h.BubbleErr != "" {
		return engine.Failf("C08/goroutines-left-or-deadlock", "%s\nscript:\n%s\nhistory:\n%s", h.BubbleErr, oracle.ScriptText(c.Scenario), oracle.HistoryText(h))
	}
	return engine.Verdict{NonTrivial: true, Labels: []string{"base-deadline"}}
}

const rule = "non-trivial = the stop happens with at least one handler parked or one record queued, or a record arrives after the stop, or the stop step races with its neighbours in a burst; distinct = hash of the scenario"

var parts = []engine.AnyPart{
	engine.Part[Case]{Name: "scenarios", Run: run, Gen: genCase,
		Rule: "rapid-generated traffic (valid, invalid, notification-shaped invalid, reply-shaped records, pushes, cancels) with one or two stop causes (Stop, peer close) at any position and optionally an injected Recv/Send fault, records after the stop on channels whose Close does / does not unblock Recv, WaitStatus, restart on a fresh channel with a probe call; " + rule},
	engine.Part[Case]{Name: "faults", Run: run, Gen: genEnum,
		Rule: "fault enumeration: each generated fault-free scenario (at most 14 steps) is re-run once for EVERY Recv index x {(nil,err), (data,EOF), (data,err)} and EVERY Send index x {err}; the whole enumeration of one scenario is one case; " + rule},
	engine.Part[Case]{Name: "deadlines", Run: runDeadlines, Gen: genDeadlines,
		Rule: "the structured deadline scripts of C01/C06 (request contexts with a 50ms deadline from ServerOptions.NewContext, slots filled with parked calls, calls and notifications waiting for a slot or behind the barrier while the fake clock passes their deadline, fresh requests, slots given back) followed by the end of the connection: the bubble ends with every goroutine gone (WaitStatus returns, no handler or dispatcher is left waiting); non-trivial by construction; distinct = hash of the scenario"},
	engine.Part[Case]{Name: "pushrestart", Run: runPushRestart, Gen: genPushRestart,
		Rule: "push scripts that open with 1-4 callbacks from outside (cancellable, deadline and Background contexts) left outstanding, Stop or peer close, WaitStatus and Start of the same Server on a fresh channel within the same step (often with the old callbacks' watchers delayed by a pin), then 1-3 new callbacks and ordinary push traffic, replies, stops: the bubble must end with every goroutine gone (a callback or handler of the second connection that never returns is a deadlock); non-trivial = the server was restarted at least once; distinct = hash of the scenario"},
}

func TestProp(t *testing.T)   { engine.RunParts(t, "C08", parts) }
func TestReplay(t *testing.T) { engine.ReplayParts(t, "C08", parts) }
