package oracle

import (
	"encoding/json"
	"fmt"

	"verif/harness/ref/refjson"
	"verif/harness/sim"
)

// BarrierSafety judges the safety half of C03 on any server history, also one
// with stops and restarts: if a notification that was run belongs to an earlier
// inbound record than some other request that was run, the notification's
// handler returned before the other handler was invoked.  Records are ordered
// by the peer's (single) writer; members are identified by the nonce in their
// parameters; members of one record may overlap.
func BarrierSafety(sc sim.Scenario, h *sim.History) []Problem {
	type mem struct {
		rec  int
		note bool
	}
	byK := map[int]mem{}
	rec := 0
	for _, e := range h.Events {
		if e.Kind != "sending" {
			continue
		}
		rec++
		var items [][]byte
		if es, ok := refjson.Elements([]byte(e.Data)); ok {
			items = es
		} else if refjson.Valid([]byte(e.Data)) {
			items = [][]byte{[]byte(e.Data)}
		}
		for _, it := range items {
			var m struct {
				ID     json.RawMessage `json:"id"`
				Method *string         `json:"method"`
				Params json.RawMessage `json:"params"`
				Result json.RawMessage `json:"result"`
				Error  json.RawMessage `json:"error"`
			}
			if json.Unmarshal(it, &m) != nil || m.Method == nil || len(m.Result) != 0 || len(m.Error) != 0 {
				continue
			}
			k := nonceOf(m.Params)
			if k < 0 {
				continue
			}
			if _, dup := byK[k]; dup {
				byK[k] = mem{rec: -1} // a nonce used twice identifies nothing
				continue
			}
			byK[k] = mem{rec: rec, note: len(m.ID) == 0 || string(m.ID) == "null"}
		}
	}
	type span struct{ enter, exit int }
	spans := map[int]*span{}
	var order []int
	for _, e := range h.Events {
		switch e.Kind {
		case "enter":
			if spans[e.K] == nil {
				spans[e.K] = &span{enter: e.Seq, exit: -1}
				order = append(order, e.K)
			} else {
				spans[e.K] = &span{enter: -2} // ran twice: not judged here
			}
		case "exit":
			if s := spans[e.K]; s != nil && s.enter >= 0 && s.exit < 0 {
				s.exit = e.Seq
			}
		}
	}
	var probs []Problem
	for _, kb := range order {
		b, sb := byK[kb], spans[kb]
		if b.rec <= 0 || sb.enter < 0 {
			continue
		}
		for _, ka := range order {
			a, sa := byK[ka], spans[ka]
			if !a.note || a.rec <= 0 || a.rec >= b.rec || sa.enter < 0 {
				continue
			}
			if sa.exit < 0 || sa.exit > sb.enter {
				probs = append(probs, Problem{Sig: "C03/started-before-earlier-notification-finished",
					Msg: fmt.Sprintf("request nonce %d (inbound record %d) was invoked at #%d while notification nonce %d of the earlier record %d (entered #%d) had not returned (returned #%d)", kb, b.rec, sb.enter, ka, a.rec, sa.enter, sa.exit)})
				return probs
			}
		}
	}
	return probs
}

// LimitSafety judges the first clause of C06 on any server history, also one
// with stops and restarts: going through the handler log, the number of
// handlers that have entered and not yet exited never exceeds the Concurrency
// option.  (A handler logs its exit before its slot is given back, so the log
// can only under-count.)
func LimitSafety(sc sim.Scenario, h *sim.History) []Problem {
	limit := sc.Cfg.Concurrency
	if limit <= 0 {
		return nil
	}
	running := map[int]bool{}
	for _, e := range h.Events {
		switch e.Kind {
		case "enter":
			running[e.Inv] = true
			if len(running) > limit {
				return []Problem{{Sig: "C06/limit-exceeded", Msg: fmt.Sprintf("at #%d (handler nonce %d enters) %d handlers are executing, the limit is %d", e.Seq, e.K, len(running), limit)}}
			}
		case "exit":
			delete(running, e.Inv)
		}
	}
	return nil
}
