package oracle

import (
	"fmt"
	"strings"

	"verif/harness/ref/refrpc"
	"verif/harness/sim"
)

// ShutdownCheck judges a scenario that ends its server by Stop, peer close or
// an injected channel failure (property C08).
func ShutdownCheck(sc sim.Scenario, h *sim.History) []Problem {
	var probs []Problem
	add := func(sig, f string, a ...any) { probs = append(probs, Problem{Sig: sig, Msg: fmt.Sprintf(f, a...)}) }
	cfg := refrpc.Config{AllowPush: sc.Cfg.AllowPush, Builtin: !sc.Cfg.DisableBuiltin, Resolve: func(m string) bool { return sim.Known[m] }}

	if h.BubbleErr != "" {
		add("C08/goroutines-left-or-deadlock", "%s", h.BubbleErr)
	}
	if h.Active1 != h.Active0 {
		add("C08/servers-active-gauge", "servers_active went from %d to %d over the scenario", h.Active0, h.Active1)
	}
	type cause struct {
		kind string
		seq  int
		step int
	}
	type connInfo struct {
		causes      []cause
		status      *sim.Event
		enters      map[int]sim.Event // by inv
		exits       map[int]sim.Event
		ctxdone     map[int]sim.Event
		lastQBefore int // seq of the last quiescent point before the first cause
	}
	conns := map[int]*connInfo{}
	get := func(c int) *connInfo {
		if conns[c] == nil {
			conns[c] = &connInfo{enters: map[int]sim.Event{}, exits: map[int]sim.Event{}, ctxdone: map[int]sim.Event{}, lastQBefore: -1}
		}
		return conns[c]
	}
	lastQ := -1
	var lastSnap *sim.Snapshot
	for _, e := range h.Events {
		ci := get(e.Conn)
		switch e.Kind {
		case "quiesce":
			lastQ = e.Seq
			lastSnap = e.Snap
		case "stop", "peerclose":
			if len(ci.causes) == 0 {
				ci.lastQBefore = lastQ
			}
			ci.causes = append(ci.causes, cause{e.Kind, e.Seq, e.Step})
		case "recvfault":
			if e.Err != "" && e.Err != "EOF" {
				if len(ci.causes) == 0 {
					ci.lastQBefore = lastQ
				}
				kind := "fault"
				if strings.Contains(e.Err, "closed") {
					// Recv reporting that the channel / connection was closed is how a
					// hang-up looks on many transports: the server ends as for a peer close
					kind = "peerclose"
				}
				ci.causes = append(ci.causes, cause{kind, e.Seq, e.Step})
			}
		case "status":
			ev := e
			ci.status = &ev
		case "enter":
			ci.enters[e.Inv] = e
		case "exit":
			ci.exits[e.Inv] = e
		case "ctxdone":
			ci.ctxdone[e.Inv] = e
		case "waitstatus-blocked":
			add("C08/waitstatus-blocked", "WaitStatus (connection %d) did not return although the peer closed, every handler was released and every pending push was cancelled", e.Conn)
		}
	}
	burstOf := func(step int) (lo, hi int) {
		lo, hi = step, step
		for lo > 0 && lo-1 < len(sc.Steps) && sc.Steps[lo-1].Burst {
			lo--
		}
		for hi < len(sc.Steps) && sc.Steps[hi].Burst {
			hi++
		}
		return
	}
	for c, ci := range conns {
		if c == 0 {
			continue
		}
		st := ci.status
		if st == nil {
			continue
		}
		// handlers: every one that entered has returned before WaitStatus did
		for inv, en := range ci.enters {
			ex, ok := ci.exits[inv]
			if !ok || ex.Seq > st.Seq {
				add("C08/waitstatus-before-handler-returned", "WaitStatus (connection %d) returned at #%d while handler nonce %d (inv %d) had not returned", c, st.Seq, en.K, inv)
			}
		}
		if st.Flag == "stoppedclosed" {
			add("C08/two-status-flags", "status has both Stopped and Closed set")
		}
		if len(ci.causes) == 0 {
			add("C08/status-without-cause", "connection %d ended with status %q/%q but nothing ended it", c, st.Flag, st.Err)
			continue
		}
		// admissible first causes: those in the burst window of the earliest one
		first := ci.causes[0]
		_, hi := burstOf(first.step)
		adm := map[string]bool{}
		for _, cz := range ci.causes {
			if cz.step <= hi || cz.seq <= first.seq {
				adm[cz.kind] = true
			}
		}
		got := ""
		switch {
		case st.Flag == "stopped" && st.Err == "":
			got = "stop"
		case st.Flag == "closed" && st.Err == "":
			got = "peerclose"
		case st.Flag == "" && strings.Contains(st.Err, "injected"):
			got = "fault"
		}
		if !adm[got] {
			add("C08/wrong-status", "connection %d: status is flags=%q err=%q, but the first stop cause was %v (admissible: %v)", c, st.Flag, st.Err, first.kind, keys(adm))
		}
	}
	// call handlers still parked at a quiescent point at which the server has
	// stopped must have seen their contexts cancelled
	{
		enterByK := map[int]sim.Event{}
		ctxSeen := map[int]bool{}
		for _, e := range h.Events {
			switch e.Kind {
			case "enter":
				enterByK[e.K] = e
				if e.Err != "" {
					ctxSeen[e.Inv] = true
				}
			case "ctxdone":
				ctxSeen[e.Inv] = true
			case "quiesce":
				if e.Snap == nil || e.Snap.Running {
					continue
				}
				for _, k := range e.Snap.Parked {
					en, ok := enterByK[k]
					if !ok || en.Note || ctxSeen[en.Inv] {
						continue
					}
					add("C08/context-not-cancelled-at-stop", "call handler nonce %d (id %s) is still running at a quiescent point after the server stopped, but its context is not cancelled", en.K, en.ID)
				}
			}
		}
	}
	// notifications received before the stop are handed to their handlers
	{
		ci := conns[1]
		if ci != nil && len(ci.causes) > 0 {
			entered := map[int]bool{}
			for _, e := range h.Events {
				if e.Kind == "enter" {
					entered[e.K] = true
				}
			}
			for _, e := range h.Events {
				if e.Kind != "sent" || e.Conn != 1 || e.Err != "" || e.Seq > ci.lastQBefore {
					continue
				}
				exp := refrpc.Classify(cfg, []byte(e.Data))
				for _, m := range exp.Members {
					if m.Class == refrpc.Notification && m.Handler && m.DontCare == "" {
						if k := nonceOf(m.Params); k >= 0 && !entered[k] {
							add("C08/notification-dropped-at-stop", "notification nonce %d (%s) was received before the stop but its handler never ran", k, m.Raw)
						}
					}
				}
			}
		}
	}
	// pushes after the end of the connection
	for _, e := range h.Events {
		if e.Kind != "pushret" {
			continue
		}
		ci := conns[1]
		if ci == nil || ci.status == nil {
			continue
		}
		var pushSeq = -1
		for _, p := range h.Events {
			if p.Kind == "push" && p.K == e.K {
				pushSeq = p.Seq
			}
		}
		restartSeq := 1 << 30
		for _, p := range h.Events {
			if p.Kind == "restart" {
				restartSeq = p.Seq
				break
			}
		}
		if pushSeq > ci.status.Seq && pushSeq < restartSeq {
			want := "connclosed"
			if !sc.Cfg.AllowPush {
				want = "unsupported"
			}
			if e.Flag != want {
				add("C08/push-after-end", "push #%d issued after the server had exited returned %q (%s), want %s", e.K, e.Flag, e.Err, want)
			}
		}
	}
	if lastSnap != nil && (len(lastSnap.Reserved) != 0 || len(lastSnap.Callbacks) != 0 || lastSnap.Queued != 0 || lastSnap.Running) {
		add("C08/state-left-behind", "after the server exited: reserved=%v callbacks=%v queued=%d running=%v", lastSnap.Reserved, lastSnap.Callbacks, lastSnap.Queued, lastSnap.Running)
	}
	// restart: the probe sent on the second connection must be answered
	if ci := conns[2]; ci != nil {
		probeSent, probeAnswered := false, false
		for _, e := range h.Events {
			if e.Conn == 2 && e.Kind == "sent" && strings.Contains(e.Data, `"probe"`) && e.Err == "" {
				probeSent = true
			}
			if e.Conn == 2 && e.Kind == "wire" && strings.Contains(e.Data, `"probe"`) && strings.Contains(e.Data, `"result"`) {
				probeAnswered = true
			}
		}
		if probeSent && !probeAnswered {
			add("C08/restarted-server-not-serving", "after WaitStatus the server was started on a fresh channel but did not answer the probe call")
		}
		if ci.status != nil && !(ci.status.Flag == "closed" && ci.status.Err == "") && len(ci.causes) == 1 && ci.causes[0].kind == "peerclose" {
			add("C08/wrong-status-after-restart", "the restarted server was ended by peer close but reports flags=%q err=%q", ci.status.Flag, ci.status.Err)
		}
	}
	return probs
}

func keys(m map[string]bool) []string {
	var out []string
	for k := range m {
		out = append(out, k)
	}
	return out
}
