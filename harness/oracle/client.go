package oracle

import (
	"encoding/json"
	"fmt"
	"sort"
	"strings"

	"verif/harness/ref/refjson"
	"verif/harness/sim"
)

type centry struct {
	op, i    int
	kind     string // call callresult batch notify
	note     bool
	id       string // id text seen on the wire ("" = never transmitted / notification)
	recvSeq  int    // when the peer received the request (-1 never)
	startSeq int
	retSeq   int // when the operation (or its batch) returned (-1 never)
	class    string
	code     int
	data     string
	nret     int
	ctxEnd   int // seq of the first event ending its context (-1 none)
	ctxKind  string
	dlT      int64 // fake time at which its deadline passes (0 = none)
}

type creply struct {
	seq      int // peer-sending seq of the record
	recIdx   int // which record
	pos      int // position inside the record
	id       string
	kind     string // result error both neither malformed
	hasRes   bool   // the member has a "result" (whatever else is wrong with it)
	res      string
	payload  string // the result text, or the error object text
	op, i, n int
	settled  int // first quiescent point after it was sent (-1)
}

// ClientCheck judges a client-side history (properties C04, C05, C10).
func ClientCheck(sc sim.CScenario, h *sim.CHistory) []Problem {
	var probs []Problem
	add := func(sig, f string, a ...any) { probs = append(probs, Problem{Sig: sig, Msg: fmt.Sprintf(f, a...)}) }
	if h.BubbleErr != "" {
		add("C05/goroutines-left-or-deadlock", "%s", h.BubbleErr)
	}
	for _, o := range h.Overlaps {
		add("C10/channel-contract", "client channel: %s", o)
	}
	if h.CloseCalls != 1 {
		add("C10/close-count", "the client called Close on its channel %d times", h.CloseCalls)
	}
	for _, rec := range h.CliSent {
		if msg := wholeMessage(rec); msg != "" {
			add("C10/malformed-record", "the client passed %q to Send: %s", rec, msg)
		}
	}

	entries := map[string]*centry{}
	var order []*centry
	key := func(op, i int) string { return fmt.Sprintf("%d/%d", op, i) }
	stepOf := map[int]sim.CStep{}
	for _, st := range sc.Steps {
		switch st.Op {
		case "call", "callresult", "notify", "batch":
			stepOf[st.K] = st
		}
	}
	var replies []*creply
	var stopSeq, closeSeq = -1, -1
	var stopCauses []string
	var quiesces []int
	recIdx := 0
	inflight := map[string]string{} // id -> entry key
	onCancel := map[string]int{}
	var onStop []sim.CEvent
	notes, cbEnter, cbExit := map[string]int{}, map[string]int{}, map[string]int{}
	lastCBExit := -1
	var closeRets []sim.CEvent
	sendsAtStop := -1
	nsend := 0
	for _, e := range h.Events {
		switch e.Kind {
		case "op-start":
			st := stepOf[e.K]
			n := 1
			if e.Data == "batch" {
				n = len(st.Specs)
			}
			for i := 0; i < n; i++ {
				c := &centry{op: e.K, i: i, kind: e.Data, startSeq: e.Seq, recvSeq: -1, retSeq: -1, ctxEnd: -1}
				if e.Data == "notify" || (e.Data == "batch" && st.Specs[i]) {
					c.note = true
				}
				if st.Ctx == "deadline" {
					c.dlT = e.T + int64(st.D)*1e6
				}
				entries[key(e.K, i)] = c
				order = append(order, c)
			}
		case "chan-send":
			nsend++
		case "peer-recv":
			for _, it := range splitAny([]byte(e.Data)) {
				var m struct {
					ID     json.RawMessage `json:"id"`
					Method string          `json:"method"`
					Params struct {
						Op *int `json:"op"`
						I  int  `json:"i"`
					} `json:"params"`
				}
				if json.Unmarshal(it, &m) != nil || m.Method == "" || m.Params.Op == nil {
					continue
				}
				c := entries[key(*m.Params.Op, m.Params.I)]
				if c == nil {
					add("C04/unknown-request-on-wire", "the client sent %s which no operation accounts for", it)
					continue
				}
				if c.recvSeq >= 0 {
					add("C05/request-transmitted-twice", "request of operation #%d[%d] was transmitted twice", c.op, c.i)
				}
				c.recvSeq = e.Seq
				c.id = string(m.ID)
				if c.note != (len(m.ID) == 0) {
					add("C04/notification-id-mismatch", "operation #%d[%d] notify=%v but the request on the wire is %s", c.op, c.i, c.note, it)
				}
				if c.id != "" {
					if other, busy := inflight[c.id]; busy {
						add("C04/id-shared-by-requests-in-flight", "request id %s of operation #%d[%d] is still in use by operation %s", c.id, c.op, c.i, other)
					}
					inflight[c.id] = key(c.op, c.i)
				}
			}
		case "op-ret", "batch-rsp":
			if e.Kind == "batch-rsp" {
				continue
			}
			st := stepOf[e.K]
			n := 1
			if st.Op == "batch" {
				n = len(st.Specs)
			}
			for i := 0; i < n; i++ {
				c := entries[key(e.K, i)]
				if c == nil {
					continue
				}
				c.nret++
				c.retSeq = e.Seq
				if st.Op != "batch" {
					c.class, c.code, c.data = e.Class, e.Code, e.Data
				} else if e.Class != "result" {
					c.class, c.code, c.data = e.Class, e.Code, e.Data // the whole batch failed
				}
				delete(inflight, c.id)
			}
		case "ctxcancel":
			for _, c := range order {
				if c.op == e.K && c.ctxEnd < 0 {
					c.ctxEnd, c.ctxKind = e.Seq, "canceled"
				}
			}
		case "peer-sending":
			pos := 0
			for _, it := range splitAny([]byte(e.Data)) {
				r := parseCReply(it)
				if r != nil {
					r.seq, r.recIdx, r.pos, r.settled = e.Seq, recIdx, pos, -1
					replies = append(replies, r)
				}
				pos++
			}
			if !refjson.Valid([]byte(e.Data)) {
				stopCauses = append(stopCauses, "parse")
				if stopSeq < 0 {
					stopSeq = e.Seq
				}
			}
			recIdx++
		case "quiesce":
			quiesces = append(quiesces, e.Seq)
			for _, r := range replies {
				if r.settled < 0 {
					r.settled = e.Seq
				}
			}
		case "close":
			stopCauses = append(stopCauses, "closed")
			if stopSeq < 0 {
				stopSeq = e.Seq
			}
			if closeSeq < 0 {
				closeSeq = e.Seq
			}
		case "peerclose":
			stopCauses = append(stopCauses, "eof")
			if stopSeq < 0 {
				stopSeq = e.Seq
			}
		case "recvfault":
			if e.Err != "" {
				c := "injected"
				if e.Err == "EOF" {
					c = "eof"
				} else if strings.Contains(e.Err, "closed") {
					c = "chanclosed"
				}
				stopCauses = append(stopCauses, c)
				if stopSeq < 0 {
					stopSeq = e.Seq
				}
			}
		case "epilogue":
			stopCauses = append(stopCauses, "closed")
			if stopSeq < 0 {
				stopSeq = e.Seq
			}
		case "oncancel":
			onCancel[e.ID]++
		case "onstop":
			onStop = append(onStop, e)
			if sendsAtStop < 0 {
				sendsAtStop = nsend
			}
		case "onnotify":
			notes[e.Data]++
		case "oncb-enter":
			cbEnter[e.ID]++
		case "oncb-exit":
			cbExit[e.ID]++
			lastCBExit = e.Seq
		case "isstopped":
			switch {
			case e.Class == "in-onstop" && e.Data != "true":
				add("C05/isstopped", "inside the OnStop hook IsStopped reports %s", e.Data)
			case e.Class == "at-end" && e.Data != "true":
				add("C05/isstopped", "after Close had returned IsStopped reports %s", e.Data)
			case e.Class == "before-epilogue" && stopSeq < 0 && e.Data != "false":
				add("C05/isstopped", "IsStopped reports %s although nothing has stopped the client", e.Data)
			case e.Class == "before-epilogue" && stopSeq >= 0 && len(quiesces) > 0 && quiesces[len(quiesces)-1] > stopSeq && e.Data != "true":
				add("C05/isstopped", "IsStopped reports %s at a quiescent point after the client was stopped (#%d)", e.Data, stopSeq)
			}
		case "closeret":
			closeRets = append(closeRets, e)
			if lastCBExit > e.Seq {
				// impossible by construction of the loop; checked below instead
			}
		}
	}

	// ---- per-entry judgement ------------------------------------------------
	consumed := map[string]string{}
	for _, c := range order {
		name := fmt.Sprintf("operation #%d[%d] (%s, id %s)", c.op, c.i, c.kind, c.id)
		if c.i == 0 && c.nret != 1 {
			add("C05/operation-return-count", "%s returned %d times", name, c.nret)
			continue
		}
		if c.note {
			if c.class == "result" && c.recvSeq < 0 && c.kind == "notify" {
				add("C05/notify-ok-but-not-sent", "%s reported success but nothing was transmitted", name)
			}
			continue
		}
	}
	// batch responses: count, order, per-entry outcome
	type brsp struct{ e sim.CEvent }
	batchRsps := map[int][]sim.CEvent{}
	for _, e := range h.Events {
		if e.Kind == "batch-rsp" {
			batchRsps[e.K] = append(batchRsps[e.K], e)
		}
	}
	for k, st := range stepOf {
		if st.Op != "batch" {
			continue
		}
		c0 := entries[key(k, 0)]
		if c0 == nil || c0.retSeq < 0 || c0.class != "" && c0.class != "result" {
			continue
		}
		var want []*centry
		for i := range st.Specs {
			if c := entries[key(k, i)]; c != nil && !c.note {
				want = append(want, c)
			}
		}
		got := batchRsps[k]
		if len(got) != len(want) {
			add("C04/batch-response-count", "batch #%d returned %d responses for %d non-notification specs", k, len(got), len(want))
			continue
		}
		for j, c := range want {
			c.class, c.code, c.data = got[j].Class, got[j].Code, got[j].Data
			if got[j].ID != c.id && c.id != "" {
				add("C04/batch-order", "batch #%d: response %d has id %s, the request of spec %d went out with id %s", k, j, got[j].ID, c.i, c.id)
			}
		}
	}
	for _, c := range order {
		if bp := stepOf[c.op].BadParams; bp != "" {
			// parameters the client must refuse: an error at once, nothing on the wire
			name := fmt.Sprintf("operation #%d[%d] (%s, %s parameters)", c.op, c.i, c.kind, bp)
			if c.recvSeq >= 0 {
				add("C05/refused-operation-transmitted", "%s was transmitted", name)
			}
			if c.i == 0 && c.retSeq >= 0 && (c.class == "result" || c.class == "canceled" || c.class == "deadline") {
				add("C05/refused-operation-outcome", "%s returned %s %s, want an error about its parameters", name, c.class, c.data)
			}
			continue
		}
		if c.note || c.retSeq < 0 {
			continue
		}
		name := fmt.Sprintf("operation #%d[%d] (%s, id %s)", c.op, c.i, c.kind, c.id)
		// replies sent for exactly this id text
		var mine []*creply
		for _, r := range replies {
			if c.id != "" && r.id == c.id {
				mine = append(mine, r)
			}
		}
		// what may it have completed with?
		var admissible []*creply
		var first *creply
		for _, r := range mine {
			if r.seq > c.retSeq {
				continue
			}
			switch {
			case first == nil:
				first = r
				admissible = append(admissible, r)
			case r.recIdx == first.recIdx:
				// later member of the same record: processed after the first one
			case first.settled < 0 || r.seq < first.settled:
				admissible = append(admissible, r) // separate records of one burst race
			}
		}
		ctxEnded := c.ctxEnd >= 0 && c.ctxEnd < c.retSeq
		deadlinePassed := false
		stopped := stopSeq >= 0 && stopSeq < c.retSeq
		var retT int64
		for _, e := range h.Events {
			if e.Seq == c.retSeq {
				retT = e.T
			}
		}
		if c.dlT > 0 && retT >= c.dlT {
			deadlinePassed = true
		}
		matchedReply, silentMatch := false, false
		switch c.class {
		case "result", "rpcerror":
			matched := false
			for _, r := range admissible {
				switch r.kind {
				case "result":
					if c.class == "result" && jsonEqual(r.payload, c.data) {
						matched, matchedReply = true, true
						consumed[fmt.Sprintf("%d/%d", r.recIdx, r.pos)] += name + ";"
					}
				case "error":
					if c.class == "rpcerror" && jsonEqual(r.payload, c.data) {
						matched, matchedReply = true, true
						consumed[fmt.Sprintf("%d/%d", r.recIdx, r.pos)] += name + ";"
					}
				case "both", "neither", "malformed":
					// The property is silent about what such a member completes its
					// call with - an error of the client's making, or one of the
					// payloads it carries - but a success must still be a result
					// "the peer sent": one the member bears.
					// (A member without any result completes its call with an empty
					// result in the tree as it is: lenient, and nothing fabricated.)
					if c.class == "result" && !(r.hasRes && jsonEqual(r.res, c.data)) && !(!r.hasRes && (c.data == "" || c.data == "null")) {
						break
					}
					matched, silentMatch = true, true
				}
			}
			if !matched && c.class == "rpcerror" && stopped && c.code != 0 && len(mine) == 0 {
				matched = true // e.g. an internal error reported for a failed channel
			}
			// an entry of a Batch carries the context's error as an error object with the context code
			if !matched && c.class == "rpcerror" && c.kind == "batch" && ((c.code == -32097 && (ctxEnded || stopped)) || (c.code == -32096 && deadlinePassed)) {
				matched = true
			}
			if !matched && c.class == "rpcerror" && stopped {
				matched = true
			}
			if !matched {
				var sent []string
				for _, r := range mine {
					sent = append(sent, fmt.Sprintf("%s:%s", r.kind, r.payload))
				}
				if (ctxEnded || deadlinePassed) && len(admissible) == 0 {
					// no reply had arrived and its context had ended: it must end with the context's own error
					add("C05/context-error-replaced", "%s: its context ended (%s) before any reply arrived, yet it returned %s %s instead of the context's error", name, c.ctxKind, c.class, c.data)
				} else {
					add("C04/wrong-reply", "%s completed with %s %s, which is not a reply the peer sent for its id (first-come); replies sent for the id: %v", name, c.class, c.data, sent)
				}
			}
		case "canceled":
			if !(ctxEnded && c.ctxKind == "canceled") && !stopped {
				add("C05/canceled-without-cause", "%s returned context.Canceled although its context had not been cancelled and the client was running", name)
			}
		case "deadline":
			if !deadlinePassed {
				add("C05/deadline-without-cause", "%s returned DeadlineExceeded before its deadline", name)
			}
		case "error":
			if !stopped && !strings.Contains(c.data, "injected") {
				add("C05/error-without-cause", "%s failed with %q although the client had not stopped", name, c.data)
			}
		}
		// reply first (and settled) => the reply
		if first != nil && first.settled >= 0 && first.seq > c.recvSeq && c.recvSeq >= 0 {
			endedBefore := (c.ctxEnd >= 0 && c.ctxEnd < first.settled) || (stopSeq >= 0 && stopSeq < first.settled) || (c.dlT > 0 && deadlineBefore(h, c.dlT, first.settled))
			if !endedBefore {
				if c.retSeq > first.settled && c.kind != "batch" {
					add("C04/reply-not-delivered-at-quiescence", "%s: the reply %s was delivered but the call had not returned at the next quiescent point", name, first.payload)
				} else if c.class != "result" && c.class != "rpcerror" && c.kind != "batch" {
					add("C05/reply-lost", "%s: a reply arrived first, but the call returned %s %s", name, c.class, c.data)
				}
			}
		}
		// OnCancel: exactly once iff it ended without a reply after having been transmitted
		if c.id != "" && c.recvSeq >= 0 {
			n := onCancel[c.id]
			replied := c.class == "result" || (c.class == "rpcerror" && len(admissible) > 0)
			raced := len(admissible) > 0 && (ctxEnded || stopped || deadlinePassed)
			switch {
			case raced:
				// Which of the two won is the library's to decide, but it decides once:
				// an answered request never sees the hook, one that ended with its
				// context's error sees it exactly once.
				gotReply := c.class == "result" || (c.class == "rpcerror" && matchedReply)
				ctxOutcome := c.class == "canceled" || c.class == "deadline" || (c.class == "rpcerror" && !matchedReply && !silentMatch && c.kind == "batch" && (c.code == -32097 || c.code == -32096))
				switch {
				case n > 1:
					add("C05/oncancel-count", "%s: OnCancel ran %d times", name, n)
				case !stopped && gotReply && n != 0:
					add("C05/oncancel-for-answered-request", "%s returned the reply %s, yet OnCancel ran for it", name, c.data)
				case !stopped && ctxOutcome && n != 1:
					add("C05/oncancel-count", "%s returned its context's error (%s) although a reply had been sent, and OnCancel ran %d times, want exactly 1: either the reply won (then it must be returned) or the context did (then the hook runs)", name, c.class, n)
				}
			case replied && n != 0:
				add("C05/oncancel-for-answered-request", "%s was answered, yet OnCancel ran %d time(s) for it", name, n)
			case !replied && n != 1:
				add("C05/oncancel-count", "%s ended without a reply (%s) and OnCancel ran %d times, want exactly 1", name, c.class, n)
			}
		}
	}
	for where, who := range consumed {
		if strings.Count(who, ";") > 1 {
			add("C04/reply-consumed-twice", "the reply at record/position %s completed several requests: %s", where, who)
		}
	}
	// server-initiated requests: each one sent while the client was up is handed
	// to its handler exactly once (several may carry one id or one payload)
	type sreq struct {
		n, must int // sent; sent, delivered before any stop cause and settled
		example string
	}
	noteReqs, callReqs := map[string]*sreq{}, map[string]*sreq{}
	for _, e := range h.Events {
		if e.Kind != "peer-sending" || sc.Cfg.NoHandlers {
			continue
		}
		for _, it := range splitAny([]byte(e.Data)) {
			var m struct {
				ID     json.RawMessage `json:"id"`
				Method string          `json:"method"`
				V      string          `json:"jsonrpc"`
				Params json.RawMessage `json:"params"`
			}
			if json.Unmarshal(it, &m) != nil || m.Method == "" {
				continue
			}
			// a request that is malformed in some way (no version marker, scalar
			// parameters, an unknown member) may or may not reach a handler: the
			// property only says what it must not do to the client's own calls
			malformed := m.V != "2.0" || (len(m.Params) > 0 && m.Params[0] != '{' && m.Params[0] != '[')
			if ms, ok := refjson.Members(it); ok {
				for _, kv := range ms {
					switch kv.Key {
					case "jsonrpc", "id", "method", "params":
					default:
						malformed = true
					}
				}
			}
			delivered := (stopSeq < 0 || e.Seq < stopSeq) && !malformed
			tab, k := callReqs, strings.Trim(string(m.ID), `"`)
			if len(m.ID) == 0 {
				tab, k = noteReqs, string(m.Params)
			}
			if tab[k] == nil {
				tab[k] = &sreq{example: string(it)}
			}
			tab[k].n++
			if delivered && settledBefore(quiesces, e.Seq, stopSeq) {
				tab[k].must++
			}
		}
	}
	for k, r := range noteReqs {
		if sc.Cfg.OnlyHandler == "callback" {
			if notes[k] > 0 {
				add("C04/server-notification-delivery", "server notification %s reached an OnNotify handler the client does not have", r.example)
			}
			continue
		}
		if notes[k] > r.n || notes[k] < r.must {
			add("C04/server-notification-delivery", "server notification %s was sent %d times (%d of them certainly before the client stopped) and handed to OnNotify %d times", r.example, r.n, r.must, notes[k])
		}
	}
	for k, r := range callReqs {
		if sc.Cfg.OnlyHandler == "notify" {
			continue // no OnCallback: server calls are dropped
		}
		if cbEnter[k] > r.n || cbEnter[k] < r.must {
			add("C04/server-callback-delivery", "server call %s was sent %d times (%d of them certainly before the client stopped) and handed to OnCallback %d times", r.example, r.n, r.must, cbEnter[k])
		}
	}
	// OnStop exactly once, with the first cause
	if len(onStop) != 1 {
		add("C05/onstop-count", "OnStop ran %d times, want exactly 1", len(onStop))
	} else if len(stopCauses) > 0 {
		got := onStop[0].Class
		ok := false
		// admissible: the first cause and those racing with it (same burst window)
		firstStep := -1
		for _, e := range h.Events {
			if e.Seq == stopSeq {
				firstStep = e.Step
			}
		}
		_, hi := cburst(sc, firstStep)
		var adm []string
		idx := 0
		for _, e := range h.Events {
			var cause string
			switch e.Kind {
			case "close", "epilogue":
				cause = "closed"
			case "peerclose":
				cause = "eof"
			case "recvfault":
				if e.Err == "EOF" {
					cause = "eof"
				} else if strings.Contains(e.Err, "closed") {
					cause = "chanclosed"
				} else if e.Err != "" {
					cause = "injected"
				}
			case "peer-sending":
				if !refjson.Valid([]byte(e.Data)) {
					cause = "parse"
				}
			}
			if cause == "" {
				continue
			}
			if idx == 0 || e.Step <= hi {
				adm = append(adm, cause)
			}
			idx++
		}
		for _, a := range adm {
			if a == got || (a == "eof" && got == "chanclosed") {
				ok = true
			}
		}
		if !ok {
			add("C05/onstop-cause", "OnStop reported %q (%s), the first stop cause was %v", got, onStop[0].Err, adm)
		}
	}
	// Close returns only after every callback handler has returned
	for _, cr := range closeRets {
		for id, n := range cbEnter {
			if cbExit[id] < n {
				// find whether the exit came later than this Close return
				add("C05/close-before-callback-returned", "Close returned (#%d) while the OnCallback handler for %s had not returned", cr.Seq, id)
			}
		}
		break
	}
	for _, e := range h.Events {
		if e.Kind == "oncb-exit" && len(closeRets) > 0 && e.Seq > closeRets[0].Seq {
			add("C05/close-before-callback-returned", "OnCallback handler for %s returned (#%d) after Close had returned (#%d)", e.ID, e.Seq, closeRets[0].Seq)
		}
	}
	// nothing transmitted after the client has stopped; nothing pending at the end
	if sendsAtStop >= 0 && nsend > sendsAtStop {
		add("C05/transmitted-after-stop", "%d record(s) were transmitted after the client had stopped", nsend-sendsAtStop)
	}
	for i := len(h.Events) - 1; i >= 0; i-- {
		if e := h.Events[i]; e.Kind == "quiesce" {
			if len(e.Pending) != 0 {
				add("C05/pending-left-behind", "after the end the client still tracks pending requests %v", e.Pending)
			}
			break
		}
	}
	// an operation started after the client had stopped fails without transmitting
	for _, c := range order {
		if len(onStop) == 1 && c.startSeq > onStop[0].Seq {
			if c.recvSeq >= 0 {
				add("C05/transmitted-after-stop", "operation #%d[%d] was started after the client had stopped, yet its request was transmitted", c.op, c.i)
			}
			if c.i == 0 && (c.class == "result" || c.class == "") && c.retSeq >= 0 && !c.note {
				add("C05/success-after-stop", "operation #%d started after the client had stopped returned %q", c.op, c.class)
			}
		}
	}
	sort.Slice(probs, func(i, j int) bool { return false })
	return probs
}

func deadlineBefore(h *sim.CHistory, dlT int64, seq int) bool {
	for _, e := range h.Events {
		if e.Seq == seq {
			return e.T >= dlT
		}
	}
	return false
}

// settledBefore: a quiescent point lies between the event and the stop.
func settledBefore(qs []int, seq, stop int) bool {
	for _, q := range qs {
		if q > seq && (stop < 0 || q < stop) {
			return true
		}
	}
	return false
}

func cburst(sc sim.CScenario, step int) (lo, hi int) {
	if step < 0 {
		return 0, 0
	}
	lo, hi = step, step
	for lo > 0 && lo-1 < len(sc.Steps) && sc.Steps[lo-1].Burst {
		lo--
	}
	for hi < len(sc.Steps) && sc.Steps[hi].Burst {
		hi++
	}
	return
}

func splitAny(rec []byte) [][]byte {
	if es, ok := refjson.Elements(rec); ok {
		return es
	}
	if refjson.Valid(rec) {
		p := refjson.SkipSpace(rec, 0)
		e, _ := refjson.Scan(rec, p)
		return [][]byte{rec[p:e]}
	}
	return nil
}

// parseCReply classifies one member the peer sends to the client.
func parseCReply(it []byte) *creply {
	ms, ok := refjson.Members(it)
	if !ok {
		return nil
	}
	r := &creply{}
	var hasRes, hasErr, hasMethod, bad bool
	var res, errObj []byte
	for _, m := range ms {
		switch m.Key {
		case "jsonrpc":
			if string(m.Value) != `"2.0"` {
				bad = true
			}
		case "id":
			r.id = string(m.Value)
		case "result":
			hasRes, res = true, m.Value
		case "error":
			if string(m.Value) != "null" { // a null error is no error object
				hasErr, errObj = true, m.Value
			}
		case "method":
			hasMethod = true
		default:
			bad = true
		}
	}
	if hasMethod || r.id == "" || r.id == "null" {
		return nil
	}
	r.hasRes, r.res = hasRes, string(res)
	switch {
	case bad:
		r.kind = "malformed"
	case hasRes && hasErr:
		r.kind = "both"
	case hasRes:
		r.kind, r.payload = "result", string(res)
	case hasErr:
		r.kind, r.payload = "error", string(errObj)
	default:
		r.kind = "neither"
	}
	return r
}

// wholeMessage checks that a record passed to Send is one complete JSON-RPC
// message: an object or a non-empty array of objects, each a well-formed
// request or response. It returns "" when it is.
func wholeMessage(rec []byte) string {
	if !refjson.Valid(rec) {
		return "not valid JSON"
	}
	items := splitAny(rec)
	if len(items) == 0 {
		return "empty array"
	}
	for _, it := range items {
		ms, ok := refjson.Members(it)
		if !ok {
			return "member is not an object"
		}
		keys := map[string][]byte{}
		for _, m := range ms {
			if _, dup := keys[m.Key]; dup {
				return "duplicate member " + m.Key
			}
			keys[m.Key] = m.Value
		}
		if string(keys["jsonrpc"]) != `"2.0"` {
			return "jsonrpc member is not \"2.0\""
		}
		_, isReq := keys["method"]
		_, hasRes := keys["result"]
		_, hasErr := keys["error"]
		switch {
		case isReq && (hasRes || hasErr):
			return "request with result/error"
		case isReq:
			if p, ok := keys["params"]; ok && len(p) > 0 && p[0] != '[' && p[0] != '{' {
				return "params is not structured"
			}
		case hasRes == hasErr:
			return "response must have exactly one of result and error"
		default:
			if _, ok := keys["id"]; !ok {
				return "response without id"
			}
		}
		for k := range keys {
			switch k {
			case "jsonrpc", "id", "method", "params", "result", "error":
			default:
				return "unexpected member " + k
			}
		}
	}
	return ""
}
