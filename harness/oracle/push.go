package oracle

import (
	"encoding/json"
	"fmt"
	"strings"

	"verif/harness/ref/refjson"
	"verif/harness/ref/refrpc"
	"verif/harness/sim"
)

type pushReq struct {
	seq    int
	id     string // "" for notifications
	method string
	key    int // p (outside pushes) or k (handler pushes)
	inside bool
}

func parsePushRequest(e sim.Event) (pushReq, bool) {
	ms, ok := refjson.Members([]byte(e.Data))
	if !ok {
		return pushReq{}, false
	}
	r := pushReq{seq: e.Seq, key: -1}
	var params []byte
	hasMethod := false
	for _, m := range ms {
		switch m.Key {
		case "method":
			hasMethod = true
			r.method, _ = refjson.DecodeString(m.Value)
		case "id":
			r.id = string(m.Value)
		case "params":
			params = m.Value
		}
	}
	if !hasMethod {
		return r, false
	}
	var p struct {
		P *int `json:"p"`
		K *int `json:"k"`
	}
	if json.Unmarshal(params, &p) == nil {
		if p.P != nil {
			r.key = *p.P
		} else if p.K != nil {
			r.key, r.inside = *p.K, true
		}
	}
	return r, true
}

func jsonEqual(a, b string) bool {
	var x, y any
	if json.Unmarshal([]byte(a), &x) != nil || json.Unmarshal([]byte(b), &y) != nil {
		return false
	}
	ab, _ := json.Marshal(x)
	bb, _ := json.Marshal(y)
	return string(ab) == string(bb)
}

// PushCheck judges server push behaviour (property C09) over a history.
func PushCheck(sc sim.Scenario, h *sim.History) []Problem {
	var probs []Problem
	add := func(sig, f string, a ...any) { probs = append(probs, Problem{Sig: sig, Msg: fmt.Sprintf(f, a...)}) }
	allow := sc.Cfg.AllowPush

	type call struct {
		key        int
		inside     bool
		kind       string // notify | callback
		pushSeq    int
		pushT      int64
		deadline   int // ms, 0 = none
		reqs       []pushReq
		rets       []sim.Event
		ctxEndSeq  int // first event that ends its context (pushcancel / stop / peerclose / epilogue), -1 none
		stopSeq    int // first event that ends the connection the push was made on, -1 none
		bad        bool
		sendFailed bool // the channel's Send failed for its request (injected)
	}
	calls := map[string]*call{}
	keyOf := func(inside bool, k int) string { return fmt.Sprintf("%v/%d", inside, k) }
	get := func(inside bool, k int) *call {
		c := calls[keyOf(inside, k)]
		if c == nil {
			c = &call{key: k, inside: inside, pushSeq: -1, ctxEndSeq: -1}
			calls[keyOf(inside, k)] = c
		}
		return c
	}
	type reply struct {
		seq     int
		id      string
		isErr   bool
		rec     string
		settled int // seq of the first quiescent point after it was delivered (-1 none)
		sentSeq int
		step    int
	}
	var replies []*reply
	var quiesces []int
	var stops, restarts []int
	outstanding := map[string]bool{}
	inHandlerCancel := map[int]int{} // nonce -> seq at which its handler context ended
	wokeSeq := map[string]int{}      // callback id -> seq at which its waiter was handed an outcome (first use of the id)
	idUses := map[string]int{}
	for _, e := range h.Events {
		switch e.Kind {
		case "push":
			c := get(false, e.K)
			c.kind, c.pushSeq, c.pushT = e.Method, e.Seq, e.T
			if e.Step < len(sc.Steps) {
				c.deadline = max(sc.Steps[e.Step].D, 0)
				c.bad = sc.Steps[e.Step].Out == "badparams"
				if sc.Steps[e.Step].D == -2 {
					c.ctxEndSeq = e.Seq // issued with a context that had already ended
				}
			}
		case "enter":
			if e.Method == "cbgate" || e.Method == "notegate" {
				c := get(true, e.K)
				c.kind = map[string]string{"cbgate": "callback", "notegate": "notify"}[e.Method]
				c.pushSeq, c.pushT = e.Seq, e.T
			}
		case "wire":
			if r, ok := parsePushRequest(e); ok {
				c := get(r.inside, r.key)
				c.reqs = append(c.reqs, r)
				if r.id != "" {
					idUses[r.id]++
					if outstanding[r.id] {
						add("C09/callback-id-reused-while-outstanding", "callback request %s reuses id %s of a callback that is still outstanding", e.Data, r.id)
					}
					outstanding[r.id] = true
				}
				if !allow {
					add("C09/push-transmitted-without-allowpush", "the server sent %s although AllowPush is off", e.Data)
				}
			}
		case "sendfault":
			// the channel refused this record: if it was a push, the push fails
			if r, ok := parsePushRequest(e); ok {
				get(r.inside, r.key).sendFailed = true
			}
		case "pushret":
			c := get(false, e.K)
			c.rets = append(c.rets, e)
			for _, r := range c.reqs {
				delete(outstanding, r.id)
			}
		case "cbret", "noteret":
			c := get(true, e.K)
			c.rets = append(c.rets, e)
			for _, r := range c.reqs {
				delete(outstanding, r.id)
			}
		case "woke":
			if _, ok := wokeSeq[e.ID]; !ok {
				wokeSeq[e.ID] = e.Seq
			}
		case "pushcancel":
			if c := get(false, e.K); c.ctxEndSeq < 0 {
				c.ctxEndSeq = e.Seq
			}
		case "ctxdone":
			if _, ok := inHandlerCancel[e.K]; !ok {
				inHandlerCancel[e.K] = e.Seq
			}
		case "stop", "peerclose", "epilogue", "recvfault":
			if !(e.Kind == "recvfault" && (e.Err == "" || e.Err == "EOF")) {
				stops = append(stops, e.Seq)
			}
		case "restart":
			restarts = append(restarts, e.Seq)
		case "sending":
			// (a record counts as sent from the moment the peer starts sending it:
			// the server may act on it before the peer's Send call returns)
			// every reply-shaped member of an inbound record is a reply the peer sent
			var items [][]byte
			if es, ok := refjson.Elements([]byte(e.Data)); ok {
				items = es
			} else if refjson.Valid([]byte(e.Data)) {
				items = [][]byte{[]byte(e.Data)}
			}
			for _, it := range items {
				ms, ok := refjson.Members(it)
				if !ok {
					continue
				}
				var id string
				hasMethod, hasRes, hasErr := false, false, false
				for _, m := range ms {
					switch m.Key {
					case "id":
						id = string(m.Value)
					case "method":
						hasMethod = true
					case "result":
						hasRes = true
					case "error":
						hasErr = string(m.Value) != "null"
					}
				}
				if hasMethod || !(hasRes || hasErr) || id == "" || id == "null" {
					continue
				}
				replies = append(replies, &reply{seq: e.Seq, id: id, isErr: hasErr, rec: string(it), settled: -1, sentSeq: e.Seq, step: e.Step})
			}
		case "quiesce":
			quiesces = append(quiesces, e.Seq)
			for _, r := range replies {
				if r.sentSeq >= 0 && r.settled < 0 {
					r.settled = e.Seq
				}
			}
		}
	}
	for _, c := range calls {
		// the connection a push belongs to starts at the last restart before it
		// and ends at the first stop after that restart
		epoch := -1
		for _, r := range restarts {
			if r < c.pushSeq {
				epoch = r
			}
		}
		c.stopSeq = -1
		for _, s := range stops {
			if s > epoch {
				c.stopSeq = s
				break
			}
		}
		if c.inside {
			if s, ok := inHandlerCancel[c.key]; ok && (c.ctxEndSeq < 0 || s < c.ctxEndSeq) {
				c.ctxEndSeq = s
			}
		}
		if c.stopSeq >= 0 && (c.ctxEndSeq < 0 || c.stopSeq < c.ctxEndSeq) {
			c.ctxEndSeq = c.stopSeq
		}
	}

	for _, c := range calls {
		name := fmt.Sprintf("%s #%d", c.kind, c.key)
		if c.inside {
			name = fmt.Sprintf("%s issued by handler nonce %d", c.kind, c.key)
		}
		if c.pushSeq < 0 {
			continue
		}
		if len(c.rets) > 1 {
			add("C09/push-returned-twice", "%s returned %d times", name, len(c.rets))
			continue
		}
		if len(c.rets) == 0 {
			add("C09/push-never-returned", "%s never returned although its context was cancelled at the end", name)
			continue
		}
		ret := c.rets[0]
		flag := ret.Flag
		stopSeq := c.stopSeq
		if c.inside {
			switch {
			case ret.Err == "":
				flag = ""
			case ret.Err == "canceled":
				flag = "ctx-canceled"
			case ret.Err == "deadline":
				flag = "ctx-deadline"
			case strings.Contains(ret.Err, "not enabled"):
				flag = "unsupported"
			case strings.Contains(ret.Err, "connection is closed"):
				flag = "connclosed"
			case strings.HasPrefix(ret.Err, "["):
				flag = "rpcerror"
			default:
				flag = "othererr"
			}
		}
		if !allow {
			if flag != "unsupported" {
				add("C09/pushed-without-allowpush", "%s returned %q (%s) although AllowPush is off", name, flag, ret.Err)
			}
			continue
		}
		if c.bad {
			// parameters that cannot be marshalled: an error, nothing transmitted
			if len(c.reqs) != 0 {
				add("C09/refused-push-transmitted", "%s has parameters that cannot be marshalled, yet %d request(s) went out", name, len(c.reqs))
			}
			if flag == "" || flag == "rpcerror" {
				add("C09/refused-push-succeeded", "%s has parameters that cannot be marshalled, yet it returned %q %s", name, flag, ret.Data)
			}
			continue
		}
		if c.sendFailed {
			if flag == "" || flag == "rpcerror" {
				add("C09/push-ok-although-send-failed", "%s: the channel refused its request, yet it returned %q %s", name, flag, ret.Data)
			}
			continue
		}
		afterEnd := stopSeq >= 0 && c.pushSeq > stopSeq
		if flag == "unsupported" {
			add("C09/unsupported-with-allowpush", "%s returned ErrPushUnsupported on a push-enabled server", name)
			continue
		}
		if flag == "connclosed" {
			if stopSeq < 0 {
				add("C09/connclosed-while-connected", "%s returned ErrConnClosed while the connection was up", name)
			}
			if len(c.reqs) != 0 {
				add("C09/transmitted-and-connclosed", "%s returned ErrConnClosed but %d request(s) were transmitted", name, len(c.reqs))
			}
			continue
		}
		// transmitted exactly once
		// (a push that was still under way when the connection ended may have sent nothing)
		if len(c.reqs) != 1 && !afterEnd && !(stopSeq >= 0 && stopSeq < ret.Seq && len(c.reqs) == 0) {
			add("C09/push-transmission-count", "%s: %d requests on the wire, want exactly 1", name, len(c.reqs))
			continue
		}
		if c.kind == "notify" {
			if len(c.reqs) == 1 && c.reqs[0].id != "" {
				add("C09/notification-with-id", "%s was transmitted with id %s", name, c.reqs[0].id)
			}
			if flag != "" && (stopSeq < 0 || ret.Seq < stopSeq) {
				add("C09/notify-failed", "%s failed with %q (%s) while the connection was up", name, flag, ret.Err)
			}
			continue
		}
		if len(c.reqs) == 0 {
			continue
		}
		id := c.reqs[0].id
		if id == "" {
			add("C09/callback-without-id", "%s was transmitted without an id", name)
			continue
		}
		// replies sent for this id before the callback returned, in order
		var mine []*reply
		for _, r := range replies {
			// a reply counts for this callback unless it had already been delivered
			// and settled (hence discarded) before the callback was even issued
			if r.id == id && r.sentSeq >= 0 && (r.settled < 0 || r.settled > c.pushSeq) {
				mine = append(mine, r)
			}
		}
		switch flag {
		case "", "rpcerror":
			// must be the payload of a reply sent for its id before it returned: the
			// first one, unless the first two raced in one burst
			var cands []*reply
			for _, r := range mine {
				if r.sentSeq < ret.Seq {
					cands = append(cands, r)
				}
			}
			if len(cands) == 0 {
				add("C09/completed-without-reply", "%s (id %s) completed with %q %s but no reply for its id had been sent", name, id, flag, ret.Data)
				break
			}
			// admissible: any reply sent before the request was even visible to the
			// peer (it may or may not have been matched), the first one sent after
			// that, and those delivered before that first one had settled (raced)
			var adm []*reply
			var firstDef *reply
			for _, r := range cands {
				switch {
				case r.sentSeq <= c.reqs[0].seq:
					adm = append(adm, r)
				case firstDef == nil:
					firstDef = r
					adm = append(adm, r)
				case firstDef.settled < 0 || r.sentSeq < firstDef.settled:
					adm = append(adm, r)
				}
			}
			ok := false
			for _, r := range adm {
				var rec struct {
					Result json.RawMessage `json:"result"`
					Error  json.RawMessage `json:"error"`
				}
				json.Unmarshal([]byte(r.rec), &rec)
				if flag == "" && !r.isErr && jsonEqual(string(rec.Result), ret.Data) {
					ok = true
				}
				if flag == "rpcerror" && r.isErr {
					if c.inside {
						ok = ok || strings.Contains(ret.Err, "peer says no")
					} else {
						ok = ok || jsonEqual(string(rec.Error), ret.Data)
					}
				}
			}
			if !ok {
				add("C09/wrong-reply-delivered", "%s (id %s) returned %q %s %s, which is not the (first) reply sent for its id: %s", name, id, flag, ret.Data, ret.Err, cands[0].rec)
			}
		case "ctx-canceled":
			if c.ctxEndSeq < 0 || c.ctxEndSeq > ret.Seq {
				add("C09/cancelled-without-cause", "%s returned context.Canceled but nothing had cancelled its context or stopped the server", name)
			} else if ws, ok := wokeSeq[id]; ok && !c.inside && idUses[id] == 1 && c.deadline == 0 && ws < c.ctxEndSeq && len(mine) > 0 {
				// the waiter had been handed its outcome before anything ended the
				// context: that outcome was the reply, and the reply is what must be returned
				add("C09/reply-replaced-by-context-error", "%s (id %s) had received its outcome (#%d) before its context ended (#%d) - the reply %s - yet it returned context.Canceled", name, id, ws, c.ctxEndSeq, mine[0].rec)
			}
		case "ctx-deadline":
			if c.deadline == 0 || (ret.T-c.pushT) < int64(c.deadline)*1e6 {
				add("C09/deadline-without-cause", "%s returned DeadlineExceeded after %dns, its deadline is %dms", name, ret.T-c.pushT, c.deadline)
			}
		default:
			if stopSeq < 0 || stopSeq > ret.Seq {
				add("C09/callback-failed", "%s failed with %q (%s) while the connection was up", name, flag, ret.Err)
			}
		}
		// a reply that was delivered and settled before anything ended the
		// context must have completed the callback, by that quiescent point
		var after []*reply // replies certainly sent after the request had reached the peer
		for _, r := range mine {
			if r.sentSeq > c.reqs[0].seq {
				after = append(after, r)
			}
		}
		if len(after) > 0 && after[0].settled >= 0 {
			r := after[0]
			deadlineHit := c.deadline > 0 && flag == "ctx-deadline"
			ended := c.ctxEndSeq >= 0 && c.ctxEndSeq < r.settled
			if !ended && !deadlineHit {
				if ret.Seq > r.settled {
					add("C09/reply-not-delivered-at-quiescence", "%s (id %s): reply %s was delivered, but the callback had not returned at the next quiescent point", name, id, r.rec)
				} else if flag != "" && flag != "rpcerror" && ret.Seq > r.sentSeq {
					add("C09/reply-lost", "%s (id %s): reply %s arrived first, but the callback returned %q (%s)", name, id, r.rec, flag, ret.Err)
				}
			}
		}
	}
	// nothing outstanding at the end
	for i := len(h.Events) - 1; i >= 0; i-- {
		if e := h.Events[i]; e.Kind == "quiesce" && e.Snap != nil {
			if len(e.Snap.Callbacks) != 0 {
				add("C09/callbacks-left-behind", "after the end of the scenario the server still tracks callbacks %v", e.Snap.Callbacks)
			}
			break
		}
	}
	return probs
}

// UnsolicitedResponses: every response object the server emits must answer a
// request with an id that the peer sent (per id text, at most as many responses
// as requests); an error object with id null needs an inbound member that has
// no usable id.  Anything else is a message provoked by a reply the peer sent.
func UnsolicitedResponses(h *sim.History) []Problem {
	var probs []Problem
	calls := map[string]int{}
	nullable := 0
	for _, e := range h.Events {
		switch e.Kind {
		case "sending":
			var items [][]byte
			if es, ok := refjson.Elements([]byte(e.Data)); ok {
				items = es
				if len(es) == 0 {
					nullable++
				}
			} else if refjson.Valid([]byte(e.Data)) {
				items = [][]byte{[]byte(e.Data)}
			} else {
				nullable++
			}
			for _, it := range items {
				ms, ok := refjson.Members(it)
				if !ok {
					nullable++
					continue
				}
				id, hasMethod, replyish := "", false, false
				for _, m := range ms {
					switch m.Key {
					case "id":
						id = string(m.Value)
					case "method":
						hasMethod = true
					case "result", "error":
						replyish = true
					}
				}
				switch {
				case hasMethod && id != "" && id != "null":
					calls[id]++
				case hasMethod:
					nullable++ // an invalid notification-shaped member may be answered with id null
				case !replyish:
					nullable++
					if id != "" {
						calls[id]++
					}
				}
			}
		case "wire":
			if isPushRequest([]byte(e.Data)) {
				continue
			}
			items, _, err := refrpc.SplitReply([]byte(e.Data))
			if err != nil {
				continue
			}
			for _, it := range items {
				rsp, err := refrpc.ParseResponse(it)
				if err != nil {
					continue
				}
				if rsp.ID == "null" {
					if nullable == 0 {
						probs = append(probs, Problem{Sig: "C09/server-answers-unsolicited-reply", Msg: fmt.Sprintf("the server emitted %s although the peer sent no member that could be answered with id null", it)})
					} else {
						nullable--
					}
					continue
				}
				if calls[rsp.ID] == 0 {
					probs = append(probs, Problem{Sig: "C09/server-answers-unsolicited-reply", Msg: fmt.Sprintf("the server emitted %s, which answers no request the peer made with that id (it was provoked by a reply or is a duplicate)", it)})
				} else {
					calls[rsp.ID]--
				}
			}
		}
	}
	return probs
}
