package oracle

import (
	"regexp"
	"strconv"
	"strings"

	"verif/harness/ref/refrpc"
	"verif/harness/sim"
)

// Facts are the classification of one executed server scenario, used for the
// non-triviality rules and the label histogram.
type Facts struct {
	Records            int
	ParkedAcrossRecs   bool // handlers of two different records parked at one quiescent point
	BatchMixed         bool // a batch mixing at least two of {call, notification, invalid}
	ExitOrderDiffers   bool // a batch whose handlers returned in an order different from request order
	BarrierExercised   bool // a notification was parked while a later record had already arrived
	BarrierThenCall    bool
	BarrierThenNote    bool
	BarrierThenBatch   bool
	CallRunningBefore  bool // a parked call preceded a later record (the "not delayed" half)
	MoreThanSlots      bool // more dispatched parking requests than slots at some quiescent point
	MaxParked          int  // most handlers parked at one quiescent point
	IDReuseInFlight    bool
	IDReuseAfterError  bool
	IDReuseAfterCancel bool
	IDReuse            bool
	Cancels            int
	BurstSteps         int
	Bursts2Senders     bool
}

var kRe = regexp.MustCompile(`"k":(\d+)|"params":\[(\d+)\]`)
var idRe = regexp.MustCompile(`"id":("[^"]*"|-?[0-9.eE+-]+)`)

// Describe classifies a scenario and its history.
func Describe(sc sim.Scenario, h *sim.History) Facts {
	var f Facts
	recOfK := map[int]int{}
	noteK := map[int]bool{}
	type recInfo struct {
		step   int
		ks     []int
		kinds  map[string]bool
		batch  bool
		ids    []string
		method map[string]string
	}
	var recs []recInfo
	cfg := refrpc.Config{AllowPush: sc.Cfg.AllowPush, Builtin: !sc.Cfg.DisableBuiltin, Resolve: func(m string) bool { return sim.Known[m] }}
	for i, st := range sc.Steps {
		if st.Burst {
			f.BurstSteps++
		}
		if st.Op == "cancel" {
			f.Cancels++
		}
		if st.Op != "send" {
			continue
		}
		exp := refrpc.Classify(cfg, st.Rec)
		ri := recInfo{step: i, kinds: map[string]bool{}, batch: exp.Batch, method: map[string]string{}}
		for _, m := range exp.Members {
			switch m.Class {
			case refrpc.Call:
				ri.kinds["call"] = true
			case refrpc.Notification:
				ri.kinds["note"] = true
			default:
				ri.kinds["invalid"] = true
			}
			if m.IDText != "" {
				ri.ids = append(ri.ids, m.IDText)
				ri.method[m.IDText] = m.Method
			}
			if k := nonceOf(m.Params); k >= 0 {
				ri.ks = append(ri.ks, k)
				recOfK[k] = len(recs)
				if m.Class == refrpc.Notification {
					noteK[k] = true
				}
			}
		}
		if exp.Batch && len(ri.kinds) >= 2 {
			f.BatchMixed = true
		}
		recs = append(recs, ri)
	}
	f.Records = len(recs)
	// id reuse
	firstUse := map[string]int{}
	cancelled := map[string]bool{}
	for i, st := range sc.Steps {
		if st.Op == "cancel" {
			cancelled[st.ID] = true
		}
		if st.Op != "send" {
			continue
		}
		for _, m := range idRe.FindAllStringSubmatch(string(st.Rec), -1) {
			id := m[1]
			if j, ok := firstUse[id]; ok && j != i {
				f.IDReuse = true
				if cancelled[id] {
					f.IDReuseAfterCancel = true
				}
			} else if !ok {
				firstUse[id] = i
			}
		}
	}
	// history-based facts
	exitOrder := map[int][]int{}
	sentRecs := 0
	lim := sc.Cfg.Concurrency
	for _, e := range h.Events {
		switch e.Kind {
		case "sending":
			sentRecs++
		case "exit":
			if r, ok := recOfK[e.K]; ok {
				exitOrder[r] = append(exitOrder[r], e.K)
			}
		case "wire":
			if strings.Contains(e.Data, "duplicate request ID") {
				f.IDReuseInFlight = true
			}
		case "quiesce":
			if e.Snap == nil {
				continue
			}
			seen := map[int]bool{}
			gates := 0
			for _, k := range e.Snap.Parked {
				r, ok := recOfK[k]
				if !ok {
					continue
				}
				gates++
				seen[r] = true
				later := 0
				for j := r + 1; j < len(recs) && j < sentRecs; j++ {
					later++
					if noteK[k] {
						f.BarrierExercised = true
						switch {
						case recs[j].batch:
							f.BarrierThenBatch = true
						case recs[j].kinds["note"]:
							f.BarrierThenNote = true
						case recs[j].kinds["call"]:
							f.BarrierThenCall = true
						}
					} else {
						f.CallRunningBefore = true
					}
				}
			}
			f.MaxParked = max(f.MaxParked, gates)
			if len(seen) >= 2 {
				f.ParkedAcrossRecs = true
			}
			if lim > 0 && gates >= lim {
				// all slots parked; more work dispatched?
				total := 0
				for r := range seen {
					total += len(recs[r].ks)
				}
				if total > lim {
					f.MoreThanSlots = true
				}
			}
		}
	}
	for r, order := range exitOrder {
		want := recs[r].ks
		if len(order) >= 2 {
			pos := map[int]int{}
			for i, k := range want {
				pos[k] = i
			}
			for i := 1; i < len(order); i++ {
				if pos[order[i]] < pos[order[i-1]] {
					f.ExitOrderDiffers = true
				}
			}
		}
	}
	// reuse after an error reply
	errIDs := map[string]bool{}
	for _, e := range h.Events {
		if e.Kind == "wire" && strings.Contains(e.Data, `"error"`) {
			for _, m := range idRe.FindAllStringSubmatch(e.Data, -1) {
				errIDs[m[1]] = true
			}
		}
		if e.Kind == "sending" {
			for _, m := range idRe.FindAllStringSubmatch(e.Data, -1) {
				if errIDs[m[1]] {
					f.IDReuseAfterError = true
				}
			}
		}
	}
	return f
}

// Labels renders the facts for the histogram.
func (f Facts) Labels() []string {
	var out []string
	add := func(b bool, s string) {
		if b {
			out = append(out, s)
		}
	}
	add(f.ParkedAcrossRecs, "parked-across-records")
	add(f.BatchMixed, "batch-mixed")
	add(f.ExitOrderDiffers, "exit-order-differs")
	add(f.BarrierExercised, "barrier-exercised")
	add(f.BarrierThenCall, "barrier-then-call")
	add(f.BarrierThenNote, "barrier-then-notification")
	add(f.BarrierThenBatch, "barrier-then-batch")
	add(f.CallRunningBefore, "running-call-precedes")
	add(f.MoreThanSlots, "more-work-than-slots")
	add(f.MaxParked > 16, "parked-more-than-16")
	if f.MaxParked >= 8 {
		out = append(out, "parked:"+strconv.Itoa(f.MaxParked/4*4)+"+")
	}
	add(f.IDReuse, "id-reuse")
	add(f.IDReuseInFlight, "id-reuse-in-flight")
	add(f.IDReuseAfterError, "id-reuse-after-error")
	add(f.IDReuseAfterCancel, "id-reuse-after-cancel")
	add(f.Cancels > 0, "cancels")
	add(f.BurstSteps > 0, "bursts")
	out = append(out, "records:"+strconv.Itoa(min(f.Records, 9)))
	return out
}
