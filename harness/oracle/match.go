// Package oracle holds history predicates shared by several property checks.
package oracle

import (
	"bytes"
	"encoding/json"
	"fmt"
	"strings"

	"verif/harness/ref/refrpc"
	"verif/harness/sim"
)

// Invocation is what the harness knows about one handler invocation that
// belongs to the inbound record under judgement.
type Invocation struct {
	K, Inv int
	Method string
	ID     string
	Note   bool
	Ret    string // what the handler returned: ok | err:<code> | ctxerr:<..> | bad ("" = still running)
	used   bool
}

// Problem describes a mismatch; Sig is the finding signature.
type Problem struct {
	Sig string
	Msg string
	// for reply mismatches: the request member and the reply item involved (-1 = none)
	Member, Item int
	ItemText     string
}

func problem(sig, f string, a ...any) *Problem {
	return &Problem{Sig: sig, Msg: fmt.Sprintf(f, a...), Member: -1, Item: -1}
}

// MatchReplies checks the outbound records observed for ONE inbound record
// against the reference expectation: at most one outbound message, array iff
// the inbound one was, members in request order, each attributable to exactly
// one handler invocation (or to the protocol error the reference admits).
// invs are the handler invocations attributable to this record.
func MatchReplies(prop string, exp refrpc.Record, wire [][]byte, invs []Invocation) *Problem {
	switch exp.Top {
	case "parse-error", "empty-batch":
		want := -32700
		if exp.Top == "empty-batch" {
			want = -32600
		}
		if len(invs) != 0 {
			return problem(prop+"/handler-ran-for-invalid-record", "%d handler invocation(s) for a record that is %s", len(invs), exp.Top)
		}
		if len(wire) != 1 {
			return problem(prop+"/top-level-error-count", "record is %s: want exactly one error reply, got %d outbound records %q", exp.Top, len(wire), wire)
		}
		items, isArr, err := refrpc.SplitReply(wire[0])
		if err != nil || isArr || len(items) != 1 {
			return problem(prop+"/top-level-error-shape", "record is %s: want a single error object, got %q (%v)", exp.Top, wire[0], err)
		}
		r, err := refrpc.ParseResponse(items[0])
		if err != nil {
			return problem(prop+"/malformed-response", "reply %q is not a valid JSON-RPC 2.0 response: %v", items[0], err)
		}
		if !r.IsError || r.Code != want || r.ID != "null" {
			return problem(prop+"/top-level-error-code", "record is %s: want {id:null, code:%d}, got %q", exp.Top, want, items[0])
		}
		return nil
	}
	if len(wire) > 1 {
		return problem(prop+"/several-messages-for-one-record", "one inbound record produced %d outbound records: %q", len(wire), wire)
	}
	var items [][]byte
	if len(wire) == 1 {
		var isArr bool
		var err error
		items, isArr, err = refrpc.SplitReply(wire[0])
		if err != nil {
			return problem(prop+"/malformed-response", "outbound record %q: %v", wire[0], err)
		}
		if isArr != exp.Batch {
			return problem(prop+"/envelope-shape", "inbound batch=%v but the reply %q has array=%v", exp.Batch, wire[0], isArr)
		}
	}
	var parsed []refrpc.Response
	for _, it := range items {
		r, err := refrpc.ParseResponse(it)
		if err != nil {
			return problem(prop+"/malformed-response", "reply member %q is not a valid JSON-RPC 2.0 response: %v", it, err)
		}
		parsed = append(parsed, r)
	}
	// Align reply members with request members, in order.
	var why string
	whyMember, whyItem := -1, -1
	var rec func(i, j int, used map[int]bool) bool
	rec = func(i, j int, used map[int]bool) bool {
		if i == len(exp.Members) {
			if j != len(parsed) {
				why = fmt.Sprintf("reply member #%d %q matches no request member (stray or duplicate)", j, items[j])
				whyMember, whyItem = -1, j
				return false
			}
			return true
		}
		m := exp.Members[i]
		switch m.Reply {
		case refrpc.NoReply:
			return rec(i+1, j, used)
		case refrpc.AnyReply:
			if j < len(parsed) && rec(i+1, j+1, used) {
				return true
			}
			return rec(i+1, j, used)
		}
		if j >= len(parsed) {
			why = fmt.Sprintf("request member #%d (%s %q) has no reply", i, m.Class, m.Raw)
			whyMember, whyItem = i, -1
			return false
		}
		r := parsed[j]
		ok, inv, w := satisfies(m, r, invs, used)
		if !ok {
			why = fmt.Sprintf("reply member #%d %q does not answer request member #%d %q: %s", j, items[j], i, m.Raw, w)
			whyMember, whyItem = i, j
			return false
		}
		if inv >= 0 {
			used[inv] = true
			defer delete(used, inv)
		}
		return rec(i+1, j+1, used)
	}
	if !rec(0, 0, map[int]bool{}) {
		p := problem(prop+"/reply-mismatch", "%s; inbound members %d, outbound %q", why, len(exp.Members), wire)
		p.Member, p.Item = whyMember, whyItem
		if whyItem >= 0 && whyItem < len(items) {
			p.ItemText = string(items[whyItem])
		}
		return p
	}
	// Handler invocations: exactly one per member that must run, none otherwise.
	need := map[string]int{}
	may := 0
	for _, m := range exp.Members {
		if m.Handler {
			need[m.Method+"\x00"+m.IDText]++
		} else if m.DontCare != "" {
			may++
		}
	}
	extra := 0
	for _, in := range invs {
		key := in.Method + "\x00" + in.ID
		if need[key] > 0 {
			need[key]--
		} else {
			extra++
		}
	}
	for k, n := range need {
		if n > 0 {
			return problem(prop+"/handler-not-run", "no handler invocation for a valid request (method\\0id = %q); invocations: %+v", k, invs)
		}
	}
	if extra > may {
		return problem(prop+"/handler-ran-for-non-request", "%d handler invocation(s) that no valid request of this record accounts for: %+v", extra-may, invs)
	}
	return nil
}

func idMatches(echo, got string) bool {
	if echo == "null" || got == "null" {
		return echo == got
	}
	return refrpc.IDEqual(echo, got)
}

func satisfies(m refrpc.Member, r refrpc.Response, invs []Invocation, used map[int]bool) (bool, int, string) {
	if !idMatches(m.Echo, r.ID) {
		return false, -1, fmt.Sprintf("id is %s, want %s", r.ID, m.Echo)
	}
	switch m.Reply {
	case refrpc.ErrorReply:
		if !r.IsError {
			return false, -1, "want an error"
		}
		for _, c := range m.Codes {
			if r.Code == c {
				return true, -1, ""
			}
		}
		return false, -1, fmt.Sprintf("error code %d not in %v", r.Code, m.Codes)
	case refrpc.InfoReply:
		if r.IsError {
			return false, -1, "rpc.serverInfo answered with an error"
		}
		var info struct {
			Methods   []string        `json:"methods"`
			Metrics   json.RawMessage `json:"metrics"`
			StartTime string          `json:"startTime"`
		}
		if err := json.Unmarshal(r.Result, &info); err != nil || info.StartTime == "" || len(info.Metrics) == 0 {
			return false, -1, fmt.Sprintf("not a server info object (%v)", err)
		}
		return true, -1, ""
	case refrpc.HandlerReply:
		// The reply must be the outcome of exactly one invocation for this call.
		for idx, in := range invs {
			if used[idx] || in.Method != m.Method || in.ID != m.IDText {
				continue
			}
			if replyIsOutcome(r, in) {
				return true, idx, ""
			}
		}
		return false, -1, "it is not the outcome of an unused handler invocation of this call"
	}
	return true, -1, ""
}

// replyIsOutcome reports whether response r is what the server must send for
// invocation in, given what the handler returned.
func replyIsOutcome(r refrpc.Response, in Invocation) bool {
	switch {
	case in.Ret == "ok":
		var tok sim.Token
		return !r.IsError && json.Unmarshal(r.Result, &tok) == nil && tok.Inv == in.Inv && tok.K == in.K
	case strings.HasPrefix(in.Ret, "errnomsg:"):
		var c int
		fmt.Sscanf(in.Ret[len("errnomsg:"):], "%d", &c)
		return r.IsError && r.Code == c && r.Message == ""
	case len(in.Ret) > 4 && in.Ret[:4] == "err:":
		var c int
		fmt.Sscanf(in.Ret[4:], "%d", &c)
		if !r.IsError || r.Code != c {
			return false
		}
		if len(r.Data) != 0 {
			var tok sim.Token
			return json.Unmarshal(r.Data, &tok) == nil && tok.Inv == in.Inv
		}
		return r.Message == fmt.Sprintf("handler error %d", in.K)
	case in.Ret == "ctxerr:canceled":
		return r.IsError && r.Code == -32097
	case in.Ret == "ctxerr:deadline":
		return r.IsError && r.Code == -32096
	case in.Ret == "bad":
		return r.IsError
	case strings.HasPrefix(in.Ret, "raw:"):
		return !r.IsError && jsonEqual(string(r.Result), in.Ret[4:])
	case in.Ret == "rawnull":
		return !r.IsError && string(bytes.TrimSpace(r.Result)) == "null"
	}
	return false
}
