package oracle

import (
	"encoding/json"
	"fmt"
	"os"
	"sort"
	"strings"

	"verif/harness/ref/refjson"
	"verif/harness/ref/refrpc"
	"verif/harness/sim"
)

// member is the model's view of one member of an arrived record.
type member struct {
	rec, idx      int
	exp           refrpc.Member // structural classification (no dynamic state)
	k             int           // nonce (-1 = none)
	runs          bool          // a handler must run for it (valid request with a resolvable method), barring duplicates / cancellation
	reserves      bool
	maybeReserves bool // it reserves its id when assigned (valid call with a non-empty method)
	builtin       bool

	enterSeq, exitSeq int // -1 = not yet
	inv               int
	ret               string
	ctxDoneSeq        int
	ctxDoneErr        string
	enterCtxErr       string

	dup              string // "", "yes" (definitely rejected as duplicate), "maybe"
	cancelled        string // "", "yes" (a CancelRequest definitely hit it), "maybe"
	cancelledWaiting bool
	expired          bool // its base context deadline certainly passed before it could start
	expiredRan       bool
	expiredMaybe     bool // assigned while the clock was being advanced: its context may or may not have ended
}

type record struct {
	idx            int
	raw            []byte
	step           int
	sentSeq        int
	skipped        bool // holds only replies: never queued
	exp            refrpc.Record
	members        []*member
	wire           [][]byte
	wireSeq        []int
	failed         bool // the peer could not deliver it
	builtinChecked bool
	queued         bool // goes through the request queue (not a top-level parse error / empty batch)
	assignedBy     int  // seq of the quiescent point by which it was certainly assigned (-1 unknown)
	assignedT      int64
}

// ServerOptions selects what the checker may assume.
type ServerOptions struct {
	Limit int // concurrency limit in force
}

// ServerCheck replays a history of a server-side scenario against the
// sequential model (arrival order, notification barrier, id reservations,
// concurrency limit) and returns every clause violation found, tagged by
// property ("C01/...", "C03/...", "C06/...", "C07/...").
func ServerCheck(sc sim.Scenario, h *sim.History, opt ServerOptions) []Problem {
	var probs []Problem
	add := func(sig, f string, a ...any) { probs = append(probs, Problem{Sig: sig, Msg: fmt.Sprintf(f, a...)}) }
	cfg := refrpc.Config{AllowPush: sc.Cfg.AllowPush, Builtin: !sc.Cfg.DisableBuiltin, Resolve: func(m string) bool { return sim.Known[m] }}
	// Ids of the callbacks the server issues in this history: a member that is
	// not request-shaped and bears one of them may be taken for that callback's
	// reply (when exactly it is outstanding is not modelled here: either way).
	cbIDs := map[string]bool{}
	for _, e := range h.Events {
		if e.Kind != "wire" {
			continue
		}
		if ms, ok := refjson.Members([]byte(e.Data)); ok {
			id, isReq := "", false
			for _, m := range ms {
				switch m.Key {
				case "method":
					isReq = true
				case "id":
					id = string(m.Value)
				}
			}
			if isReq && id != "" {
				cbIDs[id] = true
			}
		}
	}
	if len(cbIDs) > 0 {
		cfg.MaybeCallback = func(id string) bool { return cbIDs[id] }
	}

	// ---- pass 1: records in arrival order ---------------------------------
	var queueSteps []int
	var recs []*record
	byK := map[int]*member{}
	for _, e := range h.Events {
		switch e.Kind {
		case "queue":
			queueSteps = append(queueSteps, e.Step)
		case "sent":
			if e.Err != "" && len(recs) > 0 {
				recs[len(recs)-1].failed = true // the connection was already dead
			}
		case "sending":
			r := &record{idx: len(recs), raw: []byte(e.Data), sentSeq: e.Seq, assignedBy: -1}
			if len(recs) < len(queueSteps) {
				r.step = queueSteps[len(recs)]
			}
			r.exp = refrpc.Classify(cfg, r.raw)
			r.queued = r.exp.Top == "members"
			// A record that holds nothing but well-formed replies is consumed or
			// dropped by the reader of a push-enabled server: it never enters the queue.
			if r.queued && cfg.AllowPush && len(r.exp.Members) > 0 {
				r.skipped = true
				for _, m := range r.exp.Members {
					if m.Class != refrpc.ReplyShaped || m.Reply != refrpc.NoReply {
						r.skipped = false
					}
				}
			}
			for i, m := range r.exp.Members {
				mm := &member{rec: r.idx, idx: i, exp: m, k: nonceOf(m.Params), enterSeq: -1, exitSeq: -1, ctxDoneSeq: -1}
				mm.builtin = cfg.Builtin && strings.HasPrefix(m.Method, "rpc.")
				isReq := m.Class == refrpc.Call || m.Class == refrpc.Notification
				mm.runs = isReq && m.DontCare == "" && m.Handler
				mm.reserves = m.Class == refrpc.Call && m.DontCare == "" && m.Reply != refrpc.AnyReply
				// a call-shaped member the reference is unsure about may hold its id as well
				mm.maybeReserves = !mm.reserves && m.HasID && m.Method != "" && (m.DontCare != "" || m.Reply == refrpc.AnyReply)
				if mm.runs && mm.k >= 0 {
					if byK[mm.k] != nil {
						mm.k = -2 // generator bug: duplicate nonce; ignore attribution
					} else {
						byK[mm.k] = mm
					}
				}
				r.members = append(r.members, mm)
			}
			// A record whose members are all discarded replies never enters the queue either.
			recs = append(recs, r)
		}
	}

	arrived := 0 // records whose arrival has been replayed so far
	cur := func() []*record { return recs[:arrived] }

	// ---- helpers over the model state --------------------------------------
	finished := func(m *member) bool {
		if m.exitSeq >= 0 {
			return true
		}
		if !m.runs || m.dup == "yes" || m.cancelledWaiting || m.expired {
			return true
		}
		return false
	}
	recDone := func(r *record) bool {
		for _, m := range r.members {
			if !finished(m) {
				return false
			}
		}
		return true
	}
	hasReply := func(r *record) bool { return len(r.wire) > 0 }
	// started(j): every notification of an earlier record that runs has exited.
	startedUpTo := func() int { // returns the number of leading records that have started
		n := 0
		for _, r := range cur() {
			if !r.queued || r.skipped {
				n++
				continue
			}
			n++
			blocked := false
			for _, m := range r.members {
				if m.runs && m.exp.Class == refrpc.Notification && m.dup != "yes" && m.exitSeq < 0 && !m.expired {
					blocked = true
				}
			}
			if blocked {
				break
			}
		}
		return n
	}

	// headOf: records with an index up to this one have been taken out of the
	// queue (assigned): all started ones plus the first queued record behind
	// them, which waits at the barrier (records that were never queued do not count).
	headOf := func(started int) int {
		for _, r := range cur() {
			if r.idx >= started && r.queued && !r.skipped {
				return r.idx
			}
		}
		return started
	}

	// ---- attribution of outbound records -----------------------------------
	idOwner := map[string][]*record{}
	for _, r := range recs {
		for _, m := range r.members {
			if m.exp.Echo != "null" {
				idOwner[m.exp.Echo] = append(idOwner[m.exp.Echo], r)
			}
		}
	}
	// uncertainBefore: an earlier notification may or may not still hold the barrier
	uncertainBefore := func(r *record) bool {
		for _, o := range recs[:r.idx] {
			for _, m := range o.members {
				if m.expiredMaybe {
					return true
				}
			}
		}
		return false
	}
	// dynamic expectation of a record: the structural one refined by what the
	// model knows (duplicates, cancellations, races).
	expFor := func(r *record) (refrpc.Record, []Invocation) {
		exp := r.exp
		exp.Members = append([]refrpc.Member(nil), exp.Members...)
		var invs []Invocation
		for i, m := range r.members {
			em := &exp.Members[i]
			switch {
			case m.dup == "yes":
				em.Reply, em.Codes, em.Handler = refrpc.ErrorReply, []int{-32600}, false
			case m.dup == "maybe" || m.cancelled == "maybe" || m.expiredMaybe:
				if m.exp.Class == refrpc.Call {
					em.Reply = refrpc.AnyReply
				}
				em.DontCare, em.Handler = "race", false
			case m.cancelledWaiting:
				em.Reply, em.Codes, em.Handler = refrpc.ErrorReply, []int{-32097}, false
			case m.builtin && sc.Cfg.BaseDeadlineMs > 0 && m.exp.Class == refrpc.Call:
				// a built-in waiting for a slot is subject to the base deadline as well
				em.Reply, em.DontCare = refrpc.AnyReply, "built-in under a base deadline"
			case m.expired && m.enterSeq >= 0:
				// it ran although its deadline had passed first: the property is silent
				if m.exp.Class == refrpc.Call {
					em.Reply = refrpc.AnyReply
				}
				em.DontCare, em.Handler = "ran after its base deadline", false
			case m.expired:
				if m.exp.Class == refrpc.Call {
					em.Reply, em.Codes = refrpc.ErrorReply, []int{-32096}
				}
				em.Handler = false
			}
			if m.enterSeq >= 0 {
				invs = append(invs, Invocation{K: m.k, Inv: m.inv, Method: m.exp.Method, ID: m.exp.IDText, Note: m.exp.Class == refrpc.Notification, Ret: m.ret})
			}
		}
		return exp, invs
	}
	type pendingWire struct {
		data []byte
		seq  int
	}
	var pending []pendingWire
	give := func(r *record, w pendingWire) {
		r.wire = append(r.wire, w.data)
		r.wireSeq = append(r.wireSeq, w.seq)
	}
	// byToken attributes an outbound record through a handler token it carries.
	byToken := func(data []byte) *record {
		items, _, err := refrpc.SplitReply(data)
		if err != nil {
			return nil
		}
		for _, it := range items {
			rsp, err := refrpc.ParseResponse(it)
			if err != nil {
				continue
			}
			var tok sim.Token
			src := rsp.Result
			if rsp.IsError {
				src = rsp.Data
			}
			if len(src) > 0 && src[0] == '{' && json.Unmarshal(src, &tok) == nil && tok.Inv > 0 {
				if m := byK[tok.K]; m != nil && m.inv == tok.Inv {
					return recs[m.rec]
				}
			}
		}
		return nil
	}
	// pendingMentions: some not yet attributed outbound record carries this id,
	// so an earlier use of the id may have been answered in this interval.
	pendingMentions := func(id string) bool {
		for _, w := range pending {
			items, _, err := refrpc.SplitReply(w.data)
			if err != nil {
				continue
			}
			for _, it := range items {
				if rsp, err := refrpc.ParseResponse(it); err == nil && rsp.ID != "null" && idMatches(id, rsp.ID) {
					return true
				}
			}
		}
		return false
	}
	// flush attributes the pending protocol-only outbound records. Attribution
	// is existential: an assignment of messages to records under which every
	// message is a correct reply is looked for first (backtracking); only if
	// there is none are they assigned greedily, which then shows up as a
	// violation.
	flush := func() {
		type cand struct {
			recs []*record
			pass map[*record]bool
		}
		var ws []pendingWire
		var cs []cand
		for _, w := range pending {
			items, isArr, err := refrpc.SplitReply(w.data)
			if err != nil {
				add("C01/malformed-output", "server sent %q: %v", w.data, err)
				continue
			}
			var cands []*record
			seen := map[*record]bool{}
			for _, it := range items {
				rsp, err := refrpc.ParseResponse(it)
				if err != nil || rsp.ID == "null" {
					continue
				}
				for id, owners := range idOwner {
					if !idMatches(id, rsp.ID) {
						continue
					}
					for _, o := range owners {
						if o.idx < arrived && !hasReply(o) && !seen[o] {
							seen[o] = true
							cands = append(cands, o)
						}
					}
				}
			}
			if len(cands) == 0 {
				for _, r := range cur() {
					if !hasReply(r) && canProduceNullOnly(r, len(items), isArr) {
						cands = append(cands, r)
					}
				}
			}
			// Prefer records that use exactly the id text of the reply, then arrival order.
			textual := func(r *record) bool {
				for _, it := range items {
					rsp, err := refrpc.ParseResponse(it)
					if err != nil || rsp.ID == "null" {
						continue
					}
					for _, m := range r.members {
						if m.exp.Echo == rsp.ID {
							return true
						}
					}
				}
				return false
			}
			sort.SliceStable(cands, func(i, j int) bool {
				ti, tj := textual(cands[i]), textual(cands[j])
				if ti != tj {
					return ti
				}
				// a record with a handler still running cannot have been answered
				if di, dj := recDone(cands[i]), recDone(cands[j]); di != dj {
					return di
				}
				return cands[i].idx < cands[j].idx
			})
			c := cand{recs: cands, pass: map[*record]bool{}}
			for _, r := range cands {
				exp, invs := expFor(r)
				c.pass[r] = MatchReplies("x", exp, [][]byte{w.data}, invs) == nil
				for _, m := range r.members {
					if m.enterSeq >= 0 && (m.exitSeq < 0 || m.exitSeq > w.seq) {
						c.pass[r] = false // a handler of this record was still running when the message was sent
					}
				}
			}
			if os.Getenv("VERIF_DEBUG") != "" {
				for _, r := range cands {
					exp, invs := expFor(r)
					fmt.Printf("cand wire %d rec %d pass=%v why=%v\n", w.seq, r.idx, c.pass[r], MatchReplies("x", exp, [][]byte{w.data}, invs))
				}
			}
			ws = append(ws, w)
			cs = append(cs, c)
		}
		pending = nil
		assign := make([]*record, len(ws))
		taken := map[*record]bool{}
		// Among the assignments under which every message is a correct reply of a
		// record that had arrived before it was sent, take one that leaves the
		// fewest records unanswered that definitely expect a reply, have started and
		// have no handler running, and answers the fewest that have not started (so that a record with a loose expectation
		// does not take the reply a definite one is waiting for).
		st := startedUpTo()
		// (a record that is no JSON at all or an empty array is answered by the
		// reader itself, whatever the barrier holds back)
		definite := func(r *record) bool { return !r.queued || (expectsReply(r) && recDone(r) && r.idx < st) }
		open := 0
		for _, r := range cur() {
			if !hasReply(r) && definite(r) {
				open++
			}
		}
		lower := open - len(ws)
		if lower < 0 {
			lower = 0
		}
		best, bestCost, nodes := []*record(nil), -1, 0
		// most constrained message first
		order := make([]int, len(ws))
		nAdm := make([]int, len(ws))
		for i := range ws {
			order[i] = i
			for _, r := range cs[i].recs {
				if cs[i].pass[r] && r.sentSeq <= ws[i].seq {
					nAdm[i]++
				}
			}
		}
		sort.SliceStable(order, func(a, b int) bool { return nAdm[order[a]] < nAdm[order[b]] })
		const budget = 200000
		var search func(k int)
		search = func(k int) {
			if nodes++; nodes > budget || bestCost == lower {
				return
			}
			if k == len(ws) {
				cost := 0
				for _, r := range cur() {
					if !hasReply(r) && !taken[r] && definite(r) {
						cost++
					}
					if taken[r] && r.queued && r.idx >= st {
						cost++ // answered although an earlier notification still holds the barrier
					}
				}
				if bestCost < 0 || cost < bestCost {
					best, bestCost = append([]*record(nil), assign...), cost
				}
				return
			}
			i := order[k]
			for _, r := range cs[i].recs {
				if taken[r] || !cs[i].pass[r] || r.sentSeq > ws[i].seq {
					continue
				}
				taken[r] = true
				assign[i] = r
				search(k + 1)
				taken[r] = false
			}
		}
		search(0)
		if best == nil && nodes > budget {
			// The search ran out of budget before it found any consistent
			// assignment: nothing that depends on attribution can be judged.
			add("undecided/attribution", "attribution of %d id-less outbound records was not decided within the search budget", len(ws))
		}
		if best != nil {
			copy(assign, best)
		} else {
			// greedy fallback
			taken = map[*record]bool{}
			for i := range ws {
				assign[i] = nil
				for _, pref := range []func(*record) bool{func(r *record) bool { return cs[i].pass[r] }, recDone, func(*record) bool { return true }} {
					for _, r := range cs[i].recs {
						if !taken[r] && pref(r) {
							assign[i] = r
							break
						}
					}
					if assign[i] != nil {
						break
					}
				}
				if assign[i] != nil {
					taken[assign[i]] = true
				}
			}
		}
		for i, w := range ws {
			if assign[i] == nil {
				add("C01/stray-output", "outbound record %q cannot be attributed to any inbound record still lacking a reply", w.data)
				continue
			}
			if os.Getenv("VERIF_DEBUG") != "" {
				fmt.Printf("attribute wire seq %d -> record %d (cands %d)\n", w.seq, assign[i].idx, len(cs[i].recs))
			}
			give(assign[i], w)
		}
	}

	// final: every record fully answered, every handler exactly once
	finalCheck := func() {
		flush()
		{
			for _, r := range cur() {
				exp, invs := expFor(r)
				for _, m := range r.members {
					if m.enterSeq >= 0 && m.exitSeq < 0 {
						add("C01/handler-never-returned", "handler nonce %d never returned although it was released", m.k)
					}
				}
				if p := MatchReplies("C01", exp, r.wire, invs); p != nil {
					p.Msg = fmt.Sprintf("record %d %s: %s", r.idx, r.raw, p.Msg)
					// a mismatch belongs to C07 only if the member or the reply at fault is
					// about duplicate-id handling
					dupInvolved := strings.Contains(p.ItemText, "duplicate request ID")
					if p.Member >= 0 && p.Member < len(r.members) && r.members[p.Member].dup == "yes" {
						dupInvolved = true
					}
					if dupInvolved && (p.Sig == "C01/reply-mismatch" || p.Sig == "C01/handler-ran-for-non-request" || p.Sig == "C01/handler-not-run") {
						// ... but a well-formed call whose id the model knows to be free and
						// which is turned away as a duplicate is also a call whose handler
						// never ran (C01), whatever went wrong with the id bookkeeping
						if p.Member >= 0 && p.Member < len(r.members) && r.members[p.Member].dup == "" && r.members[p.Member].runs && r.members[p.Member].enterSeq < 0 {
							q := *p
							q.Sig = "C01/valid-call-turned-away"
							probs = append(probs, q)
						}
						p.Sig = "C07/duplicate-id-handling"
					}
					// ... and to C06 if the member at fault is a call whose context ended
					// while it was waiting for a slot (it must be answered with the
					// cancellation / deadline error, without running)
					if p.Member >= 0 && p.Member < len(r.members) && (r.members[p.Member].cancelledWaiting || r.members[p.Member].expired) &&
						(p.Sig == "C01/reply-mismatch" || p.Sig == "C01/handler-ran-for-non-request") {
						p.Sig = "C06/waiting-call-cancellation-reply"
					}
					probs = append(probs, *p)
				}
				for i, s := range r.wireSeq {
					for _, m := range r.members {
						if m.exitSeq > s {
							add("C01/reply-before-handlers-returned", "record %d %s: outbound message #%d precedes the return of handler nonce %d", r.idx, r.raw, i, m.k)
						}
					}
				}
			}
		}
	}

	// ---- pass 2: replay ---------------------------------------------------
	limit := opt.Limit
	type qInfo struct{ seq, running int }
	var qInfos []qInfo
	var suspects [][2]*member
	advancedSince := false
	var exitSeqs []int
	stopped := false
	lastQuiesce := -1
	type cancelRec struct {
		id   string
		seq  int
		step int
	}
	var pendingCancels []cancelRec
	holder := func(id string) (*member, bool) { // who holds the reservation of id now; ok=false when ambiguous
		var h *member
		ambiguous := false
		started := startedUpTo()
		for _, r := range cur() {
			if !r.queued || hasReply(r) {
				continue
			}
			// assigned by now? records up to index `started` (the one blocked at the barrier) are assigned
			if r.idx > headOf(started) {
				continue
			}
			for _, m := range r.members {
				if !m.reserves || m.exp.IDText != id || m.dup == "yes" {
					continue
				}
				if m.dup == "maybe" {
					ambiguous = true
					continue
				}
				if r.idx == started && r.idx > 0 {
					// blocked at the barrier or possibly not yet popped: assigned only if the previous one started
					// (it is, by definition of started), so it is assigned.
				}
				h = m
			}
		}
		return h, !ambiguous
	}

	burstOf := func(step int) (lo, hi int) { // the window of consecutive steps racing with step
		lo, hi = step, step
		for lo > 0 && lo-1 < len(sc.Steps) && sc.Steps[lo-1].Burst {
			lo--
		}
		for hi < len(sc.Steps) && sc.Steps[hi].Burst {
			hi++
		}
		return
	}

	for _, e := range h.Events {
		switch e.Kind {
		case "stop", "peerclose", "recvfault":
			if e.Kind == "peerclose" && e.Flag == "epilogue" && !stopped {
				finalCheck()
			}
			stopped = true
		case "advance":
			advancedSince = true
		case "sending":
			arrived++
		case "enter":
			m := byK[e.K]
			if m == nil {
				add("C01/handler-for-non-request", "a handler (%s, id %q, nonce %d) ran for something that is not a valid request of any arrived record", e.Method, e.ID, e.K)
				continue
			}
			if m.enterSeq >= 0 {
				add("C01/handler-ran-twice", "the handler for nonce %d (record %d %s) was invoked twice", e.K, m.rec, recs[m.rec].raw)
				continue
			}
			m.enterSeq, m.inv, m.enterCtxErr = e.Seq, e.Inv, e.Err
			if e.Flag != "" {
				add("C17/context-values", "handler for nonce %d: %s", e.K, e.Flag)
			}
			if e.Method != m.exp.Method || e.ID != m.exp.IDText || e.Note != (m.exp.Class == refrpc.Notification) {
				add("C01/handler-wrong-request", "handler saw method=%q id=%q notification=%v for member %s", e.Method, e.ID, e.Note, m.exp.Raw)
			}
			// C03 safety: every running notification of an earlier record has exited.
			for _, r := range recs[:m.rec] {
				for _, n := range r.members {
					if n.runs && n.exp.Class == refrpc.Notification && n.dup != "yes" && n.exitSeq < 0 {
						// judged at the next quiescent point: the notification may turn out
						// to have lost its context (base deadline) before it could start
						suspects = append(suspects, [2]*member{m, n})
					}
				}
			}
			if m.dup == "yes" {
				add("C07/duplicate-id-request-ran", "member %s was definitely a duplicate of an in-flight id but its handler ran", m.exp.Raw)
			}
			if m.cancelledWaiting {
				add("C06/cancelled-waiter-ran", "call nonce %d was cancelled while waiting for a slot, yet its handler ran", m.k)
			}
			if hasReply(recs[m.rec]) {
				add("C01/reply-before-handler", "record %d was answered before its handler nonce %d ran", m.rec, m.k)
			}
		case "exit":
			exitSeqs = append(exitSeqs, e.Seq)
			if m := byK[e.K]; m != nil && m.inv == e.Inv {
				m.exitSeq, m.ret = e.Seq, e.Ret
			}
		case "ctxdone":
			if m := byK[e.K]; m != nil && m.inv == e.Inv {
				m.ctxDoneSeq, m.ctxDoneErr = e.Seq, e.Err
			}
		case "wire", "sendfault":
			// (a record the channel refused was still produced and handed to Send:
			// for what the server owes its peer it counts like one that went out)
			if isPushRequest([]byte(e.Data)) {
				continue // a server-initiated request, judged by PushCheck
			}
			w := pendingWire{[]byte(e.Data), e.Seq}
			if r := byToken(w.data); r != nil {
				give(r, w)
			} else {
				pending = append(pending, w)
			}
		case "cancel":
			pendingCancels = append(pendingCancels, cancelRec{e.ID, e.Seq, e.Step})
			// Decide whom it hits, from the state at the preceding quiescent point
			// plus what raced with it.
			lo, hi := burstOf(e.Step)
			racesSend := false
			for s := lo; s <= hi && s < len(sc.Steps); s++ {
				if sc.Steps[s].Op == "send" && strings.Contains(string(sc.Steps[s].Rec), `"id":`+e.ID) {
					racesSend = true
				}
			}
			hm, sure := holder(e.ID)
			alone := lo == hi
			switch {
			case racesSend || !sure || (!alone && (hm == nil || hm.enterSeq < 0)):
				// The cancel races with steps that can change who holds the id
				// (arrivals, or releases that let queued records be assigned).
				for _, r := range recs {
					if r.idx >= arrived && (r.step < lo || r.step > hi) {
						continue
					}
					for _, m := range r.members {
						if m.exp.IDText == e.ID && m.exitSeq < 0 {
							m.cancelled = "maybe"
						}
					}
				}
			case hm != nil && hm.exitSeq < 0:
				racesRelease := false
				for s := lo; s <= hi && s < len(sc.Steps); s++ {
					// anything that can free a slot in the same window makes the race open:
					// a release, or another cancel (its target may obey and return)
					if sc.Steps[s].Op == "release" || (sc.Steps[s].Op == "cancel" && s != e.Step) {
						racesRelease = true
					}
				}
				if hm.cancelled == "" {
					hm.cancelled = "yes"
				}
				if hm.enterSeq < 0 && hm.runs && hm.rec < startedUpTo() && !racesRelease && !hm.builtin {
					hm.cancelledWaiting = true // it was waiting for a slot
				} else if hm.enterSeq < 0 {
					hm.cancelled = "maybe" // cancelled before it could start: the property is silent
				}
			}
		case "quiesce":
			lastQuiesce = e.Seq
			if stopped {
				flush()
				continue
			}
			started := startedUpTo()
			advancedNow := advancedSince
			for iter := 0; iter < 12; iter++ {
				before := started
				// Duplicate-id resolution for records assigned by now.
				for _, r := range cur() {
					if !r.queued || r.idx > headOf(started) || r.assignedBy >= 0 {
						continue
					}
					r.assignedBy = e.Seq
					r.assignedT = e.T
					for _, m := range r.members {
						if !m.reserves || m.exp.IDText == "" {
							continue
						}
						for _, o := range recs[:r.idx] {
							for _, om := range o.members {
								if om.maybeReserves && om.exp.IDText == m.exp.IDText && !(hasReply(o) && o.wireSeq[0] < r.sentSeq) {
									if m.dup == "" {
										m.dup = "maybe"
									}
									continue
								}
								if !om.reserves || om.exp.IDText != m.exp.IDText || om.dup == "yes" {
									continue
								}
								switch {
								case hasReply(o) && o.wireSeq[0] < r.sentSeq:
									// finished before this record even arrived: not in flight
								case !hasReply(o) && om.dup == "" && !pendingMentions(m.exp.IDText):
									m.dup = "yes" // still unanswered now, so it was in flight when this one was assigned
								default:
									if m.dup == "" {
										m.dup = "maybe"
									}
								}
							}
						}
					}
				}
				if base := int64(sc.Cfg.BaseDeadlineMs) * 1e6; base > 0 {
					for _, r := range cur() {
						if !r.queued || r.assignedBy < 0 {
							continue
						}
						for _, m := range r.members {
							if m.runs && m.enterSeq < 0 && !m.expired && m.dup != "yes" && e.T > r.assignedT+base+2e6 {
								m.expired = true
							}
							// assigned (for all we know) during an interval in which the clock
							// was advanced: its context was created at an unknown moment of it
							if m.runs && m.enterSeq < 0 && !m.expired && advancedNow && r.assignedBy == e.Seq {
								m.expiredMaybe = true
							}
							if m.enterSeq >= 0 {
								m.expiredMaybe = false
							}
						}
					}
					advancedSince = false
					started = startedUpTo() // expiry may have opened the barrier
				}
				if started == before {
					break
				}
			}
			for _, sp := range suspects {
				m, n := sp[0], sp[1]
				if (!n.expired && !n.expiredMaybe) || n.enterSeq >= 0 {
					add("C03/started-before-earlier-notification-finished", "request nonce %d of record %d (%s) started while notification nonce %d of earlier record %d (%s) had not returned", m.k, m.rec, recs[m.rec].raw, n.k, n.rec, recs[n.rec].raw)
				}
			}
			suspects = nil
			flush()
			// Per-record expectations at this quiescent point.
			running, waiting := 0, 0
			earlierCallRunning := false
			for _, r := range cur() {
				for _, m := range r.members {
					if m.enterSeq >= 0 && m.exitSeq < 0 {
						running++
						if m.exp.Class == refrpc.Call {
							earlierCallRunning = true
						}
					}
				}
			}
			for _, r := range cur() {
				if !r.queued {
					if !hasReply(r) {
						add("C01/top-level-error-not-sent", "record %d %s (%s) has no reply at the next quiescent point", r.idx, r.raw, r.exp.Top)
					}
					continue
				}
				isStarted := r.idx < started
				for _, m := range r.members {
					if !isStarted {
						continue
					}
					if m.runs && m.enterSeq < 0 && m.dup == "" && m.cancelled == "" && !m.builtin && !m.expired && !m.expiredMaybe {
						if os.Getenv("VERIF_DEBUG") != "" {
							fmt.Printf("waiting at %d: rec %d member k=%d id=%s\n", e.Seq, r.idx, m.k, m.exp.IDText)
						}
						waiting++
					}
				}
				if os.Getenv("VERIF_DEBUG") != "" {
					fmt.Printf("quiesce %d rec %d hasReply=%v started=%v done=%v expects=%v\n", e.Seq, r.idx, hasReply(r), isStarted, recDone(r), expectsReply(r))
				}
				switch {
				case hasReply(r) && !isStarted && !uncertainBefore(r):
					add("C03/record-answered-before-barrier", "record %d %s was answered although an earlier notification has not returned", r.idx, r.raw)
				case hasReply(r) && !recDone(r) && !ambiguous(r):
					add("C01/reply-before-handlers-returned", "record %d %s was answered (%q) while one of its handlers is still running", r.idx, r.raw, r.wire)
				case !hasReply(r) && isStarted && recDone(r) && expectsReply(r) && !ambiguous(r) && !builtinWaiting(r, running, limit) && earlierCallRunning:
					add("C03/later-request-delayed", "record %d %s is not answered although nothing but a still-running call precedes it", r.idx, r.raw)
				case !hasReply(r) && isStarted && recDone(r) && expectsReply(r) && !ambiguous(r) && !builtinWaiting(r, running, limit):
					add("C01/reply-missing-at-quiescence", "record %d %s: all its handlers have returned and nothing blocks it, but no reply was sent", r.idx, r.raw)
				}
			}
			qInfos = append(qInfos, qInfo{e.Seq, running})
			if limit > 0 {
				// A built-in call that arrived when every slot was parked must not be
				// answered before a slot was given back.
				for _, r := range cur() {
					if !hasReply(r) || r.builtinChecked || sc.Cfg.BaseDeadlineMs > 0 {
						continue
					}
					r.builtinChecked = true
					isInfo := false
					for _, m := range r.members {
						if m.builtin && m.exp.Reply == refrpc.InfoReply && m.dup == "" && m.cancelled == "" {
							isInfo = true
						}
					}
					if !isInfo {
						continue
					}
					// the last quiescent point before the record arrived
					var before *qInfo
					for i := range qInfos {
						if qInfos[i].seq < r.sentSeq {
							before = &qInfos[i]
						}
					}
					if before == nil || before.running < limit {
						continue
					}
					freed := false
					for _, x := range exitSeqs {
						if x > before.seq && x < r.wireSeq[0] {
							freed = true
						}
					}
					if !freed {
						add("C06/builtin-beyond-limit", "record %d %s (built-in method) was answered while all %d slots were occupied by parked handlers and none had been released", r.idx, r.raw, limit)
					}
				}
				if running > limit {
					add("C06/limit-exceeded", "%d handlers executing at a quiescent point, limit %d", running, limit)
				}
				if waiting > 0 && running < limit {
					// Why does a dispatched request not run although a slot is free?  The
					// same symptom with a still-running earlier call and a far-from-saturated
					// limit is a later request being held back (C03); otherwise the slot
					// accounting is at fault (C06).
					if earlierCallRunning && running*4 < limit {
						add("C03/later-request-delayed", "%d request(s) of started records have not begun although an earlier call is merely still running and only %d of %d slots are in use", waiting, running, limit)
					} else {
						add("C06/not-work-conserving", "%d dispatched request(s) have not started although only %d of %d slots are in use", waiting, running, limit)
						if earlierCallRunning {
							// the same fact read as C03's last clause: below the limit, a call
							// that is merely still running holds back requests that came later
							add("C03/later-request-waits-below-limit", "%d request(s) of started records have not begun although only %d of %d slots are in use and nothing but still-running earlier calls precede them", waiting, running, limit)
						}
					}
				}
			}
			// Context states and reservations (C07).
			var wantReserved []string
			unsure := false
			for _, r := range cur() {
				if !r.queued || r.idx > headOf(started) || hasReply(r) {
					continue
				}
				for _, m := range r.members {
					if !m.reserves || m.dup == "yes" {
						continue
					}
					if m.dup == "maybe" {
						unsure = true
						continue
					}
					wantReserved = append(wantReserved, m.exp.IDText)
				}
				if ambiguous(r) {
					unsure = true
				}
			}
			if !unsure && e.Snap != nil && sc.Cfg.BaseDeadlineMs == 0 {
				sort.Strings(wantReserved)
				got := append([]string(nil), e.Snap.Reserved...)
				sort.Strings(got)
				if strings.Join(got, ",") != strings.Join(dedup(wantReserved), ",") {
					add("C07/reservations-differ", "reserved ids at quiescence are %v, the calls in flight are %v", got, dedup(wantReserved))
				}
			}
			for _, r := range cur() {
				for _, m := range r.members {
					if m.enterSeq < 0 || m.exitSeq >= 0 || sc.Cfg.BaseDeadlineMs != 0 {
						continue
					}
					seen := m.ctxDoneSeq >= 0 || m.enterCtxErr != ""
					switch {
					case seen && m.cancelled == "":
						add("C07/context-cancelled-without-cause", "the context of running call nonce %d (id %s, record %d) is cancelled (%s) although no CancelRequest named it and the server is up", m.k, m.exp.IDText, m.rec, m.ctxDoneErr+m.enterCtxErr)
					case !seen && m.cancelled == "yes":
						add("C07/cancel-not-delivered", "CancelRequest(%s) named running call nonce %d but its context is not cancelled at the next quiescent point", m.exp.IDText, m.k)
					}
				}
			}
		}
	}
	_ = lastQuiesce
	_ = pendingCancels

	return probs
}

func dedup(s []string) []string {
	var out []string
	for i, x := range s {
		if i == 0 || x != s[i-1] {
			out = append(out, x)
		}
	}
	return out
}

func ambiguous(r *record) bool {
	for _, m := range r.members {
		if m.dup == "maybe" || m.cancelled == "maybe" || m.exp.DontCare != "" || m.expiredMaybe {
			return true
		}
	}
	return false
}

// builtinWaiting: the record's only unfinished business is a built-in call
// that cannot get a slot because all slots are in use.
func builtinWaiting(r *record, running, limit int) bool {
	for _, m := range r.members {
		if m.builtin && m.exp.Reply == refrpc.InfoReply && limit > 0 && running >= limit {
			return true
		}
	}
	return false
}

func expectsReply(r *record) bool {
	for _, m := range r.members {
		if m.exp.Reply == refrpc.ErrorReply || m.exp.Reply == refrpc.HandlerReply || m.exp.Reply == refrpc.InfoReply {
			return true
		}
	}
	return false
}

func canProduceNullOnly(r *record, n int, isArr bool) bool {
	if r.exp.Top != "members" {
		return n == 1 && !isArr
	}
	if r.exp.Batch != isArr {
		return false
	}
	min, max := 0, 0
	for _, m := range r.members {
		switch m.exp.Reply {
		case refrpc.NoReply:
		case refrpc.AnyReply:
			max++
		default:
			if m.exp.Echo != "null" {
				return false
			}
			min++
			max++
		}
	}
	return n >= min && n <= max && max > 0
}

func nonceOf(params []byte) int {
	if len(params) == 0 {
		return -1
	}
	var o struct {
		K *int `json:"k"`
	}
	if params[0] == '{' {
		if json.Unmarshal(params, &o) == nil && o.K != nil {
			return *o.K
		}
		return -1
	}
	var arr []json.RawMessage
	if json.Unmarshal(params, &arr) == nil && len(arr) > 0 {
		var n int
		if json.Unmarshal(arr[0], &n) == nil {
			return n
		}
	}
	return -1
}

// isPushRequest: the outbound record is a request object (it has a method).
func isPushRequest(data []byte) bool {
	ms, ok := refjson.Members(data)
	if !ok {
		return false
	}
	for _, m := range ms {
		if m.Key == "method" {
			return true
		}
	}
	return false
}
