package oracle

import (
	"encoding/json"
	"fmt"

	"verif/harness/sim"
)

// CancelBeforeAcquire decides a case the sequential model has to leave open: a
// dispatched call that had arrived at the slot semaphore but not yet asked for a
// slot (it stood at the hook site in front of Acquire) when CancelRequest for
// its id began, and that only went on after CancelRequest had returned, asks
// for its slot with a context that is already cancelled.  C06: "a call whose
// context is cancelled while it waits for a slot is answered with a
// cancellation error without its handler ever running" - whether or not a slot
// has become free in the meantime.
func CancelBeforeAcquire(sc sim.Scenario, h *sim.History) (probs []Problem, decided int) {
	// id -> nonce, for ids that one request of the script carries
	idK := map[string]int{}
	uses := map[string]int{}
	for _, st := range sc.Steps {
		if st.Op != "send" {
			continue
		}
		var ms []json.RawMessage
		if json.Unmarshal(st.Rec, &ms) != nil {
			ms = []json.RawMessage{json.RawMessage(st.Rec)}
		}
		for _, m := range ms {
			var r struct {
				ID     json.RawMessage `json:"id"`
				Params struct {
					K *int `json:"k"`
				} `json:"params"`
			}
			if json.Unmarshal(m, &r) != nil || len(r.ID) == 0 || r.Params.K == nil {
				continue
			}
			uses[string(r.ID)]++
			idK[string(r.ID)] = *r.Params.K
		}
	}
	arrive, resume, entered := map[int]int{}, map[int]int{}, map[int]int{}
	cancelStart, cancelDone := map[string]int{}, map[string]int{}
	for _, e := range h.Events {
		switch e.Kind {
		case "acquire-arrive":
			if _, ok := arrive[e.K]; !ok {
				arrive[e.K] = e.Seq
			}
		case "acquire-resume":
			if _, ok := resume[e.K]; !ok {
				resume[e.K] = e.Seq
			}
		case "enter":
			if _, ok := entered[e.K]; !ok {
				entered[e.K] = e.Seq
			}
		case "cancel":
			if _, ok := cancelStart[e.ID]; !ok {
				cancelStart[e.ID] = e.Seq
			}
		case "cancel-done":
			if _, ok := cancelDone[e.ID]; !ok {
				cancelDone[e.ID] = e.Seq
			}
		}
	}
	for id, k := range idK {
		if uses[id] != 1 {
			continue
		}
		a, okA := arrive[k]
		r, okR := resume[k]
		cs, okS := cancelStart[id]
		cd, okD := cancelDone[id]
		if !(okA && okR && okS && okD && a < cs && cd < r) {
			continue
		}
		decided++
		if es, ran := entered[k]; ran {
			probs = append(probs, Problem{Sig: "C06/cancelled-before-acquire-ran", Msg: fmt.Sprintf("call id %s (nonce %d) stood in front of the slot semaphore (#%d) when CancelRequest(%s) began (#%d) and went on (#%d) only after it had returned (#%d): its context was cancelled before it asked for a slot, yet its handler ran (#%d)", id, k, a, id, cs, r, cd, es)})
		}
	}
	return probs, decided
}

// SlotsUsableAtEnd judges the tail of a CancelRaceScenario: after everything
// was released, as many parking calls as the server has slots were sent one by
// one; at the quiescent point after the last of them all of them are running.
// It returns how many are, and the limit.
func SlotsUsableAtEnd(sc sim.Scenario, h *sim.History) (running, limit int, ok bool) {
	limit = sc.Cfg.Concurrency
	// the probes are the last `limit` send steps
	var probeSteps []int
	for i := len(sc.Steps) - 1; i >= 0 && len(probeSteps) < limit; i-- {
		if sc.Steps[i].Op == "send" {
			probeSteps = append(probeSteps, i)
		}
	}
	if len(probeSteps) < limit || limit == 0 {
		return 0, limit, false
	}
	lastProbe := probeSteps[0]
	for _, e := range h.Events {
		if e.Kind == "quiesce" && e.Step == lastProbe && e.Snap != nil {
			return len(e.Snap.Parked), limit, true
		}
	}
	return 0, limit, false
}
