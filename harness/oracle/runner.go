package oracle

import (
	"fmt"
	"strings"
	"testing"

	"verif/harness/engine"
	"verif/harness/sim"
)

// RunServer executes a server scenario and judges it with ServerCheck,
// reporting only the clauses whose tag starts with one of the prefixes.
// nontrivial decides the non-triviality of the case from its facts.
func RunServer(t *testing.T, sc sim.Scenario, prefixes []string, nontrivial func(Facts) bool) engine.Verdict {
	h := sim.Run(t, sc)
	lim := sc.Cfg.Concurrency
	probs := ServerCheck(sc, h, ServerOptions{Limit: lim})
	if h.BubbleErr != "" {
		probs = append(probs, Problem{Sig: "C08/goroutines-left-or-deadlock", Msg: h.BubbleErr})
	}
	for _, e := range h.Events {
		if e.Kind == "waitstatus-blocked" {
			probs = append(probs, Problem{Sig: "C08/waitstatus-blocked", Msg: "WaitStatus did not return after the peer closed and every handler was released"})
		}
	}
	for _, o := range h.Overlaps {
		probs = append(probs, Problem{Sig: "C10/channel-contract", Msg: o})
	}
	for i, n := range h.CloseCalls {
		if n != 1 {
			probs = append(probs, Problem{Sig: "C10/close-count", Msg: fmt.Sprintf("connection %d: the library called Close %d times", i+1, n)})
		}
	}
	for _, rec := range h.SrvSent {
		if msg := wholeMessage(rec); msg != "" {
			probs = append(probs, Problem{Sig: "C10/malformed-record", Msg: fmt.Sprintf("the server passed %q to Send: %s", rec, msg)})
		}
	}
	if lim > 0 && h.MaxRunning > lim {
		probs = append(probs, Problem{Sig: "C06/limit-exceeded", Msg: fmt.Sprintf("%d handlers were executing at one instant, limit %d", h.MaxRunning, lim)})
	}
	// Model-based clauses lean on each other: the slot and reservation
	// predicates assume that dispatch (C01) and the barrier (C03) behave, so
	// they are not reported for a scenario that already shows such a problem
	// (it is counted under other-clause instead; C01/C03 report it themselves).
	for _, p := range probs {
		if p.Sig == "undecided/attribution" {
			f := Describe(sc, h)
			return engine.Verdict{NonTrivial: false, Labels: append(f.Labels(), "dontcare:attribution-undecided")}
		}
	}
	basic, c01 := false, false
	for _, p := range probs {
		if (strings.HasPrefix(p.Sig, "C01/") || strings.HasPrefix(p.Sig, "C03/")) && p.Sig != "C03/later-request-waits-below-limit" {
			basic = true
		}
		if strings.HasPrefix(p.Sig, "C01/") {
			c01 = true
		}
	}
	for _, p := range probs {
		if basic && (p.Sig == "C06/not-work-conserving" || strings.HasPrefix(p.Sig, "C07/")) {
			continue
		}
		if c01 && (p.Sig == "C03/record-answered-before-barrier" || p.Sig == "C03/later-request-delayed" || p.Sig == "C03/later-request-waits-below-limit") {
			continue // attribution of outbound messages is not to be trusted in this scenario
		}
		for _, pre := range prefixes {
			if strings.HasPrefix(p.Sig, pre) {
				return engine.Failf(p.Sig, "%s\nscript:\n%s\nhistory:\n%s", p.Msg, ScriptText(sc), HistoryText(h))
			}
		}
	}
	f := Describe(sc, h)
	v := engine.Verdict{NonTrivial: nontrivial(f), Labels: f.Labels()}
	for _, p := range probs {
		v.Labels = append(v.Labels, "other-clause:"+p.Sig)
	}
	if sc.Cfg.NoHooks {
		v.Labels = append(v.Labels, "no-hooks")
	}
	return v
}

// ScriptText renders a script for failure messages.
func ScriptText(sc sim.Scenario) string {
	var sb strings.Builder
	fmt.Fprintf(&sb, "  cfg: %+v\n", sc.Cfg)
	for i, s := range sc.Steps {
		fmt.Fprintf(&sb, "  %2d %s\n", i, s)
	}
	return sb.String()
}

// HistoryText renders a history for failure messages.
func HistoryText(h *sim.History) string {
	var sb strings.Builder
	for _, e := range h.Events {
		if len(h.Events) > 400 && e.Kind == "quiesce" {
			continue
		}
		fmt.Fprintf(&sb, "  %3d s%-2d %-9s", e.Seq, e.Step, e.Kind)
		if e.K != 0 || e.Inv != 0 {
			fmt.Fprintf(&sb, " k=%d inv=%d", e.K, e.Inv)
		}
		if e.Method != "" {
			fmt.Fprintf(&sb, " %s", e.Method)
		}
		if e.ID != "" {
			fmt.Fprintf(&sb, " id=%s", e.ID)
		}
		if e.Err != "" {
			fmt.Fprintf(&sb, " err=%s", e.Err)
		}
		if e.Ret != "" {
			fmt.Fprintf(&sb, " ret=%s", e.Ret)
		}
		if e.Flag != "" {
			fmt.Fprintf(&sb, " [%s]", e.Flag)
		}
		if e.Data != "" {
			d := e.Data
			if len(d) > 160 {
				d = d[:160] + "..."
			}
			fmt.Fprintf(&sb, " %s", d)
		}
		if e.Snap != nil {
			fmt.Fprintf(&sb, " reserved=%v callbacks=%v queued=%d parked=%v", e.Snap.Reserved, e.Snap.Callbacks, e.Snap.Queued, e.Snap.Parked)
		}
		sb.WriteByte('\n')
		if sb.Len() > 20000 {
			sb.WriteString("  ...\n")
			break
		}
	}
	return sb.String()
}

// CScriptText renders a client script for failure messages.
func CScriptText(sc sim.CScenario) string {
	var sb strings.Builder
	fmt.Fprintf(&sb, "  cfg: %+v\n", sc.Cfg)
	for i, s := range sc.Steps {
		fmt.Fprintf(&sb, "  %2d %s\n", i, s)
	}
	return sb.String()
}

// CHistoryText renders a client history for failure messages.
func CHistoryText(h *sim.CHistory) string {
	var sb strings.Builder
	for _, e := range h.Events {
		fmt.Fprintf(&sb, "  %3d s%-2d %-12s", e.Seq, e.Step, e.Kind)
		if e.K != 0 || e.I != 0 {
			fmt.Fprintf(&sb, " #%d[%d]", e.K, e.I)
		}
		if e.ID != "" {
			fmt.Fprintf(&sb, " id=%s", e.ID)
		}
		if e.Class != "" {
			fmt.Fprintf(&sb, " %s", e.Class)
		}
		if e.Code != 0 {
			fmt.Fprintf(&sb, " code=%d", e.Code)
		}
		if e.Err != "" {
			fmt.Fprintf(&sb, " err=%s", e.Err)
		}
		if e.Data != "" {
			d := e.Data
			if len(d) > 170 {
				d = d[:170] + "..."
			}
			fmt.Fprintf(&sb, " %s", d)
		}
		if e.Kind == "quiesce" {
			fmt.Fprintf(&sb, " pending=%v stopped=%v", e.Pending, e.Stopped)
		}
		sb.WriteByte('\n')
		if sb.Len() > 20000 {
			sb.WriteString("  ...\n")
			break
		}
	}
	return sb.String()
}
