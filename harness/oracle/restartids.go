package oracle

import (
	"encoding/json"
	"fmt"
	"strings"

	"verif/harness/sim"
)

// ReservationAcrossRestart judges the part of C07 that survives a restart: a
// request id is reserved only while a call carrying it is in flight, so on
// every connection (a) an id in the server's reserved set at a quiescent point
// was carried by a request the peer sent on that very connection, and (b) a
// request is turned away as a duplicate only if the peer sent that id at least
// twice on that connection.  Both are necessary conditions that need no
// attribution of replies to requests.
func ReservationAcrossRestart(sc sim.Scenario, h *sim.History) []Problem {
	var probs []Problem
	sentIDs := map[int]map[string]int{} // conn -> id text -> number of request members carrying it
	conn := 1
	for _, e := range h.Events {
		if e.Conn > conn {
			conn = e.Conn
		}
		switch e.Kind {
		case "sending", "sent":
			if e.Kind == "sent" {
				continue // counted when the peer began to send it
			}
			if sentIDs[e.Conn] == nil {
				sentIDs[e.Conn] = map[string]int{}
			}
			for _, m := range idRe.FindAllStringSubmatch(e.Data, -1) {
				sentIDs[e.Conn][m[1]]++
			}
		case "restart":
			conn++
		case "quiesce":
			if e.Snap == nil {
				continue
			}
			for _, id := range e.Snap.Reserved {
				if sentIDs[conn][id] == 0 {
					probs = append(probs, Problem{Sig: "C07/id-reserved-without-call-in-flight", Msg: fmt.Sprintf("at the quiescent point #%d (connection %d) id %s is reserved although no request with that id was sent on this connection", e.Seq, conn, id)})
				}
			}
		case "wire":
			var ms []json.RawMessage
			if json.Unmarshal([]byte(e.Data), &ms) != nil {
				ms = []json.RawMessage{json.RawMessage(e.Data)}
			}
			for _, m := range ms {
				var r struct {
					ID    json.RawMessage `json:"id"`
					Error *struct {
						Code    int    `json:"code"`
						Message string `json:"message"`
					} `json:"error"`
				}
				if json.Unmarshal(m, &r) != nil || r.Error == nil || r.Error.Code != -32600 || !strings.Contains(r.Error.Message, "duplicate request ID") {
					continue
				}
				if n := sentIDs[e.Conn][string(r.ID)]; n < 2 {
					probs = append(probs, Problem{Sig: "C07/free-id-rejected", Msg: fmt.Sprintf("on connection %d a request with id %s was turned away as a duplicate although the peer had sent that id %d time(s) on this connection", e.Conn, r.ID, n)})
				}
			}
		}
	}
	// (c) the converse for what is visibly in flight: a call whose handler is
	// parked at a quiescent point of a connection that nothing has ended yet
	// has its id reserved - a delivery left over from the previous connection
	// must not have released it
	type sentCall struct {
		conn int
		id   string
	}
	callOfK := map[int]sentCall{}
	kUses := map[int]int{}
	for _, e := range h.Events {
		if e.Kind != "sending" {
			continue
		}
		var ms []json.RawMessage
		if json.Unmarshal([]byte(e.Data), &ms) != nil {
			ms = []json.RawMessage{json.RawMessage(e.Data)}
		}
		for _, m := range ms {
			var r struct {
				ID     json.RawMessage `json:"id"`
				Method string          `json:"method"`
				Params struct {
					K *int `json:"k"`
				} `json:"params"`
			}
			if json.Unmarshal(m, &r) != nil || len(r.ID) == 0 || string(r.ID) == "null" || r.Params.K == nil || r.Method == "" {
				continue
			}
			kUses[*r.Params.K]++
			callOfK[*r.Params.K] = sentCall{e.Conn, string(r.ID)}
		}
	}
	conn = 1
	ended := map[int]bool{}
	for _, e := range h.Events {
		switch e.Kind {
		case "restart":
			conn++
		case "stop", "peerclose", "recvfault", "sendfault", "epilogue":
			ended[conn] = true
		case "quiesce":
			if e.Snap == nil || ended[conn] || !e.Snap.Running {
				continue
			}
			reserved := map[string]bool{}
			for _, id := range e.Snap.Reserved {
				reserved[id] = true
			}
			for _, k := range e.Snap.Parked {
				c, ok := callOfK[k]
				if !ok || kUses[k] != 1 || c.conn != conn || sentIDs[conn][c.id] != 1 {
					continue
				}
				if !reserved[c.id] {
					probs = append(probs, Problem{Sig: "C07/id-not-reserved-while-in-flight", Msg: fmt.Sprintf("at the quiescent point #%d (connection %d) the handler of call id %s (nonce %d) is running, yet the id is not reserved (reserved: %v)", e.Seq, conn, c.id, k, e.Snap.Reserved)})
				}
			}
		}
	}
	return probs
}
