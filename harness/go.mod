module verif/harness

go 1.26.8

require (
	github.com/creachadair/jrpc2 v0.0.0
	pgregory.net/rapid v1.3.0
)

require (
	github.com/creachadair/mds v0.24.2 // indirect
	golang.org/x/sync v0.13.0 // indirect
)

replace github.com/creachadair/jrpc2 => /repo
