// Package c14 checks property C14: errors keep their code, message and data
// from handler to caller.
package c14

import (
	"context"
	"encoding/json"
	"errors"
	"fmt"
	"github.com/creachadair/jrpc2/jhttp"
	"net/http"
	"net/http/httptest"
	"testing"
	"testing/synctest"

	"github.com/creachadair/jrpc2"
	"github.com/creachadair/jrpc2/handler"
	"github.com/creachadair/jrpc2/server"
	"pgregory.net/rapid"

	"verif/harness/engine"
	"verif/harness/ref/refjson"
	"verif/harness/ref/refrpc"
)

// ErrSpec is a plain-data description of an error value built from the
// constructors users have.
type ErrSpec struct {
	Kind  string          `json:"kind"` // rpcerror errorf codeerr coderv coderp wrapcoder canceled deadline plain join wrap
	Code  int             `json:"code,omitempty"`
	Msg   string          `json:"msg,omitempty"`
	Data  json.RawMessage `json:"data,omitempty"`
	Inner []ErrSpec       `json:"inner,omitempty"` // wrap / wrapcoder: one element; join: several
	// EmptyData (rpcerror without data): the Data field is an empty slice that
	// is not nil - as good as no data.
	EmptyData bool `json:"empty_data,omitempty"`
}

type coderV struct{ c int }

func (e coderV) Error() string       { return fmt.Sprintf("coderV %d", e.c) }
func (e coderV) ErrCode() jrpc2.Code { return jrpc2.Code(e.c) }

type coderP struct{ c int }

func (e *coderP) Error() string       { return fmt.Sprintf("coderP %d", e.c) }
func (e *coderP) ErrCode() jrpc2.Code { return jrpc2.Code(e.c) }

type wrapCoder struct {
	c     int
	inner error
}

func (e *wrapCoder) Error() string       { return fmt.Sprintf("wrapCoder %d: %v", e.c, e.inner) }
func (e *wrapCoder) ErrCode() jrpc2.Code { return jrpc2.Code(e.c) }
func (e *wrapCoder) Unwrap() error       { return e.inner }

func build(s ErrSpec) error {
	switch s.Kind {
	case "rpcerror":
		if s.EmptyData && len(s.Data) == 0 {
			return &jrpc2.Error{Code: jrpc2.Code(s.Code), Message: s.Msg, Data: json.RawMessage{}}
		}
		return &jrpc2.Error{Code: jrpc2.Code(s.Code), Message: s.Msg, Data: append(json.RawMessage(nil), s.Data...)}
	case "errorf":
		return jrpc2.Errorf(jrpc2.Code(s.Code), "%s", s.Msg)
	case "codeerr":
		return jrpc2.Code(s.Code).Err()
	case "coderv":
		return coderV{s.Code}
	case "coderp":
		return &coderP{s.Code}
	case "wrapcoder":
		return &wrapCoder{s.Code, build(s.Inner[0])}
	case "canceled":
		return context.Canceled
	case "deadline":
		return context.DeadlineExceeded
	case "plain":
		return errors.New(s.Msg)
	case "wrap":
		return fmt.Errorf("%s: %w", s.Msg, build(s.Inner[0]))
	case "join":
		var es []error
		for _, in := range s.Inner {
			es = append(es, build(in))
		}
		return errors.Join(es...)
	}
	panic("kind " + s.Kind)
}

// refCode re-implements the documented classification on the description:
// the first ErrCoder found in the error tree (pre-order, as errors.As walks
// it), else Cancelled / DeadlineExceeded if such a context error is anywhere in
// the tree, else SystemError.
func refCode(s ErrSpec) int {
	if c, ok := firstCoder(s); ok {
		return c
	}
	if contains(s, "canceled") {
		return -32097
	}
	if contains(s, "deadline") {
		return -32096
	}
	return -32098
}

func firstCoder(s ErrSpec) (int, bool) {
	switch s.Kind {
	case "rpcerror", "errorf", "coderv", "coderp", "wrapcoder":
		return s.Code, true
	case "codeerr":
		if s.Code == -32099 {
			return 0, false // Code(NoError).Err() is nil: no error at all
		}
		return s.Code, true
	}
	for _, in := range s.Inner {
		if in.Kind == "codeerr" && in.Code == -32099 {
			continue // a nil element
		}
		if c, ok := firstCoder(in); ok {
			return c, true
		}
	}
	return 0, false
}

func contains(s ErrSpec, kind string) bool {
	if s.Kind == kind {
		return true
	}
	for _, in := range s.Inner {
		if contains(in, kind) {
			return true
		}
	}
	return false
}

func hasNilElement(s ErrSpec) bool {
	if s.Kind == "codeerr" && s.Code == -32099 {
		return true
	}
	for _, in := range s.Inner {
		if hasNilElement(in) {
			return true
		}
	}
	return false
}

// Case: a handler returns either an error built from Spec or an unmarshalable value.
type Case struct {
	Spec      *ErrSpec `json:"spec,omitempty"`
	BadResult string   `json:"bad_result,omitempty"` // chan func nan cycle badraw
	// CancelFirst: the handler has its own call cancelled on the server
	// (CancelRequest), waits for its context to end, and only then returns its
	// error: the error is still the handler's, not the context's.
	CancelFirst bool `json:"cancel_first,omitempty"`
	// ViaCallback: the value or error is produced by the client's OnCallback
	// handler; the server handler calls back, and passes on what it gets.
	ViaCallback bool `json:"via_callback,omitempty"`
	// UseCallResult: the caller uses Client.CallResult instead of Client.Call.
	UseCallResult bool `json:"use_call_result,omitempty"`
	// Via: the caller uses Client.Batch and learns the outcome from the
	// *Response: "batch" rsp.Error(), "batchraw" rsp.UnmarshalResult(&json.RawMessage),
	// "batchany" rsp.UnmarshalResult(&any), "marshal" json.Marshal(rsp) (what a
	// proxy such as the HTTP bridge forwards).
	Via string `json:"via,omitempty"`
	// Bridge: the caller is a Client on a jhttp.Channel, the handler sits behind a
	// jhttp.Bridge (the HTTP round trip happens in-process); batches then begin
	// with a notification.
	Bridge bool `json:"bridge,omitempty"`
	// OneSlot: the server has Concurrency 1, so the call that follows the judged
	// one needs the very slot the failing handler occupied.
	OneSlot bool `json:"one_slot,omitempty"`
}

// inproc is an HTTP client that hands each request to a handler directly.
type inproc struct{ h http.Handler }

func (p inproc) Do(req *http.Request) (*http.Response, error) {
	rec := httptest.NewRecorder()
	p.h.ServeHTTP(rec, req)
	return rec.Result(), nil
}

func jsonEqual(a, b []byte) bool { return refjson.Equal(a, b) }

type cyc struct{ Next *cyc }

func run(t *testing.T, c Case) (v engine.Verdict) {
	var herr error
	if c.Spec != nil {
		if hasNilElement(*c.Spec) {
			return engine.Verdict{Labels: []string{"skipped:nil-element"}}
		}
		herr = build(*c.Spec)
		if herr == nil {
			return engine.Verdict{Labels: []string{"skipped:nil-error"}}
		}
	}
	var cerr error
	var rsp *jrpc2.Response
	var wire []byte
	stuck, after := "", ""
	func() {
		defer func() {
			if p := recover(); p != nil {
				stuck = fmt.Sprint(p)
			}
		}()
		synctest.Test(t, func(t *testing.T) {
			produce := func(ctx context.Context, req *jrpc2.Request) (any, error) {
				switch c.BadResult {
				case "chan":
					return make(chan int), nil
				case "func":
					return func() {}, nil
				case "nan":
					nan := 0.0
					return map[string]float64{"x": nan / nan}, nil
				case "cycle":
					x := &cyc{}
					x.Next = x
					return x, nil
				case "badraw":
					return json.RawMessage(`{"a":`), nil
				case "emptyraw":
					return json.RawMessage{}, nil
				case "baderrdata":
					// an error whose data are not valid JSON: still an error response, same code
					return nil, &jrpc2.Error{Code: 7, Message: "m: 50% of /a%20b", Data: json.RawMessage(`{"a":`)}
				}
				return nil, herr
			}
			var lopts *server.LocalOptions
			m := produce
			switch {
			case c.ViaCallback:
				lopts = &server.LocalOptions{Server: &jrpc2.ServerOptions{AllowPush: true},
					Client: &jrpc2.ClientOptions{OnCallback: func(ctx context.Context, req *jrpc2.Request) (any, error) { return produce(ctx, req) }}}
				m = func(ctx context.Context, req *jrpc2.Request) (any, error) {
					crsp, err := jrpc2.ServerFromContext(ctx).Callback(ctx, "cb", nil)
					if err != nil {
						return nil, err
					}
					// the callback was answered with a result: say so, whatever it holds
					return map[string]string{"callback_result": crsp.ResultString()}, nil
				}
			case c.CancelFirst && c.BadResult == "":
				m = func(ctx context.Context, req *jrpc2.Request) (any, error) {
					jrpc2.ServerFromContext(ctx).CancelRequest(req.ID())
					<-ctx.Done()
					return produce(ctx, req)
				}
			}
			mux := handler.Map{"ok": func(ctx context.Context, req *jrpc2.Request) (any, error) { return "fine", nil }, "m": m,
				"note": func(ctx context.Context, req *jrpc2.Request) (any, error) { return nil, nil }}
			if c.OneSlot {
				if lopts == nil {
					lopts = &server.LocalOptions{}
				}
				if lopts.Server == nil {
					lopts.Server = &jrpc2.ServerOptions{}
				}
				lopts.Server.Concurrency = 1
			}
			loc := server.NewLocal(mux, lopts)
			cli := loc.Client
			specs := []jrpc2.Spec{{Method: "ok"}, {Method: "m"}}
			if c.Bridge {
				b := jhttp.NewBridge(mux, nil)
				defer b.Close()
				cli = jrpc2.NewClient(jhttp.NewChannel("http://bridge.invalid/", &jhttp.ChannelOptions{Client: inproc{b}}), nil)
				defer cli.Close()
				specs = append([]jrpc2.Spec{{Method: "note", Notify: true}}, specs...)
			}
			if c.Via == "getter" {
				// the same handler behind the HTTP GET entry point: the error body is
				// the error object
				g := jhttp.NewGetter(handler.Map{"m": m}, nil)
				rec := httptest.NewRecorder()
				g.ServeHTTP(rec, httptest.NewRequest("GET", "/m", nil))
				g.Close()
				var eo struct {
					Code    *int            `json:"code"`
					Message string          `json:"message"`
					Data    json.RawMessage `json:"data"`
				}
				switch {
				case rec.Code == 200:
					wire = rec.Body.Bytes()
				case json.Unmarshal(rec.Body.Bytes(), &eo) != nil || eo.Code == nil:
					cerr = fmt.Errorf("GET answered %d with a body that is no error object: %s", rec.Code, rec.Body.String())
				default:
					cerr = &jrpc2.Error{Code: jrpc2.Code(*eo.Code), Message: eo.Message, Data: eo.Data}
				}
			} else if c.Via != "" {
				rsps, berr := cli.Batch(context.Background(), specs)
				switch {
				case berr != nil:
					cerr = fmt.Errorf("Batch failed: %w", berr)
				case len(rsps) != 2:
					cerr = fmt.Errorf("Batch returned %d responses", len(rsps))
				default:
					r := rsps[1]
					switch c.Via {
					case "batch":
						if e := r.Error(); e != nil {
							cerr = e
						} else {
							wire, _ = json.Marshal(r)
						}
					case "batchraw":
						raw := json.RawMessage(`"untouched"`)
						cerr = r.UnmarshalResult(&raw)
						if cerr == nil {
							wire = raw
						} else if string(raw) != `"untouched"` {
							after = fmt.Sprintf("UnmarshalResult reported %v and still overwrote its target with %q", cerr, raw)
						}
					case "batchany":
						var out any
						cerr = r.UnmarshalResult(&out)
						if cerr == nil {
							wire, _ = json.Marshal(out)
						}
					case "marshal":
						b, merr := json.Marshal(r)
						var m struct {
							Error *struct {
								Code    int             `json:"code"`
								Message string          `json:"message"`
								Data    json.RawMessage `json:"data"`
							} `json:"error"`
						}
						if merr != nil || json.Unmarshal(b, &m) != nil {
							cerr = fmt.Errorf("the response does not marshal: %v %s", merr, b)
						} else if m.Error != nil {
							cerr = &jrpc2.Error{Code: jrpc2.Code(m.Error.Code), Message: m.Error.Message, Data: m.Error.Data}
						} else {
							wire = b
						}
					}
				}
			} else if c.UseCallResult {
				var out any
				cerr = cli.CallResult(context.Background(), "m", nil, &out)
				if cerr == nil {
					wire, _ = json.Marshal(out)
				}
			} else {
				rsp, cerr = cli.Call(context.Background(), "m", nil)
			}
			if rsp != nil {
				wire, _ = json.Marshal(rsp)
			}
			// The response must have been a well-formed one: the connection is still usable.
			var s string
			if err := cli.CallResult(context.Background(), "ok", nil, &s); err != nil || s != "fine" {
				after = fmt.Sprintf("a following call failed: %q, %v (client stopped: %v)", s, err, cli.IsStopped())
			}
			loc.Close()
		})
	}()
	if stuck != "" {
		return engine.Failf("C14/no-response", "the call never completed: %s (case %+v)", stuck, c)
	}
	if after != "" {
		return engine.Failf("C14/malformed-or-missing-response", "after the handler returned (%+v): %s", c, after)
	}
	if c.BadResult != "" {
		var je *jrpc2.Error
		if cerr == nil {
			return engine.Failf("C14/unmarshalable-result-not-an-error", "handler returned an unmarshalable %s, the client got a success %s", c.BadResult, wire)
		}
		if !errors.As(cerr, &je) {
			return engine.Failf("C14/unmarshalable-result-not-an-error", "handler returned an unmarshalable %s, the client got %T %v (want an *Error response)", c.BadResult, cerr, cerr)
		}
		if c.BadResult == "baderrdata" && (je.Code != 7 || je.Message != "m: 50% of /a%20b") {
			return engine.Failf("C14/error-fields", "handler returned *Error{Code: 7, Message: %q} with data that are not JSON, the client got code %d message %q", "m: 50% of /a%20b", je.Code, je.Message)
		}
		return engine.Verdict{NonTrivial: true, Labels: []string{"bad-result:" + c.BadResult}}
	}
	want := refCode(*c.Spec)
	// the reference must agree with ErrorCode on the handler's error itself
	if got := int(jrpc2.ErrorCode(herr)); got != want {
		return engine.Failf("C14/errorcode-precedence", "ErrorCode(%v) = %d, the documented rules give %d (spec %+v)", herr, got, want, *c.Spec)
	}
	labels := []string{"kind:" + c.Spec.Kind}
	if c.Bridge {
		labels = append(labels, "through-bridge")
	}
	switch {
	case cerr == nil:
		return engine.Failf("C14/error-lost", "handler returned %v, the client got success", herr)
	case c.Via == "getter" && (want == -32097 || want == -32096):
		// (the client inside the Getter turns these codes into the context
		// sentinels, which the Getter writes as an empty object - the observation
		// recorded in DESIGN 12.3d; nothing about it is demanded here)
		labels = append(labels, "dontcare:context-code-through-getter")
	case c.Via == "getter" && c.Spec.Kind != "rpcerror" && c.Spec.Kind != "errorf":
		// other errors reach an HTTP caller as an object with the same code
		if got := int(jrpc2.ErrorCode(cerr)); got != want && want != -32099 {
			return engine.Failf("C14/code-changed", "ErrorCode of the handler's error %v is %d, the GET error body carries %v (code %d)", herr, want, cerr, got)
		}
	case c.Via != "" && (want == -32097 || want == -32096):
		// a *Response carries the context codes as an error object
		if got := int(jrpc2.ErrorCode(cerr)); got != want {
			return engine.Failf("C14/code-changed", "ErrorCode of the handler's error %v is %d, the batch response (%s) reports %v with code %d", herr, want, c.Via, cerr, got)
		}
	case want == -32097:
		if cerr != context.Canceled {
			return engine.Failf("C14/sentinel", "handler error %v classifies as Cancelled, the client got %T %v, want exactly context.Canceled", herr, cerr, cerr)
		}
	case want == -32096:
		if cerr != context.DeadlineExceeded {
			return engine.Failf("C14/sentinel", "handler error %v classifies as DeadlineExceeded, the client got %T %v, want exactly context.DeadlineExceeded", herr, cerr, cerr)
		}
	case c.Spec.Kind == "rpcerror" || c.Spec.Kind == "errorf":
		je, ok := cerr.(*jrpc2.Error)
		if !ok {
			return engine.Failf("C14/error-type", "handler returned *Error %v, the client got %T %v", herr, cerr, cerr)
		}
		if int(je.Code) != c.Spec.Code || je.Message != c.Spec.Msg {
			return engine.Failf("C14/error-fields", "handler *Error{%d,%q}, the client got {%d,%q}", c.Spec.Code, c.Spec.Msg, je.Code, je.Message)
		}
		if c.Spec.Kind == "rpcerror" && !jsonEqual(je.Data, c.Spec.Data) {
			return engine.Failf("C14/error-data", "handler *Error data %s, the client got %s", c.Spec.Data, je.Data)
		}
	default:
		if want == -32099 {
			labels = append(labels, "dontcare:coder-reporting-noerror")
			break
		}
		if got := int(jrpc2.ErrorCode(cerr)); got != want {
			return engine.Failf("C14/code-changed", "ErrorCode of the handler's error %v is %d, ErrorCode of the client's error %v is %d", herr, want, cerr, got)
		}
	}
	nt := len(c.Spec.Inner) > 0 || len(c.Spec.Data) > 0 || !named(c.Spec.Code)
	return engine.Verdict{NonTrivial: nt, Labels: labels}
}

func named(c int) bool {
	switch c {
	case -32700, -32600, -32601, -32602, -32603, -32099, -32098, -32097, -32096:
		return true
	}
	return false
}

var codes = []int{-32700, -32600, -32601, -32602, -32603, -32099, -32098, -32097, -32096, 0, 1, -1, 7, -32000, 2147483647, -2147483648, 32767, -32095, -32100}

func genSpec(t *rapid.T, depth int) ErrSpec {
	kinds := []string{"rpcerror", "rpcerror", "errorf", "codeerr", "coderv", "coderp", "canceled", "deadline", "plain"}
	if depth < 3 {
		kinds = append(kinds, "wrap", "wrap", "join", "wrapcoder")
	}
	s := ErrSpec{Kind: rapid.SampledFrom(kinds).Draw(t, "kind")}
	switch s.Kind {
	case "rpcerror", "errorf", "codeerr", "coderv", "coderp", "wrapcoder":
		if rapid.IntRange(0, 3).Draw(t, "anycode") == 0 {
			s.Code = int(rapid.Int32().Draw(t, "code32"))
		} else {
			s.Code = rapid.SampledFrom(codes).Draw(t, "code")
		}
	}
	switch s.Kind {
	case "rpcerror", "errorf", "plain", "wrap":
		s.Msg = rapid.SampledFrom([]string{"boom", "x", "", "é\n\"q\"", "[1] looks like a code", "context canceled", "50% off", "😀"}).Draw(t, "msg")
	}
	if s.Kind == "rpcerror" && rapid.IntRange(0, 5).Draw(t, "emptydata") == 0 {
		s.EmptyData = true
	} else if s.Kind == "rpcerror" && rapid.Bool().Draw(t, "data") {
		s.Data = json.RawMessage(rapid.SampledFrom([]string{`1`, `"s"`, `[1,2,{"a":null}]`, `{"k":"v"}`, `true`, `1e400`, `"é"`, `[]`, `null`, `false`, `0`, `""`}).Draw(t, "datav"))
	}
	switch s.Kind {
	case "wrap", "wrapcoder":
		s.Inner = []ErrSpec{genSpec(t, depth+1)}
	case "join":
		n := rapid.IntRange(1, 3).Draw(t, "njoin")
		for i := 0; i < n; i++ {
			s.Inner = append(s.Inner, genSpec(t, depth+1))
		}
	}
	return s
}

func genCase(t *rapid.T) Case {
	if rapid.IntRange(0, 19).Draw(t, "bad") == 0 {
		return Case{BadResult: rapid.SampledFrom([]string{"chan", "func", "nan", "cycle", "badraw", "emptyraw", "baderrdata"}).Draw(t, "badkind"), ViaCallback: rapid.IntRange(0, 2).Draw(t, "viacb") == 0,
			Via: rapid.SampledFrom([]string{"", "", "batch", "batchraw", "marshal"}).Draw(t, "via")}
	}
	s := genSpec(t, 0)
	c := Case{Spec: &s}
	switch rapid.IntRange(0, 5).Draw(t, "route") {
	case 0:
		c.CancelFirst = true
	case 1:
		c.ViaCallback = true
	}
	c.UseCallResult = rapid.IntRange(0, 3).Draw(t, "callresult") == 0
	c.Via = rapid.SampledFrom([]string{"", "", "", "batch", "batchraw", "batchany", "marshal", "getter"}).Draw(t, "via")
	c.Bridge = c.Via != "getter" && !c.ViaCallback && rapid.IntRange(0, 3).Draw(t, "bridge") == 0
	c.OneSlot = !c.Bridge && rapid.IntRange(0, 2).Draw(t, "oneslot") == 0
	if c.Via == "getter" && (c.ViaCallback || c.CancelFirst) {
		c.Via = "" // (a Getter has no push side, and its server is not reachable for CancelRequest)
	}
	return c
}

// ---- laws ----------------------------------------------------------------------

// Law is one input for the algebraic laws of Code.Err and Error.WithData.
type Law struct {
	Code int             `json:"code"`
	Msg  string          `json:"msg"`
	Data json.RawMessage `json:"data,omitempty"`
	With string          `json:"with"` // what is passed to WithData: nil json chan
	Val  json.RawMessage `json:"val,omitempty"`
}

func runLaw(_ *testing.T, l Law) engine.Verdict {
	c := jrpc2.Code(l.Code)
	if l.Code == -32099 {
		if c.Err() != nil {
			return engine.Failf("C14/noerror-err", "NoError.Err() = %v, want nil", c.Err())
		}
	} else if got := jrpc2.ErrorCode(c.Err()); got != c {
		return engine.Failf("C14/code-err-roundtrip", "ErrorCode(Code(%d).Err()) = %d", l.Code, got)
	}
	e := &jrpc2.Error{Code: c, Message: l.Msg, Data: append(json.RawMessage(nil), l.Data...)}
	before := jrpc2.Error{Code: e.Code, Message: e.Message, Data: append(json.RawMessage(nil), e.Data...)}
	var arg any
	switch l.With {
	case "nil":
		arg = nil
	case "chan":
		arg = make(chan int)
	default:
		var v any
		json.Unmarshal(l.Val, &v)
		arg = v
		if v == nil {
			arg = json.RawMessage("null")
		}
	}
	got := e.WithData(arg)
	if e.Code != before.Code || e.Message != before.Message || string(e.Data) != string(before.Data) {
		return engine.Failf("C14/withdata-mutates-receiver", "WithData(%v) changed its receiver from %+v to %+v", arg, before, *e)
	}
	switch l.With {
	case "nil", "chan":
		if got != e {
			return engine.Failf("C14/withdata-identity", "WithData(%s) must return the receiver itself", l.With)
		}
	default:
		if got == e {
			return engine.Failf("C14/withdata-aliases-receiver", "WithData(value) returned the receiver instead of a new value")
		}
		wantData, _ := json.Marshal(arg)
		if got.Code != e.Code || got.Message != e.Message || !jsonEqual(got.Data, wantData) {
			return engine.Failf("C14/withdata-fields", "WithData(%s) = %+v, want code %d message %q data %s", l.Val, *got, e.Code, e.Message, wantData)
		}
	}
	_ = refrpc.IDEqual
	return engine.Verdict{NonTrivial: !named(l.Code) || len(l.Data) > 0, Labels: []string{"with:" + l.With}}
}

func genLaw(t *rapid.T) Law {
	l := Law{Msg: rapid.SampledFrom([]string{"", "m", "é"}).Draw(t, "msg"), With: rapid.SampledFrom([]string{"nil", "json", "json", "chan"}).Draw(t, "with")}
	if rapid.Bool().Draw(t, "anycode") {
		l.Code = int(rapid.Int32().Draw(t, "code32"))
	} else {
		l.Code = rapid.SampledFrom(codes).Draw(t, "code")
	}
	if rapid.Bool().Draw(t, "hasdata") {
		l.Data = json.RawMessage(rapid.SampledFrom([]string{`1`, `{"a":[1]}`, `"x"`}).Draw(t, "data"))
	}
	l.Val = json.RawMessage(rapid.SampledFrom([]string{`1`, `"s"`, `[1,2]`, `{"k":{"n":null}}`, `null`, `false`, `0`}).Draw(t, "val"))
	return l
}

var parts = []engine.AnyPart{
	engine.Part[Case]{Name: "transport", Run: run, Gen: genCase,
		Rule: "error values built from *Error{code,message,data}, Errorf, Code.Err, custom ErrCoder types with value and pointer receivers, an ErrCoder that wraps another error, context.Canceled / DeadlineExceeded bare and wrapped 1-3 levels with %w, errors.Join mixtures, plain errors (all named codes, boundaries, arbitrary int32 codes) and unmarshalable results (chan, func, NaN, cyclic pointer, invalid RawMessage), each returned by a handler of a real Server and observed by a real Client (Call, CallResult, Batch and the *Response accessors, an HTTP GET through a Getter, and - one case in four - a Client on a jhttp.Channel whose POSTs reach a jhttp.Bridge in-process, batches then led by a notification) inside a bubble; oracle = an independent re-implementation of the documented classification, itself compared with ErrorCode on every value; non-trivial = wrapped/joined, or a code that is not a named constant, or carrying data; distinct = the case"},
	engine.Part[Law]{Name: "laws", Run: runLaw, Gen: genLaw,
		Rule: "ErrorCode(c.Err()) == c for arbitrary int32 codes (NoError.Err() == nil); Error.WithData never modifies its receiver, returns the receiver for nil/unmarshalable values and otherwise a new value with the same code/message and data = json.Marshal(v); non-trivial = non-named code or receiver carrying data"},
}

func TestProp(t *testing.T)   { engine.RunParts(t, "C14", parts) }
func TestReplay(t *testing.T) { engine.ReplayParts(t, "C14", parts) }
