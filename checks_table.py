"""Per-property job tables for the driver (./check). One entry per property:
pkg = test package under harness/, level = evidence level, jobs[tier] = list of
{part, shards, checks (rapid cases per shard), journal, timeout, scale}."""

CHECKS = {
    'C18': dict(pkg='c18', level='exploration',
        technique='stateful property-based testing of the HTTP bridge: rapid-generated concurrent HTTP requests driven in-process (Bridge.ServeHTTP with httptest recorders) inside a testing/synctest bubble with gated handlers and generated release orders; oracle = per-request expectation from the reference classifier (status, body shape, multiset of response objects with the caller id text and the token of the invocation that saw this caller params) plus the handler log',
        level_text='Several HTTP callers overlap for as long as the script wants on one bridge, using identical and exotic ids; each caller must get exactly the responses to its own calls with its own id texts (nonces in the params make cross-talk visible), 200 with an object for one response / an array otherwise, 204 with an empty body for notification-only bodies, error objects for statically invalid members without running a handler, 405 / 415 / an error status for refused requests, and every valid request must run its handler exactly once. Exploration.',
        level_note='Trusts harness/c18 and refrpc; charset=UTF-8 in upper case, empty-array bodies, members without a method and ids duplicated within one body are dont-care. Reader-site hook delays are off in this world (see DESIGN: mutex waits are not durable blocks).',
        jobs=dict(
        quick=[dict(part='scenarios', shards=4, checks=1500, journal=True)],
        thorough=[dict(part='scenarios', shards=14, checks=30000, journal=True, timeout=3000)])),
    'C17': dict(pkg='c17', level='exploration',
        technique='differential testing of dispatch against a reference resolver written from the documentation: all method names up to length 4 over a 6-symbol alphabet enumerated against fixed assigner trees, rapid-generated trees and names beyond; each name is dispatched through a real Server and through Assign directly, with a recording assigner and identity-tagged handlers',
        level_text='Each name is sent as a call through a real server (and given to Assign directly); the handler that ran (identity tag in the result), the names handed to a recording assigner, the InboundRequest/ServerFromContext values seen by assigner and handler, Names() and the rpc.serverInfo reply are compared with a reference resolver (whole name for Map, first-dot split for ServiceMap, rpc. prefix withheld unless DisableBuiltin). Exhaustive for short names on the fixed trees; exploration beyond.',
        level_note='Trusts the reference resolver in harness/c17; names are valid UTF-8 non-empty strings when sent through the server (the empty name is only given to Assign).',
        jobs=dict(
        quick=[dict(part='shortnames', shards=4), dict(part='random', shards=3, checks=1500)],
        thorough=[dict(part='shortnames', shards=4), dict(part='random', shards=12, checks=40000, timeout=3000)])),
    'C16': dict(pkg='c16', level='exploration',
        technique='differential property testing over generated programs: positional functions built with reflect.FuncOf/MakeFunc from the C15 type grammar with generated name lists, params around the arity boundary; oracle = element-wise encoding/json independent of the synthetic-struct implementation; overlapping calls of one handler with tagged arguments; Args/Obj against element-wise json.Unmarshal with prior-value comparison',
        level_text='Positional handlers of arity 0-6 must accept exactly arrays of n elements (element i into Xi, null allowed) or objects over the given names, call the function once with those values and otherwise report InvalidParams without calling it; overlapping calls must each see their own arguments; Args decodes/encodes position by position with exact length and skips nil slots, Obj touches only the targets whose keys are present. Exploration.',
        level_note='Trusts the element-wise reference in harness/c16; unknown keys nested inside struct-typed arguments, case variants of names and null/absent params are dont-care.',
        jobs=dict(
        quick=[dict(part='positional', shards=3, checks=8000), dict(part='concurrent', shards=2, checks=40), dict(part='argsobj', shards=2, checks=10000)],
        thorough=[dict(part='positional', shards=10, checks=200000, timeout=3000), dict(part='concurrent', shards=4, checks=2000, timeout=3000), dict(part='argsobj', shards=6, checks=300000, timeout=3000)])),
    'C15': dict(pkg='c15', level='exploration',
        technique='differential property testing over generated programs: function types built with reflect.FuncOf/StructOf from a type grammar, function values from reflect.MakeFunc recording their calls, all SetStrict/AllowArray settings, params derived from the type; oracle = encoding/json applied directly to the declared parameter type after an independently computed array-to-field mapping, and the documented signature schemes for Check',
        level_text='For generated (function type, options, params) triples the wrapper must either call the function exactly once with the value encoding/json decodes (same context, results and errors passed through) or, without calling it, report InvalidParams; it must never panic; Check must accept exactly the documented schemes. Exploration over programs x configurations x inputs.',
        level_note='Trusts the reference decoding in harness/c15 (encoding/json plus the documented mapping); case-colliding field names, arrays for structs without eligible fields and (error, error) results are dont-care.',
        jobs=dict(
        quick=[dict(part='triples', shards=3, checks=8000)],
        thorough=[dict(part='triples', shards=12, checks=200000, timeout=3000)])),
    'C14': dict(pkg='c14', level='exploration',
        technique='differential property testing: rapid-generated error trees (all user-visible constructors, wrapping, joining, arbitrary int32 codes) returned by a handler of a real Server and observed by a real Client in a bubble, against an independent re-implementation of the documented classification; algebraic laws of Code.Err and Error.WithData',
        level_text='Generated error values (and unmarshalable results) travel handler -> Server -> wire -> Client; the client-side error must have the ErrorCode of the handler error, *Error code/message/data must arrive unchanged, context errors must surface as the sentinel values, an unmarshalable result must become an error response (a missing response is a detected bubble deadlock). ErrorCode(c.Err()) == c and the WithData laws are checked for arbitrary int32 codes. Exploration.',
        level_note='Trusts the reference classification in harness/c14 (written from the ErrorCode documentation) and refjson.Equal; a non-*Error ErrCoder reporting NoError is dont-care.',
        jobs=dict(
        quick=[dict(part='transport', shards=3, checks=3000), dict(part='laws', shards=1, checks=20000)],
        thorough=[dict(part='transport', shards=12, checks=80000, timeout=3000), dict(part='laws', shards=2, checks=500000, timeout=3000)])),
    'C13': dict(pkg='c13', level='exploration',
        technique='round-trip property testing (emit through every emitter of the library -> captured bytes -> independent decoder and the library parser) over rapid-generated hostile method names / ids / values, and differential testing of ParseRequests against the reference classifier over the exhaustive field-variant product and generated inputs',
        level_text='Every emitter (Client.Call/Notify/Batch, server responses and errors, Server.Notify/Callback, the client callback reply, bridge bodies) is driven with generated method names, ids and values (decoded or pre-encoded with white space); captured bytes must be one-line valid UTF-8 JSON with jsonrpc 2.0 that parses back to the same id, method and JSON-equal payload under an independent decoder and under ParseRequests. ParseRequests is compared with the reference classifier on the complete field-variant product and on generated/mutated inputs. Exploration; exhaustive for the product.',
        level_note='Trusts harness/ref/refjson, refrpc and the numeric JSON equality in the harness; method names are valid UTF-8 by construction (the property quantifies over those).',
        jobs=dict(
        quick=[dict(part='emit', shards=3, checks=4000), dict(part='parseproduct', shards=2), dict(part='parserandom', shards=2, checks=10000)],
        thorough=[dict(part='emit', shards=10, checks=100000, timeout=3000), dict(part='parseproduct', shards=2), dict(part='parserandom', shards=10, checks=300000, timeout=3000)])),
    'C10': dict(pkg='c10', level='exploration',
        technique='property-based testing with an instrumented channel wrapper (entry/exit counters for Send/Recv/Close, yields inside the operations) under the union of the server- and client-side scenario generators, with equal pinned hook delays so that would-be concurrent senders become runnable at the same instant; every record passed to Send validated by an independent JSON-RPC message validator',
        level_text='All server-side workloads (concurrent calls, batches, pushes, callbacks, cancellations, stop/close, restarts) and client-side workloads (concurrent calls, batches, callback replies, Close, faults) run on channels wrapped by an overlap detector: never two Sends, never two Recvs, never Send overlapping Close, Close exactly once per Start/NewClient, every record a whole JSON-RPC message. Exploration.',
        level_note='Overlap can only be observed where the wrapper yields and the generator makes two senders runnable together (equal hook delays, bursts); trusts harness/sim/chan.go and the message validator in harness/oracle/client.go.',
        jobs=dict(
        quick=[dict(part='server', shards=3, checks=1500, journal=True), dict(part='client', shards=3, checks=1500, journal=True)],
        thorough=[dict(part='server', shards=8, checks=40000, journal=True, timeout=3000), dict(part='client', shards=6, checks=40000, journal=True, timeout=3000)])),
    'C05': dict(pkg='c05', level='fault_enumeration',
        technique='stateful property-based testing plus fault enumeration on the Client: rapid-generated scripts of operations / replies / context ends / Close / peer EOF / malformed records in a testing/synctest bubble with generated hook delays; every channel operation of small scripts re-run with each fault kind; oracle = exactly-once return with an outcome admissible for the events that preceded it, hook counts, leak detection by the bubble',
        level_text='Every started Call/CallResult/Batch/Notify must return exactly once with an outcome admissible for what happened first (reply / context error / stop), nothing may be transmitted after the client stopped, OnCancel runs once per transmitted request that ended without a reply and never for an answered one, OnStop once with the first cause, Close only after all OnCallback handlers returned, and the bubble must end with no goroutine left. For small scripts a fault is injected at EVERY Recv and Send index of the client channel. Fault enumeration over generated scripts; not a proof.',
        level_note='Trusts harness/oracle/client.go, the E4 wrapper and testing/synctest; raced events are judged by admissible sets (DESIGN section 7); assumes the peer closes its end after seeing EOF.',
        jobs=dict(
        quick=[dict(part='scenarios', shards=4, checks=1500, journal=True), dict(part='faults', shards=4, checks=40, journal=True)],
        thorough=[dict(part='scenarios', shards=10, checks=30000, journal=True, timeout=3000), dict(part='faults', shards=10, checks=800, journal=True, timeout=3000)])),
    'C04': dict(pkg='c04', level='exploration',
        technique='model-based property testing of the Client against a raw scripted peer in a testing/synctest bubble: every permutation x partition x single hostile insertion of the reply stream enumerated for 2-3 outstanding replies, rapid-generated reply plans beyond; oracle = each returned value must be the first reply the peer sent for that request id text',
        level_text='Concurrent Call/CallResult/Batch operations are answered by a scripted raw peer from a reply plan (any order, grouping into arrays, duplicates with different payloads, unknown/null ids, malformed members, id-variant members, interleaved server notifications and calls). Every returned value must be the payload sent for that id (payloads embed the operation, so cross-delivery is visible), each reply is consumed at most once, Batch keeps spec order, ids in flight are distinct, no goroutine is left. Exhaustive for the stated small plans, exploration beyond.',
        level_note='Trusts harness/oracle/client.go and the scripted peer; outcomes of members with both/neither result and error or malformed members bearing a pending id are dont-care.',
        jobs=dict(
        quick=[dict(part='plans', shards=4, journal=True), dict(part='random', shards=3, checks=1500, journal=True)],
        thorough=[dict(part='plans', shards=6, journal=True), dict(part='random', shards=12, checks=30000, journal=True, timeout=3000)])),
    'C09': dict(pkg='c09', level='exploration',
        technique='stateful property-based testing: rapid-generated push workloads (Notify/Callback from outside and from parked handlers, scripted peer replies in any order / duplicated / late / unsolicited, fake-clock deadlines, Stop) in a testing/synctest bubble; history invariants over push returns, wire requests and peer replies plus the server reference model for anything the server emits',
        level_text='Generated push workloads against a real server with a raw scripted peer: every Callback must return exactly once with the first reply sent for its id (or an admissible raced one), its context error, or an error after stop, never another payload; each push is transmitted exactly once with ids unique among outstanding callbacks; unsolicited, late and duplicate replies complete nothing and provoke no outbound message; replies are delivered while dispatch is parked behind a notification. Exploration.',
        level_note='Trusts harness/oracle/push.go and the scripted peer; replies sent before the request was visible to the peer are treated as admissible-either (DESIGN section 7).',
        jobs=dict(
        quick=[dict(part='scenarios', shards=4, checks=1500, journal=True)],
        thorough=[dict(part='scenarios', shards=14, checks=30000, journal=True, timeout=3000)])),
    'C08': dict(pkg='c08', level='fault_enumeration',
        technique='stateful property-based testing plus fault enumeration: rapid-generated traffic with Stop / peer close at any position in a testing/synctest bubble (goroutine-leak and deadlock detection by the bubble), every channel operation of small scenarios re-run with each fault kind; worker crashes recovered through a case journal',
        level_text='Generated histories mix traffic with Stop, peer close and injected Recv/Send faults on channels whose Close does and does not unblock Recv; for small scenarios a fault is injected at EVERY Recv and Send index with every fault kind. Checked: the process survives, WaitStatus returns after all handlers with the status of the first cause, parked calls see cancelled contexts, notifications received before the stop still run, no goroutine or state is left, the restarted server serves a probe. Fault enumeration over the generated scenarios; not a proof.',
        level_note='Trusts the bubble notion of quiescence/leak (testing/synctest), the E4 channel wrapper and harness/oracle/shutdown.go; raced stop causes are judged by admissible sets.',
        jobs=dict(
        quick=[dict(part='scenarios', shards=4, checks=1500, journal=True), dict(part='faults', shards=4, checks=50, journal=True)],
        thorough=[dict(part='scenarios', shards=10, checks=30000, journal=True, timeout=3000), dict(part='faults', shards=10, checks=800, journal=True, timeout=3000)])),
    'C03': dict(pkg='c03', level='exploration',
        technique='stateful property-based testing: rapid-generated scripts (records, handler releases, CancelRequest) against a real Server in a testing/synctest bubble with generated hook delays; history judged at every quiescent point by a sequential reference model',
        level_text='Scenarios biased to parked notification handlers followed by later records; the safety half (a notification has returned before any later request is invoked) is checked on the logical clock of the handler log, the liveness half (later requests start as soon as no earlier notification is unfinished; a running call delays nothing) at every sound quiescent point of the bubble. Exploration.',
        level_note='Trusts the sequential model in harness/oracle/server.go (arrival order, notification barrier, id reservations, slots) and refrpc; races the model cannot decide are classified dont-care (DESIGN section 7); schedule coverage as in DESIGN section 10.',
        jobs=dict(
        quick=[dict(part='scenarios', shards=4, checks=1500, journal=True)],
        thorough=[dict(part='scenarios', shards=14, checks=30000, journal=True, timeout=3000)])),
    'C06': dict(pkg='c06', level='exploration',
        technique='stateful property-based testing: rapid-generated scripts (records, handler releases, CancelRequest) against a real Server in a testing/synctest bubble with generated hook delays; history judged at every quiescent point by a sequential reference model',
        level_text='Scenarios with Concurrency 1-4 and batches larger than the limit; an entry/exit counter in the gated handlers must never exceed the limit, at quiescence no dispatched request may wait while a slot is free, built-ins count against the limit, a call cancelled while waiting for a slot is answered -32097 and never runs. Exploration.',
        level_note='Trusts the sequential model in harness/oracle/server.go (arrival order, notification barrier, id reservations, slots) and refrpc; races the model cannot decide are classified dont-care (DESIGN section 7); schedule coverage as in DESIGN section 10.',
        jobs=dict(
        quick=[dict(part='scenarios', shards=4, checks=1500, journal=True), dict(part='deadline', shards=1, checks=1500, journal=True)],
        thorough=[dict(part='scenarios', shards=14, checks=30000, journal=True, timeout=3000), dict(part='deadline', shards=2, checks=30000, journal=True, timeout=3000)])),
    'C07': dict(pkg='c07', level='exploration',
        technique='stateful property-based testing: rapid-generated scripts (records, handler releases, CancelRequest) against a real Server in a testing/synctest bubble with generated hook delays; history judged at every quiescent point by a sequential reference model',
        level_text='Histories over a small id pool with constant reuse, CancelRequest for in-flight / finished / unknown ids; at every quiescent point the cancelled-context set and the reserved-id snapshot must equal the model, duplicates of in-flight ids are rejected without disturbing the first call, ids are accepted again after any reply. Exploration.',
        level_note='Trusts the sequential model in harness/oracle/server.go (arrival order, notification barrier, id reservations, slots) and refrpc; races the model cannot decide are classified dont-care (DESIGN section 7); schedule coverage as in DESIGN section 10.',
        jobs=dict(
        quick=[dict(part='scenarios', shards=4, checks=1500, journal=True)],
        thorough=[dict(part='scenarios', shards=14, checks=30000, journal=True, timeout=3000)])),
    'C01': dict(pkg='c01', level='exploration',
        technique='stateful property-based testing: rapid-generated scripts of inbound records / handler releases run against a real Server in a testing/synctest bubble with generated hook delays; history judged at every quiescent point by a sequential reference model (refrpc + arrival order / barrier model)',
        level_text='Generated scenarios (several records in flight, handlers finishing in any order with result/error/unmarshalable outcomes, bursts of racing steps, schedules steered through hook delays) are executed against the real server; at every sound quiescent point and at the end the wire log and the handler log must satisfy exactly-once, correlation, grouping, ordering and silence for messages with nothing to report. Exploration.',
        level_note='Trusts the sequential model in harness/oracle/server.go and refrpc; schedule coverage is what hook sites, bursts and gated handlers can express (DESIGN section 10).',
        jobs=dict(
        quick=[dict(part='scenarios', shards=4, checks=1500, journal=True), dict(part='deadline', shards=1, checks=1500, journal=True)],
        thorough=[dict(part='scenarios', shards=14, checks=30000, journal=True, timeout=3000), dict(part='deadline', shards=2, checks=30000, journal=True, timeout=3000)])),
    'C02': dict(pkg='c02', level='exploration',
        technique='differential oracle: an independent JSON-RPC 2.0 member classifier (admissible-outcome sets) against a real Server in a synctest bubble; complete product of per-field variants enumerated, rapid-generated batches/mutations beyond it; liveness probe after every record',
        level_text='Every combination of per-field variants of a request object (30240) is sent as a single record to a real server on a plain and a push-enabled configuration; replies (or their absence, decided at a sound quiescent point of the bubble), handler invocations and a follow-up probe call are compared with a reference classifier written from the spec. Batches, random near-valid JSON and byte mutations are searched beyond the product. Exploration; exhaustive for the product only.',
        level_note='Trusts harness/ref/refrpc (appendix A of DESIGN.md) and the response validator; admissible sets (dont-care classes of DESIGN section 7) are not checked beyond well-formedness and survival.',
        jobs=dict(
        quick=[
            dict(part='product', shards=8, journal=True, timeout=300),
            dict(part='batch', shards=3, checks=1200, journal=True),
            dict(part='random', shards=3, checks=1500, journal=True),
        ],
        thorough=[
            dict(part='product', shards=14, journal=True, timeout=1800),
            dict(part='batch', shards=7, checks=40000, journal=True, timeout=3000),
            dict(part='random', shards=7, checks=60000, journal=True, timeout=3000),
        ])),
    'C11': dict(pkg='c11', level='exploration',
        technique='round-trip oracle (library Send -> byte stream -> chunk-controlled reader -> Recv) over rapid-generated record sequences and fragmentations, with every cut set enumerated for short streams',
        level_text='Records are sent pipelined with the library Send of each framing and read back through a reader whose read boundaries are generated (all cut sets for short streams, all one/two-cut fragmentations of header streams, 1-byte reads, bounded reads, data+EOF); results must equal the sent records byte for byte, then io.EOF three times. Exploration, exhaustive only for the stated finite sub-spaces.',
        level_note='Trusts the chunk-controlled reader and the comparison; records are generated legal for the framing (RawJSON: self-delimiting values), split-byte records are expected to be refused with nothing written.',
        jobs=dict(
        quick=[
            dict(part='allcuts', shards=8, timeout=300),
            dict(part='pairs', shards=2),
            dict(part='huge', shards=3),
            dict(part='random', shards=3, checks=4000),
            dict(part='randombig', shards=3, checks=150),
        ],
        thorough=[
            dict(part='allcuts', shards=12, timeout=3000),
            dict(part='pairs', shards=2),
            dict(part='huge', shards=6, timeout=1800),
            dict(part='random', shards=8, checks=40000, timeout=1800),
            dict(part='randombig', shards=8, checks=2500, timeout=3000),
        ])),
    'C12': dict(pkg='c12', level='exploration',
        technique='exhaustive enumeration of short token streams + rapid-generated mutations of valid streams, compared with independent reference decoders (differential oracle) and universal no-fabrication/termination invariants; crashes caught via a case journal',
        level_text='Every stream of up to N tokens over framing-specific alphabets (incl. hostile lengths) is enumerated completely and each Recv result compared with a reference decoder written from the package documentation; mutated and truncated valid streams are searched beyond that bound. Exploration, exhaustive only for the stated finite sub-spaces.',
        level_note='Trusts the reference decoders in harness/ref/refframe (documented formats, DESIGN appendix B) and the dont-care classes of DESIGN section 7; readers deliver each byte once (no transient I/O errors).',
        jobs=dict(
        quick=[
            dict(part='enum', shards=10, journal=True, timeout=300),
            dict(part='trunc', shards=1, journal=True),
            dict(part='big', shards=1, journal=True),
            dict(part='mutated', shards=3, checks=6000, journal=True),
            dict(part='valid', shards=1, checks=1500),
        ],
        thorough=[
            dict(part='enum', shards=14, journal=True, timeout=3000),
            dict(part='trunc', shards=2, journal=True),
            dict(part='big', shards=1, journal=True),
            dict(part='mutated', shards=12, checks=100000, journal=True, timeout=1800),
            dict(part='valid', shards=2, checks=50000),
        ]),
        assumptions=['the underlying io.Reader returns each byte exactly once and then io.EOF (no transient errors)']),
}

# Properties deliberately not claimed, with the reason (empty = all are meant to be claimed).
NOT_APPLICABLE = {}
