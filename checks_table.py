"""Per-property job tables for the driver (./check). One entry per property:
pkg = test package under harness/, level = evidence level, jobs[tier] = list of
{part, shards, checks (rapid cases per shard), journal, timeout, scale}."""

CHECKS = {
    'C12': dict(pkg='c12', level='exploration',
        technique='exhaustive enumeration of short token streams + rapid-generated mutations of valid streams, compared with independent reference decoders (differential oracle) and universal no-fabrication/termination invariants; crashes caught via a case journal',
        level_text='Every stream of up to N tokens over framing-specific alphabets (incl. hostile lengths) is enumerated completely and each Recv result compared with a reference decoder written from the package documentation; mutated and truncated valid streams are searched beyond that bound. Exploration, exhaustive only for the stated finite sub-spaces.',
        level_note='Trusts the reference decoders in harness/ref/refframe (documented formats, DESIGN appendix B) and the dont-care classes of DESIGN section 7; readers deliver each byte once (no transient I/O errors).',
        jobs=dict(
        quick=[
            dict(part='enum', shards=10, journal=True, timeout=300),
            dict(part='trunc', shards=1, journal=True),
            dict(part='big', shards=1, journal=True),
            dict(part='mutated', shards=3, checks=6000, journal=True),
            dict(part='valid', shards=1, checks=1500),
        ],
        thorough=[
            dict(part='enum', shards=14, journal=True, timeout=3000),
            dict(part='trunc', shards=2, journal=True),
            dict(part='big', shards=1, journal=True),
            dict(part='mutated', shards=12, checks=100000, journal=True, timeout=1800),
            dict(part='valid', shards=2, checks=50000),
        ]),
        assumptions=['the underlying io.Reader returns each byte exactly once and then io.EOF (no transient errors)']),
}

# Properties deliberately not claimed, with the reason (empty = all are meant to be claimed).
NOT_APPLICABLE = {}
